// ===== shim: finite-sequence model of std iterator adapters (A-ITER). ASSUMED contracts. =====
// An iterator is modelled by the sequence of items it will yield (`view`). Adapters are external functions whose contracts state
// the std-documented behaviour. Closure contracts are one-directional relations, so each adapter contract is stated for EVERY
// mathematical function that the closure's contract pins down: if the closure's post-condition determines its result as p(x)
// (resp. g(x)), the adapter's result is the textbook filter / map / filter_map / flat_map of the input sequence by p (resp. g).
// Not modelled: laziness / interleaving of side effects (the closures verified here are pure), size hints, infinite iterators.
pub struct VIter<T> { pub items: Ghost<Seq<T>> }

pub open spec fn seq_filter_map<T, U>(s: Seq<T>, g: spec_fn(T) -> Option<U>) -> Seq<U>
    decreases s.len()
{
    if s.len() == 0 { Seq::empty() } else {
        let rest = seq_filter_map(s.drop_last(), g);
        match g(s.last()) { Some(u) => rest.push(u), None => rest }
    }
}

// `idx` selects a strictly increasing list of positions of a sequence of length n
pub open spec fn idx_increasing(idx: Seq<int>, n: int) -> bool {
    &&& forall|k: int| 0 <= k < idx.len() ==> 0 <= #[trigger] idx[k] < n
    &&& forall|a: int, b: int| 0 <= a < b < idx.len() ==> idx[a] < idx[b]
}
// std::iter::empty()
pub fn vx_empty_iter<T>() -> (r: VIter<T>) ensures r@ == Seq::<T>::empty() { VIter { items: Ghost(Seq::empty()) } }

impl<T> VIter<T> {
    pub open spec fn view(&self) -> Seq<T> { self.items@ }

    // Iterator::filter
    #[verifier::external_body]
    pub fn filter<F: Fn(&T) -> bool>(self, f: F) -> (r: VIter<T>)
        requires forall|x: &T| f.requires((x,)),
        ensures forall|p: spec_fn(T) -> bool| (forall|x: T, b: bool| f.ensures((&x,), b) ==> b == p(x)) ==> r@ == #[trigger] self@.filter(p),
    { unimplemented!() }

    // Iterator::map
    #[verifier::external_body]
    pub fn map<U, F: Fn(T) -> U>(self, f: F) -> (r: VIter<U>)
        requires forall|x: T| f.requires((x,)),
        ensures forall|g: spec_fn(T) -> U| (forall|x: T, y: U| f.ensures((x,), y) ==> y == g(x)) ==> r@ == #[trigger] self@.map_values(g),
            // relational form (closures whose result is not a function of the argument, e.g. a send that may fail)
            r@.len() == self@.len(), forall|i: int| 0 <= i < r@.len() ==> f.ensures((self@[i],), #[trigger] r@[i]),
    { unimplemented!() }

    // IntoIterator::into_iter of an iterator is the iterator
    pub fn into_iter(self) -> (r: VIter<T>) ensures r@ == self@ { self }

    // Iterator::filter_map
    #[verifier::external_body]
    pub fn filter_map<U, F: Fn(T) -> Option<U>>(self, f: F) -> (r: VIter<U>)
        requires forall|x: T| f.requires((x,)),
        ensures forall|g: spec_fn(T) -> Option<U>| (forall|x: T, y: Option<U>| f.ensures((x,), y) ==> y == g(x)) ==> r@ == #[trigger] seq_filter_map(self@, g),
            // relational form (closures whose result is not a function of the argument): `idx` are the positions that were kept
            exists|idx: Seq<int>| #[trigger] idx_increasing(idx, self@.len() as int) && idx.len() == r@.len()
                && (forall|k: int| 0 <= k < idx.len() ==> f.ensures((self@[#[trigger] idx[k]],), Some(r@[k])))
                && (forall|j: int| 0 <= j < self@.len() && !idx.contains(j) ==> f.ensures((#[trigger] self@[j],), None)),
    { unimplemented!() }

    // Iterator::flat_map (the closure returns an iterator; the results are concatenated in order)
    #[verifier::external_body]
    pub fn flat_map<U, F: Fn(T) -> VIter<U>>(self, f: F) -> (r: VIter<U>)
        requires forall|x: T| f.requires((x,)),
        ensures forall|g: spec_fn(T) -> Seq<U>| (forall|x: T, y: VIter<U>| f.ensures((x,), y) ==> y@ == g(x)) ==> r@ == #[trigger] self@.map_values(g).flatten(),
    { unimplemented!() }

    // Iterator::chain
    #[verifier::external_body]
    pub fn chain(self, other: VIter<T>) -> (r: VIter<T>) ensures r@ == self@ + other@ { unimplemented!() }

    // Iterator::collect::<B>() for the collections below (FromIterator keeps the items in order)
    pub fn collect<B: VxFromIter<T>>(self) -> (r: B) ensures r.vx_items() == self@ { B::vx_from_iter(self) }
}
pub trait VxFromIter<T>: Sized {
    spec fn vx_items(&self) -> Seq<T>;
    fn vx_from_iter(it: VIter<T>) -> (r: Self) ensures r.vx_items() == it@;
}
impl<T> VxFromIter<T> for Vec<T> {
    open spec fn vx_items(&self) -> Seq<T> { self@ }
    #[verifier::external_body] fn vx_from_iter(it: VIter<T>) -> (r: Self) { unimplemented!() }
}
pub open spec fn derefs<'a, T>(s: Seq<&'a T>) -> Seq<T> { Seq::new(s.len(), |i: int| *s[i]) }

// Either::Left(it) / Either::Right(it) of two iterator types with the same Item: iterates exactly like `it`
pub fn vx_either<T>(it: VIter<T>) -> (r: VIter<T>) ensures r@ == it@ { it }

// the values of an IndexMap in map order, as references
pub open spec fn vals<'a, K, V>(m: Seq<(K, V)>) -> Seq<&'a V> { Seq::new(m.len(), |i: int| &m[i].1) }
impl<'a, K, V> Values<'a, K, V> {
    #[verifier::external_body]
    pub fn vx_iter(self) -> (r: VIter<&'a V>) ensures r@ == vals::<K, V>(self.map@) { unimplemented!() }
    #[verifier::external_body]
    pub fn filter<F: Fn(&&'a V) -> bool>(self, f: F) -> (r: VIter<&'a V>)
        requires forall|x: &&'a V| f.requires((x,)),
        ensures forall|p: spec_fn(&'a V) -> bool| (forall|x: &'a V, b: bool| f.ensures((&x,), b) ==> b == p(x)) ==> r@ == #[trigger] vals::<K, V>(self.map@).filter(p),
    { unimplemented!() }
    #[verifier::external_body]
    pub fn map<U, F: Fn(&'a V) -> U>(self, f: F) -> (r: VIter<U>)
        requires forall|x: &'a V| f.requires((x,)),
        ensures forall|g: spec_fn(&'a V) -> U| (forall|x: &'a V, y: U| f.ensures((x,), y) ==> y == g(x)) ==> r@ == #[trigger] vals::<K, V>(self.map@).map_values(g),
    { unimplemented!() }
}

pub proof fn lemma_filter_all<T>(s: Seq<T>, p: spec_fn(T) -> bool)
    requires forall|i: int| 0 <= i < s.len() ==> p(s[i])
    ensures s.filter(p) == s
    decreases s.len()
{
    reveal(Seq::filter);
    if s.len() > 0 { lemma_filter_all(s.drop_last(), p); assert(s.drop_last().push(s.last()) =~= s); }
}

// <[T]>::iter / Vec::iter: the elements by reference, in order (call sites are path-resolved `.iter()` -> `.vx_iter()`, R4)
pub open spec fn refs<'a, T>(s: Seq<T>) -> Seq<&'a T> { Seq::new(s.len(), |i: int| &s[i]) }
pub trait VxSliceIter<T> { fn vx_iter<'a>(&'a self) -> VIter<&'a T>; }
impl<T> VxSliceIter<T> for Vec<T> {
    #[verifier::external_body] fn vx_iter<'a>(&'a self) -> (r: VIter<&'a T>) ensures r@ == refs::<T>(self@) { unimplemented!() }
}
