// ===== shim: finite-sequence model of std iterator adapters (A-ITER). ASSUMED contracts. =====
// An iterator is modelled by the sequence of items it will yield (`view`). Adapters are external functions whose contracts state
// the std-documented behaviour. Closure contracts are one-directional relations, so each adapter contract is stated for EVERY
// mathematical function that the closure's contract pins down: if the closure's post-condition determines its result as p(x)
// (resp. g(x)), the adapter's result is the textbook filter / map / filter_map / flat_map of the input sequence by p (resp. g).
// Not modelled: laziness / interleaving of side effects (the closures verified here are pure), size hints, infinite iterators.
pub struct VIter<T> { pub items: Ghost<Seq<T>> }

pub open spec fn seq_filter_map<T, U>(s: Seq<T>, g: spec_fn(T) -> Option<U>) -> Seq<U>
    decreases s.len()
{
    if s.len() == 0 { Seq::empty() } else {
        let rest = seq_filter_map(s.drop_last(), g);
        match g(s.last()) { Some(u) => rest.push(u), None => rest }
    }
}

// `idx` selects a strictly increasing list of positions of a sequence of length n
pub open spec fn idx_increasing(idx: Seq<int>, n: int) -> bool {
    &&& forall|k: int| 0 <= k < idx.len() ==> 0 <= #[trigger] idx[k] < n
    &&& forall|a: int, b: int| 0 <= a < b < idx.len() ==> idx[a] < idx[b]
}
// std::iter::empty()
pub fn vx_empty_iter<T>() -> (r: VIter<T>) ensures r@ == Seq::<T>::empty() { VIter { items: Ghost(Seq::empty()) } }

impl<T> VIter<T> {
    pub open spec fn view(&self) -> Seq<T> { self.items@ }

    // Iterator::filter
    #[verifier::external_body]
    pub fn filter<F: Fn(&T) -> bool>(self, f: F) -> (r: VIter<T>)
        requires forall|x: &T| f.requires((x,)),
        ensures forall|p: spec_fn(T) -> bool| (forall|x: T, b: bool| f.ensures((&x,), b) ==> b == p(x)) ==> r@ == #[trigger] self@.filter(p),
    { unimplemented!() }

    // Iterator::map
    #[verifier::external_body]
    pub fn map<U, F: Fn(T) -> U>(self, f: F) -> (r: VIter<U>)
        requires forall|x: T| f.requires((x,)),
        ensures forall|g: spec_fn(T) -> U| (forall|x: T, y: U| f.ensures((x,), y) ==> y == g(x)) ==> r@ == #[trigger] self@.map_values(g),
            // relational form (closures whose result is not a function of the argument, e.g. a send that may fail)
            r@.len() == self@.len(), forall|i: int| #![trigger self@[i]] #![trigger r@[i]] 0 <= i < r@.len() ==> f.ensures((self@[i],), r@[i]),
    { unimplemented!() }

    // IntoIterator::into_iter of an iterator is the iterator
    pub fn into_iter(self) -> (r: VIter<T>) ensures r@ == self@ { self }

    // Iterator::filter_map
    #[verifier::external_body]
    pub fn filter_map<U, F: Fn(T) -> Option<U>>(self, f: F) -> (r: VIter<U>)
        // (the closure is only ever called on the elements of the sequence)
        requires forall|i: int| 0 <= i < self@.len() ==> f.requires((#[trigger] self@[i],)),
        ensures forall|g: spec_fn(T) -> Option<U>| (forall|x: T, y: Option<U>| f.ensures((x,), y) ==> y == g(x)) ==> r@ == #[trigger] seq_filter_map(self@, g),
            // relational form (closures whose result is not a function of the argument): `idx` are the positions that were kept
            exists|idx: Seq<int>| #[trigger] idx_increasing(idx, self@.len() as int) && idx.len() == r@.len()
                && (forall|k: int| 0 <= k < idx.len() ==> f.ensures((self@[#[trigger] idx[k]],), Some(r@[k])))
                && (forall|j: int| 0 <= j < self@.len() && !idx.contains(j) ==> f.ensures((#[trigger] self@[j],), None)),
    { unimplemented!() }

    // Iterator::flat_map (the closure returns an iterator; the results are concatenated in order)
    #[verifier::external_body]
    pub fn flat_map<U, F: Fn(T) -> VIter<U>>(self, f: F) -> (r: VIter<U>)
        requires forall|x: T| f.requires((x,)),
        ensures forall|g: spec_fn(T) -> Seq<U>| (forall|x: T, y: VIter<U>| f.ensures((x,), y) ==> y@ == g(x)) ==> r@ == #[trigger] self@.map_values(g).flatten(),
    { unimplemented!() }

    // Iterator::chain
    #[verifier::external_body]
    pub fn chain(self, other: VIter<T>) -> (r: VIter<T>) ensures r@ == self@ + other@ { unimplemented!() }

    // Iterator::collect::<B>() for the collections below: `vx_built_from` is what FromIterator guarantees for that collection
    pub fn collect<B: VxFromIter<T>>(self) -> (r: B) ensures r.vx_built_from(self@) { B::vx_from_iter(self) }
}
pub trait VxFromIter<T>: Sized {
    spec fn vx_built_from(&self, items: Seq<T>) -> bool;
    fn vx_from_iter(it: VIter<T>) -> (r: Self) ensures r.vx_built_from(it@);
}
impl<T> VxFromIter<T> for Vec<T> {
    open spec fn vx_built_from(&self, items: Seq<T>) -> bool { self@ == items }
    #[verifier::external_body] fn vx_from_iter(it: VIter<T>) -> (r: Self) { unimplemented!() }
}
pub open spec fn derefs<'a, T>(s: Seq<&'a T>) -> Seq<T> { Seq::new(s.len(), |i: int| *s[i]) }

// Either::Left(it) / Either::Right(it) of two iterator types with the same Item: iterates exactly like `it`
pub fn vx_either<T>(it: VIter<T>) -> (r: VIter<T>) ensures r@ == it@ { it }

// the values of an IndexMap in map order, as references
pub open spec fn vals<'a, K, V>(m: Seq<(K, V)>) -> Seq<&'a V> { Seq::new(m.len(), |i: int| &m[i].1) }
impl<'a, K, V> Values<'a, K, V> {
    #[verifier::external_body]
    pub fn vx_iter(self) -> (r: VIter<&'a V>) ensures r@ == vals::<K, V>(self.map@) { unimplemented!() }
    #[verifier::external_body]
    pub fn filter<F: Fn(&&'a V) -> bool>(self, f: F) -> (r: VIter<&'a V>)
        requires forall|x: &&'a V| f.requires((x,)),
        ensures forall|p: spec_fn(&'a V) -> bool| (forall|x: &'a V, b: bool| f.ensures((&x,), b) ==> b == p(x)) ==> r@ == #[trigger] vals::<K, V>(self.map@).filter(p),
    { unimplemented!() }
    #[verifier::external_body]
    pub fn map<U, F: Fn(&'a V) -> U>(self, f: F) -> (r: VIter<U>)
        requires forall|x: &'a V| f.requires((x,)),
        ensures forall|g: spec_fn(&'a V) -> U| (forall|x: &'a V, y: U| f.ensures((x,), y) ==> y == g(x)) ==> r@ == #[trigger] vals::<K, V>(self.map@).map_values(g),
    { unimplemented!() }
}

pub proof fn lemma_filter_all<T>(s: Seq<T>, p: spec_fn(T) -> bool)
    requires forall|i: int| 0 <= i < s.len() ==> p(s[i])
    ensures s.filter(p) == s
    decreases s.len()
{
    reveal(Seq::filter);
    if s.len() > 0 { lemma_filter_all(s.drop_last(), p); assert(s.drop_last().push(s.last()) =~= s); }
}

// <[T]>::iter / Vec::iter: the elements by reference, in order (call sites are path-resolved `.iter()` -> `.vx_iter()`, R4)
pub open spec fn refs<'a, T>(s: Seq<T>) -> Seq<&'a T> { Seq::new(s.len(), |i: int| &s[i]) }
pub trait VxSliceIter<T> { fn vx_iter<'a>(&'a self) -> VIter<&'a T>; }
impl<T> VxSliceIter<T> for Vec<T> {
    #[verifier::external_body] fn vx_iter<'a>(&'a self) -> (r: VIter<&'a T>) ensures r@ == refs::<T>(self@) { unimplemented!() }
}
impl<T> VxSliceIter<T> for [T] {
    #[verifier::external_body] fn vx_iter<'a>(&'a self) -> (r: VIter<&'a T>) ensures r@ == refs::<T>(self@) { unimplemented!() }
}
// the first Some(..) of g over s, None if there is none
pub open spec fn seq_find_map<T, U>(s: Seq<T>, g: spec_fn(T) -> Option<U>) -> Option<U>
    decreases s.len()
{
    if s.len() == 0 { None } else { match g(s[0]) { Some(u) => Some(u), None => seq_find_map(s.subrange(1, s.len() as int), g) } }
}
impl<T> VIter<T> {
    // Iterator::find_map
    #[verifier::external_body]
    pub fn find_map<U, F: Fn(T) -> Option<U>>(self, f: F) -> (r: Option<U>)
        requires forall|x: T| f.requires((x,)),
        ensures forall|g: spec_fn(T) -> Option<U>| (forall|x: T, y: Option<U>| f.ensures((x,), y) ==> y == g(x)) ==> r == #[trigger] seq_find_map(self@, g),
    { unimplemented!() }
}
// IndexMap::iter: the entries in map order, by reference
pub open spec fn entry_refs<'a, K, V>(m: Seq<(K, V)>) -> Seq<(&'a K, &'a V)> { Seq::new(m.len(), |i: int| (&m[i].0, &m[i].1)) }
pub open spec fn keys_distinct<K, V>(s: Seq<(K, V)>) -> bool { forall|i: int, j: int| 0 <= i < j < s.len() ==> (#[trigger] s[i]).0 != (#[trigger] s[j]).0 }
impl<K, V> IndexMap<K, V> {
    #[verifier::external_body] pub fn iter<'a>(&'a self) -> (r: VIter<(&'a K, &'a V)>) ensures r@ == entry_refs::<K, V>(self@) { unimplemented!() }
}
// FromIterator for IndexMap: with pairwise distinct keys the map holds exactly the pairs, in iteration order
impl<K, V> VxFromIter<(K, V)> for IndexMap<K, V> {
    open spec fn vx_built_from(&self, items: Seq<(K, V)>) -> bool { keys_distinct(items) ==> self@ == items }
    #[verifier::external_body] fn vx_from_iter(it: VIter<(K, V)>) -> (r: Self) { unimplemented!() }
}
// FromIterator for a hash map: later pairs overwrite earlier ones with the same key
pub open spec fn seq_to_map<K, V>(s: Seq<(K, V)>) -> vstd::map::Map<K, V>
    decreases s.len()
{
    if s.len() == 0 { vstd::map::Map::empty() } else { seq_to_map(s.drop_last()).insert(s.last().0, s.last().1) }
}
impl<K, V> VxFromIter<(K, V)> for FnvHashMap<K, V> {
    open spec fn vx_built_from(&self, items: Seq<(K, V)>) -> bool { self@ == seq_to_map(items) }
    #[verifier::external_body] fn vx_from_iter(it: VIter<(K, V)>) -> (r: Self) { unimplemented!() }
}

// filter_map keeps relative order and every output comes from a source element: if the picked pair carries the source's key and the
// source keys are pairwise distinct, the output keys are pairwise distinct
pub proof fn lemma_filter_map_keys_distinct<T, K, V>(s: Seq<T>, g: spec_fn(T) -> Option<(K, V)>, key_of: spec_fn(T) -> K)
    requires
        forall|i: int| 0 <= i < s.len() && g(#[trigger] s[i]) is Some ==> g(s[i])->Some_0.0 == key_of(s[i]),
        forall|i: int, j: int| 0 <= i < j < s.len() ==> key_of(#[trigger] s[i]) != key_of(#[trigger] s[j]),
    ensures
        keys_distinct(seq_filter_map(s, g)),
        forall|k: int| 0 <= k < seq_filter_map(s, g).len() ==> exists|i: int| 0 <= i < s.len() && g(s[i]) == Some(#[trigger] seq_filter_map(s, g)[k]),
    decreases s.len()
{
    if s.len() > 0 {
        let p = s.drop_last();
        lemma_filter_map_keys_distinct(p, g, key_of);
        let rest = seq_filter_map(p, g);
        assert forall|k: int| 0 <= k < rest.len() implies exists|i: int| 0 <= i < s.len() && g(s[i]) == Some(#[trigger] rest[k]) by {
            let i = choose|i: int| 0 <= i < p.len() && g(p[i]) == Some(rest[k]);
            assert(p[i] == s[i]);
        }
        match g(s.last()) {
            Some(u) => {
                let out = rest.push(u);
                assert(seq_filter_map(s, g) == out);
                assert forall|a: int, b: int| 0 <= a < b < out.len() implies (#[trigger] out[a]).0 != (#[trigger] out[b]).0 by {
                    if b == rest.len() {
                        let i = choose|i: int| 0 <= i < p.len() && g(p[i]) == Some(rest[a]);
                        assert(p[i] == s[i]);
                        assert(key_of(s[i]) != key_of(s[s.len() - 1]));
                    }
                }
                assert forall|k: int| 0 <= k < out.len() implies exists|i: int| 0 <= i < s.len() && g(s[i]) == Some(#[trigger] out[k]) by {
                    if k == rest.len() { assert(g(s[s.len() - 1]) == Some(out[k])); } else { assert(out[k] == rest[k]); }
                }
            }
            None => { assert(seq_filter_map(s, g) == rest); }
        }
    }
}

// a map collected from pairs with pairwise distinct keys holds exactly those pairs
pub proof fn lemma_seq_to_map<K, V>(s: Seq<(K, V)>)
    requires keys_distinct(s),
    ensures
        forall|k: int| 0 <= k < s.len() ==> seq_to_map(s).contains_key((#[trigger] s[k]).0) && seq_to_map(s)[s[k].0] == s[k].1,
        forall|x: K| #[trigger] seq_to_map(s).contains_key(x) ==> exists|k: int| 0 <= k < s.len() && s[k].0 == x,
    decreases s.len()
{
    if s.len() > 0 {
        let p = s.drop_last();
        assert forall|i: int, j: int| 0 <= i < j < p.len() implies (#[trigger] p[i]).0 != (#[trigger] p[j]).0 by { assert(p[i] == s[i] && p[j] == s[j]); }
        lemma_seq_to_map(p);
        assert forall|k: int| 0 <= k < s.len() implies seq_to_map(s).contains_key((#[trigger] s[k]).0) && seq_to_map(s)[s[k].0] == s[k].1 by {
            if k < p.len() { assert(p[k] == s[k]); assert(s[k].0 != s[s.len() - 1].0); }
        }
        assert forall|x: K| #[trigger] seq_to_map(s).contains_key(x) implies exists|k: int| 0 <= k < s.len() && s[k].0 == x by {
            if x == s.last().0 { assert(s[s.len() - 1].0 == x); } else {
                assert(seq_to_map(p).contains_key(x));
                let k = choose|k: int| 0 <= k < p.len() && p[k].0 == x;
                assert(s[k] == p[k]);
            }
        }
    }
}

// the first element satisfying p, None if there is none
pub open spec fn seq_find<T>(s: Seq<T>, p: spec_fn(T) -> bool) -> Option<T>
    decreases s.len()
{
    if s.len() == 0 { None } else if p(s[0]) { Some(s[0]) } else { seq_find(s.subrange(1, s.len() as int), p) }
}
impl<T> VIter<T> {
    // Iterator::find
    #[verifier::external_body]
    pub fn find<F: Fn(&T) -> bool>(self, f: F) -> (r: Option<T>)
        requires forall|x: &T| f.requires((x,)),
        ensures forall|p: spec_fn(T) -> bool| (forall|x: T, b: bool| f.ensures((&x,), b) ==> b == p(x)) ==> r == #[trigger] seq_find(self@, p),
    { unimplemented!() }
}
// seq_find / seq_find_map in terms of positions
pub proof fn lemma_seq_find<T>(s: Seq<T>, p: spec_fn(T) -> bool)
    ensures
        seq_find(s, p) is None <==> (forall|i: int| 0 <= i < s.len() ==> !p(#[trigger] s[i])),
        seq_find(s, p) is Some ==> exists|i: int| 0 <= i < s.len() && p(s[i]) && seq_find(s, p) == Some(#[trigger] s[i]) && (forall|j: int| 0 <= j < i ==> !p(#[trigger] s[j])),
    decreases s.len()
{
    if s.len() > 0 {
        let t = s.subrange(1, s.len() as int);
        lemma_seq_find(t, p);
        if p(s[0]) {
            assert(seq_find(s, p) == Some(s[0]));
        } else {
            assert forall|i: int| 0 <= i < t.len() implies t[i] == s[i + 1] by {}
            if seq_find(t, p) is Some {
                let i = choose|i: int| 0 <= i < t.len() && p(t[i]) && seq_find(t, p) == Some(#[trigger] t[i]) && (forall|j: int| 0 <= j < i ==> !p(#[trigger] t[j]));
                assert(s[i + 1] == t[i]);
                assert forall|j: int| 0 <= j < i + 1 implies !p(#[trigger] s[j]) by { if j > 0 { assert(t[j - 1] == s[j]); } }
            } else {
                assert forall|i: int| 0 <= i < s.len() implies !p(#[trigger] s[i]) by { if i > 0 { assert(t[i - 1] == s[i]); } }
            }
        }
    }
}
pub proof fn lemma_seq_find_map<T, U>(s: Seq<T>, g: spec_fn(T) -> Option<U>)
    ensures
        seq_find_map(s, g) is None <==> (forall|i: int| 0 <= i < s.len() ==> g(#[trigger] s[i]) is None),
        seq_find_map(s, g) is Some ==> exists|i: int| 0 <= i < s.len() && seq_find_map(s, g) == g(#[trigger] s[i]) && (forall|j: int| 0 <= j < i ==> g(#[trigger] s[j]) is None),
    decreases s.len()
{
    if s.len() > 0 {
        let t = s.subrange(1, s.len() as int);
        lemma_seq_find_map(t, g);
        if g(s[0]) is Some {
            assert(seq_find_map(s, g) == g(s[0]));
        } else {
            assert forall|i: int| 0 <= i < t.len() implies t[i] == s[i + 1] by {}
            if seq_find_map(t, g) is Some {
                let i = choose|i: int| 0 <= i < t.len() && seq_find_map(t, g) == g(#[trigger] t[i]) && (forall|j: int| 0 <= j < i ==> g(#[trigger] t[j]) is None);
                assert(s[i + 1] == t[i]);
                assert forall|j: int| 0 <= j < i + 1 implies g(#[trigger] s[j]) is None by { if j > 0 { assert(t[j - 1] == s[j]); } }
            } else {
                assert forall|i: int| 0 <= i < s.len() implies g(#[trigger] s[i]) is None by { if i > 0 { assert(t[i - 1] == s[i]); } }
            }
        }
    }
}

impl<T> VIter<T> {
    // Iterator::take: the first n items (all of them if there are fewer)
    #[verifier::external_body]
    pub fn take(self, n: usize) -> (r: VIter<T>) ensures r@ == self@.take(if (n as int) <= self@.len() { n as int } else { self@.len() as int }) { unimplemented!() }
}
impl<'a, T: Copy> VIter<&'a T> {
    // Iterator::copied
    #[verifier::external_body]
    pub fn copied(self) -> (r: VIter<T>) ensures r@ == derefs::<T>(self@) { unimplemented!() }
}

// ----- further std adapters (so that realistic edits of a pipeline stay within reach of the verifier instead of UNDECIDED) -----
pub open spec fn seq_skip_while<T>(s: Seq<T>, p: spec_fn(T) -> bool) -> Seq<T>
    decreases s.len()
{
    if s.len() == 0 { s } else if p(s[0]) { seq_skip_while(s.subrange(1, s.len() as int), p) } else { s }
}
pub open spec fn seq_take_while<T>(s: Seq<T>, p: spec_fn(T) -> bool) -> Seq<T>
    decreases s.len()
{
    if s.len() == 0 { s } else if p(s[0]) { seq![s[0]] + seq_take_while(s.subrange(1, s.len() as int), p) } else { Seq::empty() }
}
pub open spec fn seq_any<T>(s: Seq<T>, p: spec_fn(T) -> bool) -> bool { exists|i: int| 0 <= i < s.len() && #[trigger] p(s[i]) }
pub open spec fn seq_all<T>(s: Seq<T>, p: spec_fn(T) -> bool) -> bool { forall|i: int| 0 <= i < s.len() ==> #[trigger] p(s[i]) }
impl<T> VIter<T> {
    // Iterator::skip_while: drops the longest prefix whose items all satisfy the predicate, keeps EVERYTHING after it
    #[verifier::external_body]
    pub fn skip_while<F: Fn(&T) -> bool>(self, f: F) -> (r: VIter<T>)
        requires forall|x: &T| f.requires((x,)),
        ensures forall|p: spec_fn(T) -> bool| (forall|x: T, b: bool| f.ensures((&x,), b) ==> b == p(x)) ==> r@ == #[trigger] seq_skip_while(self@, p),
    { unimplemented!() }
    // Iterator::take_while: the longest prefix whose items all satisfy the predicate
    #[verifier::external_body]
    pub fn take_while<F: Fn(&T) -> bool>(self, f: F) -> (r: VIter<T>)
        requires forall|x: &T| f.requires((x,)),
        ensures forall|p: spec_fn(T) -> bool| (forall|x: T, b: bool| f.ensures((&x,), b) ==> b == p(x)) ==> r@ == #[trigger] seq_take_while(self@, p),
    { unimplemented!() }
    // Iterator::skip: everything after the first n items
    #[verifier::external_body]
    pub fn skip(self, n: usize) -> (r: VIter<T>) ensures r@ == self@.skip(if (n as int) <= self@.len() { n as int } else { self@.len() as int }) { unimplemented!() }
    // DoubleEndedIterator::rev
    #[verifier::external_body]
    pub fn rev(self) -> (r: VIter<T>) ensures r@ == self@.reverse() { unimplemented!() }
    // Iterator::last / next / count
    #[verifier::external_body]
    pub fn last(self) -> (r: Option<T>) ensures self@.len() == 0 ==> r is None, self@.len() > 0 ==> r == Some(self@.last()) { unimplemented!() }
    #[verifier::external_body]
    pub fn count(self) -> (r: usize) ensures r == self@.len() { unimplemented!() }
    // Iterator::any / all
    #[verifier::external_body]
    pub fn any<F: Fn(T) -> bool>(self, f: F) -> (r: bool)
        requires forall|x: T| f.requires((x,)),
        ensures forall|p: spec_fn(T) -> bool| (forall|x: T, b: bool| f.ensures((x,), b) ==> b == p(x)) ==> r == #[trigger] seq_any(self@, p),
    { unimplemented!() }
    #[verifier::external_body]
    pub fn all<F: Fn(T) -> bool>(self, f: F) -> (r: bool)
        requires forall|x: T| f.requires((x,)),
        ensures forall|p: spec_fn(T) -> bool| (forall|x: T, b: bool| f.ensures((x,), b) ==> b == p(x)) ==> r == #[trigger] seq_all(self@, p),
    { unimplemented!() }
}
pub open spec fn seq_map_while<T, U>(s: Seq<T>, g: spec_fn(T) -> Option<U>) -> Seq<U>
    decreases s.len()
{
    if s.len() == 0 { Seq::empty() } else { match g(s[0]) { Some(u) => seq![u] + seq_map_while(s.subrange(1, s.len() as int), g), None => Seq::empty() } }
}
impl<T> VIter<T> {
    // Iterator::map_while: the mapped items up to (excluding) the first one mapped to None, then the iterator ENDS
    #[verifier::external_body]
    pub fn map_while<U, F: Fn(T) -> Option<U>>(self, f: F) -> (r: VIter<U>)
        requires forall|x: T| f.requires((x,)),
        ensures forall|g: spec_fn(T) -> Option<U>| (forall|x: T, y: Option<U>| f.ensures((x,), y) ==> y == g(x)) ==> r@ == #[trigger] seq_map_while(self@, g),
    { unimplemented!() }
}
