// ===== shim: FromIterator / Extend for indexmap::IndexMap in full, and Iterator::fold (A-IDX-COLLECT, A-FOLD). ASSUMED contracts. =====
// `IndexMap::from_iter` = `extend` = `insert` of every pair in iteration order. `IndexMap::insert` (documented): "If an equivalent key
// already exists in the map: the key remains and retains in its place in the order, its corresponding value is updated with value.
// If no equivalent key existed in the map: the new key-value pair is inserted, last in order."
// shims/iter.rs states only the consequence for pairwise distinct keys (`keys_distinct(items) ==> map == items`); this file states the
// whole behaviour, and lemma_im_collect_distinct PROVES that consequence from it (so the two contracts agree).
pub open spec fn im_insert<K, V>(s: Seq<(K, V)>, k: K, v: V) -> Seq<(K, V)> {
    if im_has(s, k) { s.update(im_pos(s, k), (k, v)) } else { s.push((k, v)) }
}
pub open spec fn im_collect<K, V>(items: Seq<(K, V)>) -> Seq<(K, V)>
    decreases items.len()
{
    if items.len() == 0 { Seq::empty() } else { im_insert(im_collect(items.drop_last()), items.last().0, items.last().1) }
}
impl<K, V> VIter<(K, V)> {
    // Iterator::collect::<IndexMap<K, V>>()
    #[verifier::external_body]
    pub fn vx_collect_indexmap(self) -> (r: IndexMap<K, V>) ensures r@ == im_collect(self@) { unimplemented!() }
}
// what holds of the collected table for ANY sequence of pairs: keys pairwise distinct, every entry is one of the given pairs, every given
// key has an entry, never more entries than pairs
pub proof fn lemma_im_collect<K, V>(items: Seq<(K, V)>)
    ensures
        im_collect(items).len() <= items.len(),
        forall|a: int, b: int| 0 <= a < b < im_collect(items).len() ==> (#[trigger] im_collect(items)[a]).0 != (#[trigger] im_collect(items)[b]).0,
        forall|k: int| 0 <= k < im_collect(items).len() ==> items.contains(#[trigger] im_collect(items)[k]),
        forall|i: int| 0 <= i < items.len() ==> im_has(im_collect(items), (#[trigger] items[i]).0),
    decreases items.len()
{
    if items.len() > 0 {
        let p = items.drop_last();
        let c = im_collect(p);
        let (k, v) = items.last();
        lemma_im_collect(p);
        let out = im_collect(items);
        assert(out == im_insert(c, k, v));
        assert(items[items.len() - 1] == (k, v));
        if im_has(c, k) {
            let pos = im_pos(c, k);
            assert(0 <= pos < c.len() && c[pos].0 == k);
            assert forall|j: int| 0 <= j < out.len() implies items.contains(#[trigger] out[j]) by {
                if j != pos { let w = choose|w: int| 0 <= w < p.len() && p[w] == c[j]; assert(items[w] == p[w]); }
            }
            assert forall|i: int| 0 <= i < items.len() implies im_has(out, (#[trigger] items[i]).0) by {
                if i < p.len() { assert(p[i] == items[i]); let w = choose|w: int| 0 <= w < c.len() && c[w].0 == p[i].0; assert(out[w].0 == c[w].0); } else { assert(out[pos].0 == k); }
            }
        } else {
            assert forall|j: int| 0 <= j < out.len() implies items.contains(#[trigger] out[j]) by {
                if j < c.len() { let w = choose|w: int| 0 <= w < p.len() && p[w] == c[j]; assert(items[w] == p[w]); }
            }
            assert forall|i: int| 0 <= i < items.len() implies im_has(out, (#[trigger] items[i]).0) by {
                if i < p.len() { assert(p[i] == items[i]); let w = choose|w: int| 0 <= w < c.len() && c[w].0 == p[i].0; assert(out[w].0 == c[w].0); } else { assert(out[c.len() as int].0 == k); }
            }
        }
    }
}
// with pairwise distinct keys the table holds exactly the pairs, in iteration order (the contract of shims/iter.rs, here a theorem)
pub proof fn lemma_im_collect_distinct<K, V>(items: Seq<(K, V)>)
    requires keys_distinct(items),
    ensures im_collect(items) == items,
    decreases items.len()
{
    if items.len() > 0 {
        let p = items.drop_last();
        assert forall|i: int, j: int| 0 <= i < j < p.len() implies (#[trigger] p[i]).0 != (#[trigger] p[j]).0 by { assert(p[i] == items[i] && p[j] == items[j]); }
        lemma_im_collect_distinct(p);
        let k = items.last().0;
        if im_has(p, k) {
            let w = choose|w: int| 0 <= w < p.len() && p[w].0 == k;
            assert(items[w].0 != items[items.len() - 1].0);
        }
        assert(im_collect(items) =~= items);
    } else {
        assert(im_collect(items) =~= items);
    }
}
// a key given twice leaves FEWER entries than pairs: every later position shifts (KNOWN_FINDINGS C11)
pub proof fn lemma_im_collect_shared_key<K, V>(items: Seq<(K, V)>)
    requires !keys_distinct(items),
    ensures im_collect(items).len() < items.len(),
    decreases items.len()
{
    let (i, j) = choose|i: int, j: int| 0 <= i < j < items.len() && (#[trigger] items[i]).0 == (#[trigger] items[j]).0;
    let p = items.drop_last();
    lemma_im_collect(p);
    if j == items.len() - 1 {
        assert(p[i] == items[i]);
        assert(im_has(im_collect(p), p[i].0));
    } else {
        assert(p[i] == items[i] && p[j] == items[j]);
        lemma_im_collect_shared_key(p);
    }
}

// Iterator::fold with a pure closure: the accumulator is threaded through the items in order. Closure contracts are relations, so (as for the
// adapters of shims/iter.rs) the contract is stated for EVERY relation `step` the closure's post-condition implies: there is a chain of
// accumulators `accs`, accs[0] the initial one, step(accs[k], item k, accs[k + 1]) for every k, and the last one is returned.
pub open spec fn fold_chain<T, B>(step: spec_fn(B, T, B) -> bool, init: B, xs: Seq<T>, accs: Seq<B>) -> bool {
    &&& accs.len() == xs.len() + 1 && accs[0] == init
    &&& forall|k: int| 0 <= k < xs.len() ==> step(accs[k], #[trigger] xs[k], accs[k + 1])
}
pub open spec fn fold_result<T, B>(step: spec_fn(B, T, B) -> bool, init: B, xs: Seq<T>, r: B) -> bool {
    exists|accs: Seq<B>| #[trigger] fold_chain(step, init, xs, accs) && r == accs.last()
}
impl<T> VIter<T> {
    #[verifier::external_body]
    pub fn fold<B, F: Fn(B, T) -> B>(self, init: B, f: F) -> (r: B)
        requires forall|b: B, x: T| f.requires((b, x)),
        ensures forall|step: spec_fn(B, T, B) -> bool| (forall|b: B, x: T, o: B| f.ensures((b, x), o) ==> step(b, x, o)) ==> #[trigger] fold_result(step, init, self@, r),
    { unimplemented!() }
}
