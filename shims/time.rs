// ===== shim: chrono::DateTime<Utc> as an integer instant (A-TIME) =====
pub struct Utc;

#[verifier::external_body]
#[verifier::reject_recursive_types(Tz)]
pub struct DateTime<Tz> { _p: core::marker::PhantomData<Tz> }

impl<Tz> View for DateTime<Tz> { type V = int; uninterp spec fn view(&self) -> int; }

impl<Tz> Clone for DateTime<Tz> {
    #[verifier::external_body]
    fn clone(&self) -> (r: Self) ensures r@ == self@ { unimplemented!() }
}
impl<Tz> Copy for DateTime<Tz> {}

// two instants with the same view are the same value (DateTime<Utc> is a plain timestamp)
pub broadcast axiom fn axiom_datetime_ext<Tz>(a: DateTime<Tz>, b: DateTime<Tz>)
    ensures #[trigger] a@ == #[trigger] b@ ==> a == b;

impl Utc {
    // Utc::now(): an arbitrary instant
    #[verifier::external_body]
    pub fn now() -> (r: DateTime<Utc>) { unimplemented!() }
}
