// ===== shim: chrono::DateTime<Utc> as an integer instant (A-TIME) =====
pub struct Utc;

#[verifier::external_body]
#[verifier::reject_recursive_types(Tz)]
pub struct DateTime<Tz> { _p: core::marker::PhantomData<Tz> }

impl<Tz> View for DateTime<Tz> { type V = int; uninterp spec fn view(&self) -> int; }

impl<Tz> Clone for DateTime<Tz> {
    #[verifier::external_body]
    fn clone(&self) -> (r: Self) ensures r@ == self@ { unimplemented!() }
}
impl<Tz> Copy for DateTime<Tz> {}

// two instants with the same view are the same value (DateTime<Utc> is a plain timestamp)
pub broadcast axiom fn axiom_datetime_ext<Tz>(a: DateTime<Tz>, b: DateTime<Tz>)
    ensures #[trigger] a@ == #[trigger] b@ ==> a == b;

impl Utc {
    // Utc::now(): an arbitrary instant
    #[verifier::external_body]
    pub fn now() -> (r: DateTime<Utc>) { unimplemented!() }
}
impl<Tz> PartialEq for DateTime<Tz> { #[verifier::external_body] fn eq(&self, o: &DateTime<Tz>) -> bool { unimplemented!() } }
impl<Tz> vstd::std_specs::cmp::PartialEqSpecImpl for DateTime<Tz> {
    open spec fn obeys_eq_spec() -> bool { true }
    open spec fn eq_spec(&self, o: &DateTime<Tz>) -> bool { self@ == o@ }
}
impl<Tz> PartialOrd for DateTime<Tz> { #[verifier::external_body] fn partial_cmp(&self, o: &DateTime<Tz>) -> Option<core::cmp::Ordering> { unimplemented!() } }
impl<Tz> vstd::std_specs::cmp::PartialOrdSpecImpl for DateTime<Tz> {
    open spec fn obeys_partial_cmp_spec() -> bool { true }
    open spec fn partial_cmp_spec(&self, o: &DateTime<Tz>) -> Option<core::cmp::Ordering> {
        if self@ < o@ { Some(core::cmp::Ordering::Less) } else if self@ == o@ { Some(core::cmp::Ordering::Equal) } else { Some(core::cmp::Ordering::Greater) }
    }
}
