// ===== shim: chrono::DateTime<Utc> as an integer instant (A-TIME) =====
pub struct Utc;

#[verifier::external_body]
#[verifier::reject_recursive_types(Tz)]
pub struct DateTime<Tz> { _p: core::marker::PhantomData<Tz> }

impl<Tz> View for DateTime<Tz> { type V = int; uninterp spec fn view(&self) -> int; }

impl<Tz> Clone for DateTime<Tz> {
    #[verifier::external_body]
    fn clone(&self) -> (r: Self) ensures r == *self { unimplemented!() }
}
impl<Tz> Copy for DateTime<Tz> {}

// two instants with the same view are the same value (DateTime<Utc> is a plain timestamp)
pub broadcast axiom fn axiom_datetime_ext<Tz>(a: DateTime<Tz>, b: DateTime<Tz>)
    ensures #[trigger] a@ == #[trigger] b@ ==> a == b;

impl Utc {
    // Utc::now(): an arbitrary instant
    #[verifier::external_body]
    pub fn now() -> (r: DateTime<Utc>) { unimplemented!() }
}
impl<Tz> PartialEq for DateTime<Tz> { #[verifier::external_body] fn eq(&self, o: &DateTime<Tz>) -> bool { unimplemented!() } }
impl<Tz> vstd::std_specs::cmp::PartialEqSpecImpl for DateTime<Tz> {
    open spec fn obeys_eq_spec() -> bool { true }
    open spec fn eq_spec(&self, o: &DateTime<Tz>) -> bool { self@ == o@ }
}
impl<Tz> PartialOrd for DateTime<Tz> { #[verifier::external_body] fn partial_cmp(&self, o: &DateTime<Tz>) -> Option<core::cmp::Ordering> { unimplemented!() } }
impl<Tz> vstd::std_specs::cmp::PartialOrdSpecImpl for DateTime<Tz> {
    open spec fn obeys_partial_cmp_spec() -> bool { true }
    open spec fn partial_cmp_spec(&self, o: &DateTime<Tz>) -> Option<core::cmp::Ordering> {
        if self@ < o@ { Some(core::cmp::Ordering::Less) } else if self@ == o@ { Some(core::cmp::Ordering::Equal) } else { Some(core::cmp::Ordering::Greater) }
    }
}

// ===== chrono::TimeDelta as an integer number of milliseconds (A-TIME) =====
#[verifier::external_body]
pub struct TimeDelta { _p: () }
impl View for TimeDelta { type V = int; uninterp spec fn view(&self) -> int; }
impl Clone for TimeDelta { #[verifier::external_body] fn clone(&self) -> (r: Self) ensures r == *self { unimplemented!() } }
impl Copy for TimeDelta {}
pub uninterp spec fn ms_per_instant_unit() -> int;   // DateTime views are in an arbitrary fixed unit; durations are differences in that unit
impl<Tz> DateTime<Tz> {
    #[verifier::external_body]
    pub fn signed_duration_since(self, rhs: DateTime<Tz>) -> (r: TimeDelta) ensures r@ == self@ - rhs@ { unimplemented!() }
}
impl TimeDelta {
    // i64 range of the millisecond count is a stated precondition (chrono's TimeDelta range is smaller than i64 ms)
    #[verifier::external_body]
    pub fn num_milliseconds(&self) -> (r: i64) requires i64::MIN <= self@ <= i64::MAX ensures r == self@ { unimplemented!() }
    #[verifier::external_body]
    pub fn seconds(s: i64) -> (r: TimeDelta) ensures r@ == s * 1000 { unimplemented!() }
    #[verifier::external_body]
    pub fn max(self, o: TimeDelta) -> (r: TimeDelta) ensures r@ == (if self@ >= o@ { self@ } else { o@ }) { unimplemented!() }
}
