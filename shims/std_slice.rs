// ===== assumed contracts for std slice / Ordering helpers (A-STD) =====
pub assume_specification[ core::cmp::Ordering::reverse ](this: core::cmp::Ordering) -> (r: core::cmp::Ordering)
    ensures r == ord_rev(this);

// a slice is partitioned by the probe f: Less* Equal* Greater*   (stated over what f CAN return: closure specs are one-directional)
pub open spec fn part_at<'a, T: 'a, F: FnMut(&'a T) -> core::cmp::Ordering>(s: Seq<T>, f: F, k1: int, k2: int) -> bool {
    0 <= k1 <= k2 <= s.len()
        && (forall|j: int, o: core::cmp::Ordering| 0 <= j < k1 && f.ensures((&#[trigger] s[j],), o) ==> o == core::cmp::Ordering::Less)
        && (forall|j: int, o: core::cmp::Ordering| k1 <= j < k2 && f.ensures((&#[trigger] s[j],), o) ==> o == core::cmp::Ordering::Equal)
        && (forall|j: int, o: core::cmp::Ordering| k2 <= j < s.len() && f.ensures((&#[trigger] s[j],), o) ==> o == core::cmp::Ordering::Greater)
}
pub open spec fn partitioned<'a, T: 'a, F: FnMut(&'a T) -> core::cmp::Ordering>(s: Seq<T>, f: F) -> bool {
    exists|k1: int, k2: int| #[trigger] part_at(s, f, k1, k2)
}
// A-STD-TOTAL: a comparison probe whose precondition holds returns SOME ordering satisfying its post-condition (loop-free closures terminate)
pub axiom fn axiom_probe_total<'a, T: 'a, F: FnMut(&'a T) -> core::cmp::Ordering>(f: F, x: &'a T)
    requires f.requires((x,))
    ensures exists|o: core::cmp::Ordering| #[trigger] f.ensures((x,), o);
pub assume_specification<'a, T, F: FnMut(&'a T) -> core::cmp::Ordering>[ <[T]>::binary_search_by ](this: &'a [T], f: F) -> (r: Result<usize, usize>)
    requires forall|x: &T| f.requires((x,)), partitioned(this@, f),
    ensures
        r is Ok ==> r->Ok_0 < this@.len() && f.ensures((&this@[r->Ok_0 as int],), core::cmp::Ordering::Equal),
        r is Err ==> r->Err_0 <= this@.len()
            && (forall|j: int, o: core::cmp::Ordering| 0 <= j < r->Err_0 && f.ensures((&#[trigger] this@[j],), o) ==> o == core::cmp::Ordering::Less)
            && (forall|j: int, o: core::cmp::Ordering| r->Err_0 <= j < this@.len() && f.ensures((&#[trigger] this@[j],), o) ==> o == core::cmp::Ordering::Greater);
