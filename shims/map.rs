// ===== shim: fnv::FnvHashMap / std HashMap with the entry API (A-MAP: key hashing/equality is value equality) =====
#[verifier::external_body]
#[verifier::reject_recursive_types(K)]
#[verifier::accept_recursive_types(V)]
pub struct FnvHashMap<K, V> { _p: core::marker::PhantomData<(K, V)> }
impl<K, V> View for FnvHashMap<K, V> { type V = vstd::map::Map<K, V>; uninterp spec fn view(&self) -> vstd::map::Map<K, V>; }
// two maps with the same contents are the same map (no observable iteration order in the functions under contract)
pub broadcast axiom fn axiom_map_ext<K, V>(a: FnvHashMap<K, V>, b: FnvHashMap<K, V>)
    ensures #[trigger] a@ == #[trigger] b@ ==> a == b;

#[verifier::reject_recursive_types(K)]
pub enum Entry<'a, K, V> { Occupied(OccupiedEntry<'a, K, V>), Vacant(VacantEntry<'a, K, V>) }
#[verifier::reject_recursive_types(K)]
pub struct OccupiedEntry<'a, K, V> { pub map: &'a mut FnvHashMap<K, V>, pub key: K }
#[verifier::reject_recursive_types(K)]
pub struct VacantEntry<'a, K, V> { pub map: &'a mut FnvHashMap<K, V>, pub key: K }

impl<K, V> FnvHashMap<K, V> {
    #[verifier::external_body]
    pub fn entry<'a>(&'a mut self, key: K) -> (r: Entry<'a, K, V>)
        ensures
            old(self)@.contains_key(key) ==> (r matches Entry::Occupied(e) && e.key == key && *e.map == *old(self) && *final(e.map) == *final(self)),
            !old(self)@.contains_key(key) ==> (r matches Entry::Vacant(e) && e.key == key && *e.map == *old(self) && *final(e.map) == *final(self)),
    { unimplemented!() }

    #[verifier::external_body]
    pub fn get<'a>(&'a self, key: &K) -> (r: Option<&'a V>)
        ensures
            !self@.contains_key(*key) ==> r is None,
            self@.contains_key(*key) ==> r is Some && *r->Some_0 == self@[*key],
    { unimplemented!() }

    #[verifier::external_body]
    pub fn get_mut<'a>(&'a mut self, key: &K) -> (r: Option<&'a mut V>)
        ensures
            !old(self)@.contains_key(*key) ==> r is None && *final(self) == *old(self),
            old(self)@.contains_key(*key) ==> r is Some && *r->Some_0 == old(self)@[*key]
                && final(self)@ == old(self)@.insert(*key, *final(r->Some_0)),
    { unimplemented!() }

    #[verifier::external_body]
    pub fn insert(&mut self, key: K, value: V) -> (r: Option<V>)
        ensures final(self)@ == old(self)@.insert(key, value),
            r == (if old(self)@.contains_key(key) { Some(old(self)@[key]) } else { None::<V> }),
    { unimplemented!() }

    #[verifier::external_body]
    pub fn remove(&mut self, key: &K) -> (r: Option<V>)
        ensures final(self)@ == old(self)@.remove(*key),
            r == (if old(self)@.contains_key(*key) { Some(old(self)@[*key]) } else { None::<V> }),
    { unimplemented!() }

    #[verifier::external_body]
    pub fn contains_key(&self, key: &K) -> (r: bool) ensures r == self@.contains_key(*key) { unimplemented!() }
}
impl<'a, K, V> OccupiedEntry<'a, K, V> {
    #[verifier::external_body]
    pub fn get(&self) -> (r: &V)
        requires self.map@.contains_key(self.key)
        ensures *r == old(self.map)@[self.key]
    { unimplemented!() }

    #[verifier::external_body]
    pub fn get_mut(&mut self) -> (r: &mut V)
        requires old(self).map@.contains_key(old(self).key)
        ensures *r == old(self).map@[old(self).key],
            final(self).key == old(self).key,
            final(self).map@ == old(self).map@.insert(old(self).key, *final(r)),
            *final(final(self).map) == *final(old(self).map),
    { unimplemented!() }

    #[verifier::external_body]
    pub fn remove(self) -> (r: V)
        requires self.map@.contains_key(self.key)
        ensures r == old(self.map)@[self.key], final(self.map)@ == old(self.map)@.remove(self.key),
    { unimplemented!() }
}
impl<'a, K, V> VacantEntry<'a, K, V> {
    // the returned reference is never written through in the functions under contract
    #[verifier::external_body]
    pub fn insert(self, value: V) -> (r: &'a V)
        ensures final(self.map)@ == old(self.map)@.insert(self.key, value),
    { unimplemented!() }
}
