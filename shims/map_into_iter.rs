// ===== shim: consuming iteration over a hash map on the finite-sequence iterator model (A-MAP-ITER). ASSUMED contract. =====
// needs shims/map.rs (FnvHashMap) and shims/iter.rs (VIter, keys_distinct).
// `IntoIterator for HashMap<K, V>` (what `for (k, v) in map` and `map.into_iter()` use) yields every entry of the map exactly once, in an
// ARBITRARY order: the yielded pairs have pairwise distinct keys, each is an entry of the map, and every key of the map is yielded.
// Nothing is said about the order (functions verified against this contract are verified for every order).
pub trait VxMapIntoIter<K, V> { fn vx_into_iter(self) -> VIter<(K, V)>; }
impl<K, V> VxMapIntoIter<K, V> for FnvHashMap<K, V> {
    #[verifier::external_body]
    fn vx_into_iter(self) -> (r: VIter<(K, V)>)
        ensures
            keys_distinct(r@),
            forall|j: int| 0 <= j < r@.len() ==> self@.contains_key((#[trigger] r@[j]).0) && self@[r@[j].0] == r@[j].1,
            forall|k: K| #[trigger] self@.contains_key(k) ==> exists|j: int| 0 <= j < r@.len() && (#[trigger] r@[j]).0 == k,
    { unimplemented!() }
}
