// ===== shim: indexmap::IndexMap as a sequence of (key, value) pairs with distinct keys (A-IDX) =====
#[verifier::external_body]
#[verifier::reject_recursive_types(K)]
#[verifier::accept_recursive_types(V)]
pub struct IndexMap<K, V> { _p: core::marker::PhantomData<(K, V)> }
impl<K, V> View for IndexMap<K, V> { type V = Seq<(K, V)>; uninterp spec fn view(&self) -> Seq<(K, V)>; }
pub broadcast axiom fn axiom_indexmap_distinct<K, V>(m: IndexMap<K, V>, i: int, j: int)
    requires 0 <= i < m@.len(), 0 <= j < m@.len(), #[trigger] m@[i].0 == #[trigger] m@[j].0
    ensures i == j;
pub broadcast axiom fn axiom_indexmap_ext<K, V>(a: IndexMap<K, V>, b: IndexMap<K, V>)
    ensures #[trigger] a@ == #[trigger] b@ ==> a == b;
pub open spec fn im_pos<K, V>(s: Seq<(K, V)>, k: K) -> int { choose|i: int| 0 <= i < s.len() && s[i].0 == k }
pub open spec fn im_has<K, V>(s: Seq<(K, V)>, k: K) -> bool { exists|i: int| 0 <= i < s.len() && s[i].0 == k }

#[verifier::reject_recursive_types(K)]
pub struct Values<'a, K, V> { pub map: &'a IndexMap<K, V> }

impl<K, V> IndexMap<K, V> {
    #[verifier::external_body]
    pub fn len(&self) -> (r: usize) ensures r == self@.len() { unimplemented!() }

    #[verifier::external_body]
    pub fn get_index<'a>(&'a self, index: usize) -> (r: Option<(&'a K, &'a V)>)
        ensures
            index >= self@.len() ==> r is None,
            index < self@.len() ==> r is Some && *r->Some_0.0 == self@[index as int].0 && *r->Some_0.1 == self@[index as int].1,
    { unimplemented!() }

    #[verifier::external_body]
    pub fn get_index_mut<'a>(&'a mut self, index: usize) -> (r: Option<(&'a K, &'a mut V)>)
        ensures
            index >= old(self)@.len() ==> r is None && *final(self) == *old(self),
            index < old(self)@.len() ==> r is Some && *r->Some_0.0 == old(self)@[index as int].0 && *r->Some_0.1 == old(self)@[index as int].1
                && final(self)@ == old(self)@.update(index as int, (old(self)@[index as int].0, *final(r->Some_0.1))),
    { unimplemented!() }

    #[verifier::external_body]
    pub fn get<'a>(&'a self, key: &K) -> (r: Option<&'a V>)
        ensures
            !im_has(self@, *key) ==> r is None,
            im_has(self@, *key) ==> r is Some && *r->Some_0 == self@[im_pos(self@, *key)].1,
    { unimplemented!() }

    #[verifier::external_body]
    pub fn get_mut<'a>(&'a mut self, key: &K) -> (r: Option<&'a mut V>)
        ensures
            !im_has(old(self)@, *key) ==> r is None && *final(self) == *old(self),
            im_has(old(self)@, *key) ==> r is Some && *r->Some_0 == old(self)@[im_pos(old(self)@, *key)].1
                && final(self)@ == old(self)@.update(im_pos(old(self)@, *key), (*key, *final(r->Some_0))),
    { unimplemented!() }

    // R9: `values()` returns the shim iterator below (only `.all(f)` is ever applied to it in the functions under contract)
    #[verifier::external_body]
    pub fn values<'a>(&'a self) -> (r: Values<'a, K, V>) ensures *r.map == *self { unimplemented!() }
}

impl<'a, K, V> Values<'a, K, V> {
    // Iterator::all over the values, in sequence order
    #[verifier::external_body]
    pub fn all<F: Fn(&V) -> bool>(self, f: F) -> (r: bool)
        requires forall|i: int| 0 <= i < self.map@.len() ==> f.requires((&(#[trigger] self.map@[i]).1,)),
        ensures
            r ==> forall|i: int| 0 <= i < self.map@.len() ==> f.ensures((&(#[trigger] self.map@[i]).1,), true),
            !r ==> exists|i: int| 0 <= i < self.map@.len() && f.ensures((&(#[trigger] self.map@[i]).1,), false),
    { unimplemented!() }
}

impl<K, V> IndexMap<K, V> {
    // IndexMap::sort_keys: the same entries re-ordered by key (which order that is depends on K's Ord, not modelled: only 'a permutation')
    #[verifier::external_body]
    pub fn sort_keys(&mut self) ensures final(self)@.to_multiset() == old(self)@.to_multiset(), final(self)@.len() == old(self)@.len() { unimplemented!() }
}
