// ===== assumed contracts for std Option helpers taking closures (A-STD) =====
pub assume_specification<T, P: FnOnce(&T) -> bool>[ Option::<T>::filter ](this: Option<T>, predicate: P) -> (r: Option<T>)
    requires this is Some ==> predicate.requires((&this->Some_0,)),
    ensures
        this is None ==> r is None,
        r is Some ==> r == this && predicate.ensures((&this->Some_0,), true),
        (r is None && this is Some) ==> predicate.ensures((&this->Some_0,), false);

pub assume_specification<T, F: FnOnce(T) -> bool>[ Option::<T>::is_none_or ](this: Option<T>, f: F) -> (r: bool)
    requires this is Some ==> f.requires((this->Some_0,)),
    ensures
        this is None ==> r,
        this is Some ==> f.ensures((this->Some_0,), r);

pub assume_specification<T>[ bool::then_some ](this: bool, t: T) -> (r: Option<T>)
    ensures r == (if this { Some(t) } else { None::<T> });

pub assume_specification<T>[ Option::<T>::or ](this: Option<T>, optb: Option<T>) -> (r: Option<T>)
    ensures r == (if this is Some { this } else { optb });

pub assume_specification<T>[ Option::<T>::replace ](this: &mut Option<T>, value: T) -> (r: Option<T>)
    ensures r == *old(this), *final(this) == Some(value);

pub assume_specification<T: Copy>[ Option::<&T>::copied ](this: Option<&T>) -> (r: Option<T>)
    ensures this is None ==> r is None, this is Some ==> r == Some(*this->Some_0);

pub assume_specification<T, F: FnOnce(T) -> bool>[ Option::<T>::is_some_and ](this: Option<T>, f: F) -> (r: bool)
    requires this is Some ==> f.requires((this->Some_0,)),
    ensures
        this is None ==> !r,
        this is Some ==> f.ensures((this->Some_0,), r);
