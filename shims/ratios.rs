// ===== abstract callees: risk ratios (SharpeRatio, SortinoRatio, CalmarRatio, RateOfReturn) - opaque values, no property mentions them =====
pub trait TimeInterval: Copy {}
impl TimeInterval for TimeDelta {}
#[verifier::external_body] #[verifier::reject_recursive_types(I)] pub struct SharpeRatio<I> { _p: core::marker::PhantomData<I> }
#[verifier::external_body] #[verifier::reject_recursive_types(I)] pub struct SortinoRatio<I> { _p: core::marker::PhantomData<I> }
#[verifier::external_body] #[verifier::reject_recursive_types(I)] pub struct CalmarRatio<I> { _p: core::marker::PhantomData<I> }
#[verifier::external_body] #[verifier::reject_recursive_types(I)] pub struct RateOfReturn<I> { _p: core::marker::PhantomData<I> }
impl<I: TimeInterval> SharpeRatio<I> {
    #[verifier::external_body] pub fn calculate(risk_free_return: Decimal, mean_return: Decimal, std_dev_returns: Decimal, returns_period: I) -> Self { unimplemented!() }
    #[verifier::external_body] pub fn scale<T: TimeInterval>(self, target: T) -> SharpeRatio<T> { unimplemented!() }
}
impl<I: TimeInterval> SortinoRatio<I> {
    #[verifier::external_body] pub fn calculate(risk_free_return: Decimal, mean_return: Decimal, std_dev_loss_returns: Decimal, returns_period: I) -> Self { unimplemented!() }
    #[verifier::external_body] pub fn scale<T: TimeInterval>(self, target: T) -> SortinoRatio<T> { unimplemented!() }
}
impl<I: TimeInterval> CalmarRatio<I> {
    #[verifier::external_body] pub fn calculate(risk_free_return: Decimal, mean_return: Decimal, max_drawdown: Decimal, returns_period: I) -> Self { unimplemented!() }
    #[verifier::external_body] pub fn scale<T: TimeInterval>(self, target: T) -> CalmarRatio<T> { unimplemented!() }
}
impl<I: TimeInterval> RateOfReturn<I> {
    #[verifier::external_body] pub fn calculate(mean_return: Decimal, returns_period: I) -> Self { unimplemented!() }
    #[verifier::external_body] pub fn scale<T: TimeInterval>(self, target: T) -> RateOfReturn<T> { unimplemented!() }
}
