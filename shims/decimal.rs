// ===== shim: rust_decimal::Decimal as an exact real (A-REAL). Overflow panics and 28-digit rounding are not modelled. =====
#[verifier::external_body]
pub struct Decimal { _p: () }
impl View for Decimal { type V = real; uninterp spec fn view(&self) -> real; }
pub uninterp spec fn dec(r: real) -> Decimal;
pub broadcast axiom fn axiom_dec_view(r: real) ensures #[trigger] dec(r)@ == r;
pub broadcast axiom fn axiom_view_dec(d: Decimal) ensures #[trigger] dec(d@) == d;
pub broadcast group group_decimal { axiom_dec_view, axiom_view_dec, lemma_rmul_commutes }
// the product computed by `a * b` on Decimals: the same real number whichever way round the operands are written (nonlinear terms are
// opaque to the default solver mode, so `a * b` and `b * a` would otherwise be unrelated terms and swapping operands would break proofs)
pub open spec fn rmul(a: real, b: real) -> real { a * b }
pub broadcast proof fn lemma_rmul_commutes(a: real, b: real) by(nonlinear_arith) ensures #[trigger] rmul(a, b) == b * a {}
impl Clone for Decimal { #[verifier::external_body] fn clone(&self) -> (r: Self) ensures r == *self { unimplemented!() } }
impl Copy for Decimal {}

impl core::ops::Add for Decimal { type Output = Decimal; #[verifier::external_body] fn add(self, rhs: Decimal) -> Decimal { unimplemented!() } }
impl vstd::std_specs::ops::AddSpecImpl<Decimal> for Decimal {
    open spec fn obeys_add_spec() -> bool { true }
    open spec fn add_req(self, rhs: Decimal) -> bool { true }
    open spec fn add_spec(self, rhs: Decimal) -> Decimal { dec(self@ + rhs@) }
}
impl core::ops::Sub for Decimal { type Output = Decimal; #[verifier::external_body] fn sub(self, rhs: Decimal) -> Decimal { unimplemented!() } }
impl vstd::std_specs::ops::SubSpecImpl<Decimal> for Decimal {
    open spec fn obeys_sub_spec() -> bool { true }
    open spec fn sub_req(self, rhs: Decimal) -> bool { true }
    open spec fn sub_spec(self, rhs: Decimal) -> Decimal { dec(self@ - rhs@) }
}
impl core::ops::Mul for Decimal { type Output = Decimal; #[verifier::external_body] fn mul(self, rhs: Decimal) -> Decimal { unimplemented!() } }
impl vstd::std_specs::ops::MulSpecImpl<Decimal> for Decimal {
    open spec fn obeys_mul_spec() -> bool { true }
    open spec fn mul_req(self, rhs: Decimal) -> bool { true }
    open spec fn mul_spec(self, rhs: Decimal) -> Decimal { dec(rmul(self@, rhs@)) }
}
// rust_decimal panics on division by zero: the divisor being non-zero is a proof obligation at every `/`
impl core::ops::Div for Decimal { type Output = Decimal; #[verifier::external_body] fn div(self, rhs: Decimal) -> Decimal { unimplemented!() } }
impl vstd::std_specs::ops::DivSpecImpl<Decimal> for Decimal {
    open spec fn obeys_div_spec() -> bool { true }
    open spec fn div_req(self, rhs: Decimal) -> bool { rhs@ != 0real }
    open spec fn div_spec(self, rhs: Decimal) -> Decimal { dec(self@ / rhs@) }
}
impl core::ops::Neg for Decimal { type Output = Decimal; #[verifier::external_body] fn neg(self) -> Decimal { unimplemented!() } }
impl vstd::std_specs::ops::NegSpecImpl for Decimal {
    open spec fn obeys_neg_spec() -> bool { true }
    open spec fn neg_req(self) -> bool { true }
    open spec fn neg_spec(self) -> Decimal { dec(-self@) }
}
impl core::ops::AddAssign for Decimal { #[verifier::external_body] fn add_assign(&mut self, rhs: Decimal) { unimplemented!() } }
impl vstd::std_specs::ops::AddAssignSpecImpl<Decimal> for Decimal {
    open spec fn obeys_add_assign_spec() -> bool { true }
    open spec fn add_assign_req(&self, rhs: Decimal) -> bool { true }
    open spec fn add_assign_spec(&self, rhs: Decimal) -> &Decimal { &dec(self@ + rhs@) }
}
impl core::ops::SubAssign for Decimal { #[verifier::external_body] fn sub_assign(&mut self, rhs: Decimal) { unimplemented!() } }
impl vstd::std_specs::ops::SubAssignSpecImpl<Decimal> for Decimal {
    open spec fn obeys_sub_assign_spec() -> bool { true }
    open spec fn sub_assign_req(&self, rhs: Decimal) -> bool { true }
    open spec fn sub_assign_spec(&self, rhs: Decimal) -> &Decimal { &dec(self@ - rhs@) }
}
impl PartialEq for Decimal { #[verifier::external_body] fn eq(&self, o: &Decimal) -> bool { unimplemented!() } }
impl vstd::std_specs::cmp::PartialEqSpecImpl for Decimal {
    open spec fn obeys_eq_spec() -> bool { true }
    open spec fn eq_spec(&self, o: &Decimal) -> bool { self@ == o@ }
}
impl PartialOrd for Decimal { #[verifier::external_body] fn partial_cmp(&self, o: &Decimal) -> Option<core::cmp::Ordering> { unimplemented!() } }
impl vstd::std_specs::cmp::PartialOrdSpecImpl for Decimal {
    open spec fn obeys_partial_cmp_spec() -> bool { true }
    open spec fn partial_cmp_spec(&self, o: &Decimal) -> Option<core::cmp::Ordering> {
        if self@ < o@ { Some(core::cmp::Ordering::Less) } else if self@ == o@ { Some(core::cmp::Ordering::Equal) } else { Some(core::cmp::Ordering::Greater) }
    }
}
pub open spec fn rabs(x: real) -> real { if x < 0real { -x } else { x } }
impl Decimal {
    #[verifier::external_body]
    pub fn is_zero(&self) -> (r: bool) ensures r == (self@ == 0real) { unimplemented!() }
    #[verifier::external_body]
    pub fn abs(&self) -> (r: Decimal) ensures r@ == rabs(self@) { unimplemented!() }
    // negative zero is ignored: is_sign_negative(x) <=> x < 0 (stated in A-REAL)
    #[verifier::external_body]
    pub fn is_sign_negative(&self) -> (r: bool) ensures r == (self@ < 0real) { unimplemented!() }
    #[verifier::external_body]
    pub fn is_sign_positive(&self) -> (r: bool) ensures r == (self@ >= 0real) { unimplemented!() }
    #[verifier::external_body]
    pub fn checked_div(self, rhs: Decimal) -> (r: Option<Decimal>)
        ensures rhs@ == 0real ==> r is None, rhs@ != 0real ==> r == Some(dec(self@ / rhs@)) { unimplemented!() }
    #[verifier::external_body]
    pub fn max(self, o: Decimal) -> (r: Decimal) ensures r@ == (if self@ >= o@ { self@ } else { o@ }), r == self || r == o { unimplemented!() }
    #[verifier::external_body]
    pub fn min(self, o: Decimal) -> (r: Decimal) ensures r@ == (if self@ <= o@ { self@ } else { o@ }), r == self || r == o { unimplemented!() }
}
impl Decimal {
    #[verifier::external_body] pub exec const ZERO: Decimal ensures Self::ZERO@ == 0real { Decimal { _p: () } }
    #[verifier::external_body] pub exec const ONE: Decimal ensures Self::ONE@ == 1real { Decimal { _p: () } }
    #[verifier::external_body] pub exec const TWO: Decimal ensures Self::TWO@ == 2real { Decimal { _p: () } }
    // Decimal::MAX / Decimal::MIN: uninterpreted extreme constants with MIN < 0 < MAX
    #[verifier::external_body] pub exec const MAX: Decimal ensures Self::MAX@ == dec_max(), { Decimal { _p: () } }
    #[verifier::external_body] pub exec const MIN: Decimal ensures Self::MIN@ == -dec_max(), { Decimal { _p: () } }
    // MathematicalOps::sqrt: Some(r) with r*r == x, r >= 0 for x >= 0; None for negative x
    #[verifier::external_body]
    pub fn sqrt(&self) -> (r: Option<Decimal>)
        ensures self@ < 0real ==> r is None,
                self@ >= 0real ==> r is Some && r->Some_0@ >= 0real && r->Some_0@ * r->Some_0@ == self@,
    { unimplemented!() }
}
pub uninterp spec fn dec_max() -> real;
pub broadcast axiom fn axiom_dec_max_pos() ensures #[trigger] dec_max() > 0real;
impl Decimal {
    // From<u64> for Decimal (exact)
    #[verifier::external_body]
    pub fn from(v: u64) -> (r: Decimal) ensures r@ == v as real { unimplemented!() }
}

pub proof fn lemma_div_mul(a: real, b: real) by(nonlinear_arith) requires b != 0real ensures (a / b) * b == a {}
pub open spec fn real_cmp(a: real, b: real) -> core::cmp::Ordering {
    if a < b { core::cmp::Ordering::Less } else if a == b { core::cmp::Ordering::Equal } else { core::cmp::Ordering::Greater }
}
pub open spec fn ord_rev(o: core::cmp::Ordering) -> core::cmp::Ordering {
    match o { core::cmp::Ordering::Less => core::cmp::Ordering::Greater, core::cmp::Ordering::Equal => core::cmp::Ordering::Equal, core::cmp::Ordering::Greater => core::cmp::Ordering::Less }
}
impl Decimal {
    // Ord::cmp (total order of the reals)
    #[verifier::external_body]
    pub fn cmp(&self, o: &Decimal) -> (r: core::cmp::Ordering) ensures r == real_cmp(self@, o@) { unimplemented!() }
}

// rust_decimal: Decimal::default() is zero
impl Default for Decimal { #[verifier::external_body] fn default() -> (r: Self) ensures r@ == 0real { unimplemented!() } }

// core::mem::take: returns the value, leaves T::default() behind (for Decimal: zero)
pub uninterp spec fn vx_default_of<T>() -> T;
pub assume_specification<T: Default>[ core::mem::take::<T> ](dest: &mut T) -> (r: T)
    ensures r == *old(dest), *final(dest) == vx_default_of::<T>();
pub broadcast axiom fn axiom_decimal_default() ensures (#[trigger] vx_default_of::<Decimal>())@ == 0real;
