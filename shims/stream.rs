// ===== shim: finite-trace model of futures / tokio_stream combinators (A-STREAM). ASSUMED contracts. =====
// A stream is modelled by the finite sequence of items it yields before it ends (`view`). Every combinator below is an
// external_body function whose contract states the documented behaviour of the futures-util / tokio-stream combinator of the
// same name on such traces. Closure contracts are one-directional (`f.ensures(args, result)` is a relation that holds of
// every call), so the contracts relate outputs to inputs through `f.ensures` rather than through a function of the input.
// What is NOT modelled: pending/wake-up timing, infinite streams (repeat_with), cancellation, pinning.
pub struct VStream<T> { pub items: Ghost<Seq<T>> }

impl<T> VStream<T> {
    pub open spec fn view(&self) -> Seq<T> { self.items@ }
}

// std::future::ready / futures::future::ready
pub struct Ready<T> { pub v: T }
pub mod future { use super::*;
    pub fn ready<T>(v: T) -> (r: Ready<T>) ensures r.v == v { Ready { v } }
}

// `idx` selects a strictly increasing list of positions of a sequence of length n
pub open spec fn increasing_in(idx: Seq<int>, n: int) -> bool {
    &&& forall|k: int| 0 <= k < idx.len() ==> 0 <= #[trigger] idx[k] < n
    &&& forall|a: int, b: int| 0 <= a < b < idx.len() ==> idx[a] < idx[b]
}

// per-connection traces of a stream of streams
pub open spec fn traces<T>(ss: Seq<VStream<T>>) -> Seq<Seq<T>> { Seq::new(ss.len(), |i: int| ss[i]@) }

impl<T> VStream<T> {
    // StreamExt::map
    #[verifier::external_body]
    pub fn map<U, F: Fn(T) -> U>(self, f: F) -> (r: VStream<U>)
        requires forall|t: T| f.requires((t,)),
        ensures r@.len() == self@.len(), forall|i: int| 0 <= i < r@.len() ==> f.ensures((#[trigger] self@[i],), r@[i]),
    { unimplemented!() }

    // StreamExt::enumerate
    #[verifier::external_body]
    pub fn enumerate(self) -> (r: VStream<(usize, T)>)
        ensures r@.len() == self@.len(), forall|i: int| 0 <= i < r@.len() ==> (#[trigger] r@[i]).0 == i && r@[i].1 == self@[i],
    { unimplemented!() }

    // StreamExt::chain
    #[verifier::external_body]
    pub fn chain(self, other: VStream<T>) -> (r: VStream<T>)
        ensures r@ == self@ + other@,
    { unimplemented!() }

    // futures_util StreamExt::filter_map with a ready future: items mapped to None are skipped, the others kept in order
    #[verifier::external_body]
    pub fn filter_map<U, F: Fn(T) -> Ready<Option<U>>>(self, f: F) -> (r: VStream<U>)
        requires forall|t: T| f.requires((t,)),
        ensures exists|idx: Seq<int>| #[trigger] increasing_in(idx, self@.len() as int) && idx.len() == r@.len()
            && (forall|k: int| 0 <= k < idx.len() ==> f.ensures((self@[#[trigger] idx[k]],), Ready { v: Some(r@[k]) }))
            && (forall|j: int| 0 <= j < self@.len() && !idx.contains(j) ==> f.ensures((#[trigger] self@[j],), Ready { v: None })),
    { unimplemented!() }
}

impl<T> VStream<VStream<T>> {
    // StreamExt::flatten: the inner streams are drained one after the other
    #[verifier::external_body]
    pub fn flatten(self) -> (r: VStream<T>)
        ensures r@ == traces(self@).flatten(),
    { unimplemented!() }
}

// tokio_stream::StreamExt::map_while: yields the mapped items up to (excluding) the first one mapped to None, then ENDS
#[verifier::external_body]
pub fn vx_map_while<T, U, F: Fn(T) -> Option<U>>(s: VStream<T>, f: F) -> (r: VStream<U>)
    requires forall|t: T| f.requires((t,)),
    ensures r@.len() <= s@.len(),
        forall|i: int| 0 <= i < r@.len() ==> f.ensures((#[trigger] s@[i],), Some(r@[i])),
        r@.len() < s@.len() ==> f.ensures((s@[r@.len() as int],), None),
{ unimplemented!() }

// futures::stream::once(ready(x))
#[verifier::external_body]
pub fn vx_once<T>(fut: Ready<T>) -> (r: VStream<T>)
    ensures r@ == seq![fut.v],
{ unimplemented!() }

// tokio_stream::StreamExt::filter_map (synchronous closure): items mapped to None are SKIPPED, the stream goes on
#[verifier::external_body]
pub fn vx_filter_map<T, U, F: Fn(T) -> Option<U>>(s: VStream<T>, f: F) -> (r: VStream<U>)
    requires forall|t: T| f.requires((t,)),
    ensures exists|idx: Seq<int>| #[trigger] increasing_in(idx, s@.len() as int) && idx.len() == r@.len()
        && (forall|k: int| 0 <= k < idx.len() ==> f.ensures((s@[#[trigger] idx[k]],), Some(r@[k])))
        && (forall|j: int| 0 <= j < s@.len() && !idx.contains(j) ==> f.ensures((#[trigger] s@[j],), None)),
{ unimplemented!() }
