// ===== shim: opaque text (A-TEXT). Contents of strings are never inspected by any property. =====
#[verifier::external_body]
pub fn opaque_text() -> (r: String) { unimplemented!() }

#[verifier::external_body]
#[verifier::accept_recursive_types]
pub struct SmolStr { _p: () }

impl View for SmolStr { type V = int; uninterp spec fn view(&self) -> int; }

impl Clone for SmolStr {
    #[verifier::external_body]
    fn clone(&self) -> (r: Self) ensures r == *self { unimplemented!() }
}
