// ===== shim: Vec::sort / sort_unstable / sort_by_key / dedup and Iterator::enumerate on finite sequences (A-SORT). ASSUMED contracts + PROVED lemmas. =====
// `ord_le::<T>` is the total order `a <= b` of a type whose Ord / PartialOrd / Eq / PartialEq are DERIVED (lexicographic over the fields). It is
// uninterpreted: nothing below depends on which total order it is, only on the order laws. The three laws are the assumption A-ORD
// (`axiom_ord_*`): total, transitive, and ANTISYMMETRIC W.R.T. `==` (derived Ord and derived Eq are consistent: `cmp == Equal` iff `==`,
// and the executable `==` of these types is the structural equality the specifications use, A-DERIVE).
pub uninterp spec fn ord_le<T>(a: T, b: T) -> bool;
#[verifier::external_body]
pub proof fn axiom_ord_total<T>(a: T, b: T) ensures ord_le(a, b) || ord_le(b, a) {}
#[verifier::external_body]
pub proof fn axiom_ord_trans<T>(a: T, b: T, c: T) requires ord_le(a, b), ord_le(b, c) ensures ord_le(a, c) {}
#[verifier::external_body]
pub proof fn axiom_ord_antisym<T>(a: T, b: T) requires ord_le(a, b), ord_le(b, a) ensures a == b {}

// `idx[k]` is the input position of output element k, `inv` its inverse: `o` is a rearrangement of `i` (nothing lost, nothing invented, multiplicities kept)
pub open spec fn seq_perm<T>(i: Seq<T>, o: Seq<T>, idx: Seq<int>, inv: Seq<int>) -> bool {
    &&& o.len() == i.len() && idx.len() == i.len() && inv.len() == i.len()
    &&& forall|k: int| 0 <= k < i.len() ==> 0 <= #[trigger] idx[k] < i.len() && inv[idx[k]] == k && o[k] == i[idx[k]]
    &&& forall|j: int| 0 <= j < i.len() ==> 0 <= #[trigger] inv[j] < i.len() && idx[inv[j]] == j
}
pub open spec fn seq_sorted<T>(s: Seq<T>) -> bool { forall|a: int, b: int| 0 <= a < b < s.len() ==> ord_le(#[trigger] s[a], #[trigger] s[b]) }
pub open spec fn seq_sorted_by_key<T, K>(s: Seq<T>, key: spec_fn(T) -> K) -> bool { forall|a: int, b: int| 0 <= a < b < s.len() ==> ord_le(key(#[trigger] s[a]), key(#[trigger] s[b])) }
pub open spec fn seq_distinct<T>(s: Seq<T>) -> bool { forall|a: int, b: int| 0 <= a < b < s.len() ==> #[trigger] s[a] != #[trigger] s[b] }
pub open spec fn seq_strictly_sorted<T>(s: Seq<T>) -> bool { forall|a: int, b: int| 0 <= a < b < s.len() ==> ord_le(#[trigger] s[a], #[trigger] s[b]) && s[a] != s[b] }
pub open spec fn same_elements<T>(a: Seq<T>, b: Seq<T>) -> bool { forall|x: T| #[trigger] a.contains(x) <==> b.contains(x) }
pub open spec fn key_pinned<T, K, F: Fn(&T) -> K>(f: F, key: spec_fn(T) -> K) -> bool { forall|x: T, k: K| #[trigger] f.ensures((&x,), k) ==> k == key(x) }

// Vec::dedup (std: "removes consecutive repeated elements"; only if the vector is sorted does this remove all duplicates): an element is
// kept iff it differs from its predecessor
pub open spec fn seq_dedup<T>(s: Seq<T>) -> Seq<T>
    decreases s.len()
{
    if s.len() <= 1 { s } else if s[s.len() - 2] == s.last() { seq_dedup(s.drop_last()) } else { seq_dedup(s.drop_last()).push(s.last()) }
}

// <[T]>::sort for T: Ord (derived): a sorted rearrangement (stability is unobservable: elements that compare Equal are `==`)
#[verifier::external_body]
pub fn vx_sort<T>(v: &mut Vec<T>)
    ensures seq_sorted(final(v)@), exists|idx: Seq<int>, inv: Seq<int>| #[trigger] seq_perm(old(v)@, final(v)@, idx, inv),
{ unimplemented!() }
// <[T]>::sort_unstable: a sorted rearrangement as well (no promise about the order of equal elements - there is none to observe)
#[verifier::external_body]
pub fn vx_sort_unstable<T>(v: &mut Vec<T>)
    ensures seq_sorted(final(v)@), exists|idx: Seq<int>, inv: Seq<int>| #[trigger] seq_perm(old(v)@, final(v)@, idx, inv),
{ unimplemented!() }
// <[T]>::sort_by_key: a STABLE rearrangement that is sorted BY THE KEY ONLY: elements with equal keys keep their input order, so equal
// elements need NOT become adjacent
#[verifier::external_body]
pub fn vx_sort_by_key<T, K, F: Fn(&T) -> K>(v: &mut Vec<T>, f: F)
    requires forall|x: &T| f.requires((x,)),
    ensures forall|key: spec_fn(T) -> K| #[trigger] key_pinned(f, key) ==> seq_sorted_by_key(final(v)@, key)
        && exists|idx: Seq<int>, inv: Seq<int>| #[trigger] seq_perm(old(v)@, final(v)@, idx, inv)
            && (forall|a: int, b: int| 0 <= a < b < final(v)@.len() && key(final(v)@[a]) == key(final(v)@[b]) ==> #[trigger] idx[a] < #[trigger] idx[b]),
{ unimplemented!() }
// Vec::dedup for T: PartialEq (derived)
#[verifier::external_body]
pub fn vx_dedup<T>(v: &mut Vec<T>)
    ensures final(v)@ == seq_dedup(old(v)@),
{ unimplemented!() }

// Vec::into_iter and Iterator::enumerate on the VIter model (shims/iter.rs): the items in order, each paired with its position
pub open spec fn seq_enumerate<T>(s: Seq<T>) -> Seq<(usize, T)> { Seq::new(s.len(), |i: int| (i as usize, s[i])) }
pub trait VxVecIntoIter<T> { fn vx_into_iter(self) -> VIter<T>; }
impl<T> VxVecIntoIter<T> for Vec<T> { #[verifier::external_body] fn vx_into_iter(self) -> (r: VIter<T>) ensures r@ == self@ { unimplemented!() } }
pub trait VxEnumerate<T> { fn enumerate(self) -> VIter<(usize, T)>; }
impl<T> VxEnumerate<T> for VIter<T> {
    #[verifier::external_body] fn enumerate(self) -> (r: VIter<(usize, T)>) ensures r@ == seq_enumerate(self@) { unimplemented!() }
}
// Iterator::map, with the closure's precondition demanded for the items that are actually yielded (std calls the closure on those and on
// nothing else); otherwise as VIter::map
pub trait VxMapItems<T>: Sized {
    spec fn vx_items(&self) -> Seq<T>;
    fn vx_map_items<U, F: Fn(T) -> U>(self, f: F) -> (r: VIter<U>)
        requires forall|i: int| 0 <= i < self.vx_items().len() ==> f.requires((#[trigger] self.vx_items()[i],)),
        ensures r@.len() == self.vx_items().len(), forall|i: int| #![trigger self.vx_items()[i]] #![trigger r@[i]] 0 <= i < r@.len() ==> f.ensures((self.vx_items()[i],), r@[i]);
}
impl<T> VxMapItems<T> for VIter<T> {
    open spec fn vx_items(&self) -> Seq<T> { self@ }
    #[verifier::external_body] fn vx_map_items<U, F: Fn(T) -> U>(self, f: F) -> (r: VIter<U>) { unimplemented!() }
}

// ---------------------------------------------------------------- proved consequences
pub proof fn lemma_perm_same_elements<T>(i: Seq<T>, o: Seq<T>, idx: Seq<int>, inv: Seq<int>)
    requires seq_perm(i, o, idx, inv)
    ensures same_elements(i, o), o.len() == i.len(),
{
    assert forall|x: T| #[trigger] i.contains(x) <==> o.contains(x) by {
        if i.contains(x) { let j = choose|j: int| 0 <= j < i.len() && i[j] == x; assert(idx[inv[j]] == j); assert(o[inv[j]] == x); }
        if o.contains(x) { let k = choose|k: int| 0 <= k < o.len() && o[k] == x; assert(i[idx[k]] == x); }
    }
}
// dedup keeps the set of elements, the last element and the order; it never leaves two equal neighbours
pub proof fn lemma_dedup<T>(s: Seq<T>)
    ensures
        same_elements(s, seq_dedup(s)),
        seq_dedup(s).len() <= s.len(),
        s.len() > 0 ==> seq_dedup(s).len() > 0 && seq_dedup(s).last() == s.last(),
        forall|k: int| 0 <= k < seq_dedup(s).len() - 1 ==> #[trigger] seq_dedup(s)[k] != seq_dedup(s)[k + 1],
    decreases s.len()
{
    let d = seq_dedup(s);
    if s.len() <= 1 {
    } else {
        let p = s.drop_last();
        let dp = seq_dedup(p);
        lemma_dedup(p);
        assert(p.last() == s[s.len() - 2]);
        assert forall|x: T| #[trigger] s.contains(x) <==> d.contains(x) by {
            if s.contains(x) {
                let j = choose|j: int| 0 <= j < s.len() && s[j] == x;
                if j < p.len() { assert(p[j] == x); assert(p.contains(x)); assert(dp.contains(x)); let k = choose|k: int| 0 <= k < dp.len() && dp[k] == x; assert(d[k] == x); }
                else if s[s.len() - 2] == s.last() { assert(dp[dp.len() - 1] == x); assert(d[dp.len() - 1] == x); }
                else { assert(d[d.len() - 1] == x); }
            }
            if d.contains(x) {
                let k = choose|k: int| 0 <= k < d.len() && d[k] == x;
                if k < dp.len() { assert(dp[k] == x); assert(dp.contains(x)); assert(p.contains(x)); let j = choose|j: int| 0 <= j < p.len() && p[j] == x; assert(s[j] == x); }
                else { assert(s[s.len() - 1] == x); }
            }
        }
    }
}
// on a SORTED sequence dedup removes ALL duplicates: the result is strictly increasing, hence pairwise distinct
pub proof fn lemma_dedup_of_sorted<T>(s: Seq<T>)
    requires seq_sorted(s)
    ensures seq_strictly_sorted(seq_dedup(s)), seq_distinct(seq_dedup(s)),
    decreases s.len()
{
    let d = seq_dedup(s);
    if s.len() > 1 {
        let p = s.drop_last();
        let dp = seq_dedup(p);
        assert forall|a: int, b: int| 0 <= a < b < p.len() implies ord_le(#[trigger] p[a], #[trigger] p[b]) by { assert(p[a] == s[a] && p[b] == s[b]); }
        lemma_dedup_of_sorted(p);
        lemma_dedup(p);
        let n = s.len() as int;
        if s[n - 2] != s[n - 1] {
            assert forall|a: int, b: int| 0 <= a < b < d.len() implies ord_le(#[trigger] d[a], #[trigger] d[b]) && d[a] != d[b] by {
                if b == dp.len() {
                    assert(dp.contains(dp[a]));
                    assert(p.contains(dp[a]));
                    let j = choose|j: int| 0 <= j < p.len() && p[j] == dp[a];
                    assert(s[j] == dp[a]);
                    assert(ord_le(s[j], s[n - 1]));
                    if s[j] == s[n - 1] {
                        if j < n - 2 { assert(ord_le(s[j], s[n - 2])); }
                        assert(ord_le(s[n - 2], s[n - 1]));
                        axiom_ord_antisym(s[n - 2], s[j]);
                    }
                } else { assert(d[a] == dp[a] && d[b] == dp[b]); }
            }
        }
    }
}
pub proof fn lemma_sorted_distinct_is_strict<T>(s: Seq<T>)
    requires seq_sorted(s), seq_distinct(s)
    ensures seq_strictly_sorted(s)
{}
// the canonical list of a set: two strictly increasing sequences with the same elements are the same sequence
pub proof fn lemma_strictly_sorted_unique<T>(a: Seq<T>, b: Seq<T>)
    requires seq_strictly_sorted(a), seq_strictly_sorted(b), same_elements(a, b)
    ensures a == b
    decreases a.len()
{
    if a.len() == 0 {
        if b.len() > 0 { assert(b.contains(b[0])); assert(a.contains(b[0])); }
        assert(a =~= b);
    } else if b.len() == 0 {
        assert(a.contains(a[0])); assert(b.contains(a[0]));
    } else {
        let x = a.last(); let y = b.last();
        assert(a.contains(x)); assert(b.contains(x));
        let kx = choose|k: int| 0 <= k < b.len() && b[k] == x;
        assert(b.contains(y)); assert(a.contains(y));
        let ky = choose|k: int| 0 <= k < a.len() && a[k] == y;
        if kx < b.len() - 1 && ky < a.len() - 1 {
            assert(ord_le(b[kx], b[b.len() - 1]));
            assert(ord_le(a[ky], a[a.len() - 1]));
            axiom_ord_antisym(x, y);
        }
        // one of them is the other's last element, hence (strictness) both are
        if kx == b.len() - 1 { assert(x == y); } else if ky == a.len() - 1 { assert(x == y); }
        assert(x == y);
        let pa = a.drop_last(); let pb = b.drop_last();
        assert forall|i: int, j: int| 0 <= i < j < pa.len() implies ord_le(#[trigger] pa[i], #[trigger] pa[j]) && pa[i] != pa[j] by { assert(pa[i] == a[i] && pa[j] == a[j]); }
        assert forall|i: int, j: int| 0 <= i < j < pb.len() implies ord_le(#[trigger] pb[i], #[trigger] pb[j]) && pb[i] != pb[j] by { assert(pb[i] == b[i] && pb[j] == b[j]); }
        assert forall|z: T| #[trigger] pa.contains(z) <==> pb.contains(z) by {
            if pa.contains(z) {
                let i = choose|i: int| 0 <= i < pa.len() && pa[i] == z;
                assert(a[i] == z); assert(a.contains(z)); assert(b.contains(z));
                let j = choose|j: int| 0 <= j < b.len() && b[j] == z;
                if j == b.len() - 1 { assert(a[i] != a[a.len() - 1]); }
                assert(pb[j] == z);
            }
            if pb.contains(z) {
                let j = choose|j: int| 0 <= j < pb.len() && pb[j] == z;
                assert(b[j] == z); assert(b.contains(z)); assert(a.contains(z));
                let i = choose|i: int| 0 <= i < a.len() && a[i] == z;
                if i == a.len() - 1 { assert(b[j] != b[b.len() - 1]); }
                assert(pa[i] == z);
            }
        }
        lemma_strictly_sorted_unique(pa, pb);
        assert(a =~= pa.push(x)); assert(b =~= pb.push(y));
    }
}
// STATEMENT-LEVEL LEMMA: sort-then-dedup of ANY sequence (any order, any multiplicities) yields a sequence that is pairwise distinct,
// contains exactly the elements of the input (as a set) and lists them in `ord_le` order
pub proof fn lemma_sort_dedup<T>(input: Seq<T>, sorted: Seq<T>)
    requires seq_sorted(sorted), exists|idx: Seq<int>, inv: Seq<int>| #[trigger] seq_perm(input, sorted, idx, inv),
    ensures seq_distinct(seq_dedup(sorted)), same_elements(input, seq_dedup(sorted)), seq_strictly_sorted(seq_dedup(sorted)),
{
    let (idx, inv) = choose|idx: Seq<int>, inv: Seq<int>| #[trigger] seq_perm(input, sorted, idx, inv);
    lemma_perm_same_elements(input, sorted, idx, inv);
    lemma_dedup(sorted);
    lemma_dedup_of_sorted(sorted);
    let d = seq_dedup(sorted);
    assert forall|x: T| #[trigger] input.contains(x) <==> d.contains(x) by { assert(input.contains(x) <==> sorted.contains(x)); assert(sorted.contains(x) <==> d.contains(x)); }
}
// ... hence the result depends only on the SET of elements collected, not on the order (or multiplicity) in which they were inserted
pub proof fn lemma_sort_dedup_order_independent<T>(in1: Seq<T>, in2: Seq<T>, out1: Seq<T>, out2: Seq<T>)
    requires same_elements(in1, in2), same_elements(in1, out1), same_elements(in2, out2), seq_strictly_sorted(out1), seq_strictly_sorted(out2),
    ensures out1 == out2
{
    assert forall|x: T| #[trigger] out1.contains(x) <==> out2.contains(x) by { assert(in1.contains(x) <==> in2.contains(x)); assert(in1.contains(x) <==> out1.contains(x)); assert(in2.contains(x) <==> out2.contains(x)); }
    lemma_strictly_sorted_unique(out1, out2);
}
