//! Second back end for C06 (thorough tier): Kani / CBMC on the REAL Binance sequencers, every u64 symbolic, loop-free
//! => a complete proof over the full domain, and the source of concrete counter-examples.
#![allow(dead_code)]
#[cfg(kani)]
mod proofs {
    use barter_data::error::DataError;
    use barter_data::exchange::binance::{
        futures::l2::{BinanceFuturesOrderBookL2Update, BinanceFuturesUsdOrderBookL2Sequencer},
        spot::l2::{BinanceSpotOrderBookL2Sequencer, BinanceSpotOrderBookL2Update},
    };
    use barter_integration::subscription::SubscriptionId;
    use chrono::{DateTime, Utc};

    fn t0() -> DateTime<Utc> { DateTime::<Utc>::MIN_UTC }

    #[kani::proof]
    fn spot_validate_sequence_follows_venue_rule() {
        let processed: u64 = kani::any();
        let last: u64 = kani::any();
        let prev: u64 = kani::any();
        let first_id: u64 = kani::any();
        let last_id: u64 = kani::any();
        kani::assume(processed < u64::MAX && last < u64::MAX);
        let mut s = BinanceSpotOrderBookL2Sequencer { updates_processed: processed, last_update_id: last, prev_last_update_id: prev };
        let u = BinanceSpotOrderBookL2Update { subscription_id: SubscriptionId::from("s"), time_exchange: t0(), first_update_id: first_id, last_update_id: last_id, bids: vec![], asks: vec![] };
        let r = s.validate_sequence(u);
        let stale = last_id <= last;
        let rule = if processed == 0 { first_id <= last + 1 && last + 1 <= last_id } else { first_id == last + 1 };
        match r {
            Ok(None) => { assert!(stale); assert!(s.last_update_id == last && s.updates_processed == processed); }
            Ok(Some(out)) => { assert!(!stale && rule); assert!(out.last_update_id == last_id && out.first_update_id == first_id);
                               assert!(s.last_update_id == last_id && s.updates_processed == processed + 1); }
            Err(e) => { assert!(!stale && !rule); assert!(matches!(e, DataError::InvalidSequence { .. })); assert!(e.is_terminal());
                        assert!(s.last_update_id == last && s.updates_processed == processed); }
        }
    }

    #[kani::proof]
    fn futures_validate_sequence_follows_venue_rule() {
        let processed: u64 = kani::any();
        let last: u64 = kani::any();
        let first_id: u64 = kani::any();
        let last_id: u64 = kani::any();
        let prev_id: u64 = kani::any();
        kani::assume(processed < u64::MAX);
        let mut s = BinanceFuturesUsdOrderBookL2Sequencer { updates_processed: processed, last_update_id: last };
        let u = BinanceFuturesOrderBookL2Update { subscription_id: SubscriptionId::from("s"), time_exchange: t0(), time_engine: t0(),
            first_update_id: first_id, last_update_id: last_id, prev_last_update_id: prev_id, bids: vec![], asks: vec![] };
        let r = s.validate_sequence(u);
        let stale = last_id < last;
        let rule = if processed == 0 { first_id <= last && last <= last_id } else { prev_id == last };
        match r {
            Ok(None) => { assert!(stale); assert!(s.last_update_id == last && s.updates_processed == processed); }
            Ok(Some(out)) => { assert!(!stale && rule); assert!(out.last_update_id == last_id);
                               assert!(s.last_update_id == last_id && s.updates_processed == processed + 1); }
            Err(e) => { assert!(!stale && !rule); assert!(matches!(e, DataError::InvalidSequence { .. })); assert!(e.is_terminal());
                        assert!(s.last_update_id == last && s.updates_processed == processed); }
        }
    }
}
