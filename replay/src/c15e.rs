//! C15 engine-state level bounded check: "the unrealised PnL of an open position tracks the instrument's latest price".
//!
//! Drives the REAL `EngineState` (built by `eng::fresh_state`) through `update_from_account` (fills = trade account events) and
//! `update_from_market` (PublicTrade / OrderBookL1 market events) - and, for half of the random histories, the REAL `Engine` of the
//! eng.rs rig through `Engine::process` - with interleavings of fills and priced market events on several instruments of different
//! exchanges. After EVERY delivery the engine is compared with an oracle written from the statement that keeps nothing but what was
//! delivered:
//!
//!   current price(instrument)  = volume-weighted mid of the held top of book when both sides are present, else the last traded price
//!                                (`InstrumentDataState::price` docs of the default market data); "held" = the delivered L1 / trade with
//!                                the GREATEST exchange timestamp so far, of equal timestamps the FIRST delivered (market data rule of
//!                                C09, see c09.rs); `time_received` plays no part
//!   position(instrument)       = from the fills only: side, open quantity, peak quantity, cost basis of the open inventory (entry
//!                                average = cost basis / open quantity, a reduce removes its pro-rata share), entry fees (a crossing
//!                                fill's fee is split by quantity) - the cost-basis arithmetic of c02.rs, not the code under test
//!   estimate(position, price)  = long (price - entry) * qty, short (entry - price) * qty, minus (qty / peak qty) * entry fees
//!   mark(instrument)           = the price `pnl_unrealised` has to be evaluated at right now: after a market event (trade / L1) on an
//!                                instrument with an open position and a current price: that current price; after a fill that keeps a
//!                                position open: the fill price - until the next priced market event of that instrument
//!
//! Labels
//!   C15.bounded.unrealised_at_current_price_after_market_event  pnl_unrealised == estimate(current price) once a priced market event was
//!                                                               processed for the instrument (and stays so while OTHER instruments move)
//!   C15.bounded.current_price_is_latest_by_exchange_time        `price()` of every instrument == the model's current price
//!   C15.bounded.unrealised_at_fill_price_after_fill             pnl_unrealised == estimate(fill price) after an increasing / reducing fill
//! Opening fills from flat and the remainder position of a flip are NOT checked after the fill (recorded known finding
//! `C15.opening_fill.unrealised_at_fill_price`: the unchanged code stores 0); they are checked again from the next priced market event on.
//! Tolerance 1e-12 (entry average and pro-rata fee shares are quotients; values < 1e6, Decimal carries 28 digits).
use crate::{
    eng::{self, Layout, Link, Rig, SetRisk, State, t, tenths},
    report,
    rng::Rng,
};
use barter::{
    EngineEvent,
    engine::{Processor, state::{instrument::data::InstrumentDataState, trading::TradingState}},
    execution::AccountStreamEvent,
};
use barter_data::{
    books::Level,
    event::{DataKind, MarketEvent},
    streams::consumer::MarketStreamEvent,
    subscription::{book::OrderBookL1, trade::PublicTrade},
};
use barter_execution::{
    AccountEvent, AccountEventKind,
    order::id::{OrderId, StrategyId},
    trade::{AssetFees, Trade, TradeId},
};
use barter_instrument::{Side, exchange::ExchangeIndex, instrument::InstrumentIndex};
use rust_decimal::Decimal;
use rust_decimal_macros::dec;
use std::collections::HashSet;

const L_MKT: &str = "C15.bounded.unrealised_at_current_price_after_market_event";
const L_PRICE: &str = "C15.bounded.current_price_is_latest_by_exchange_time";
const L_FILL: &str = "C15.bounded.unrealised_at_fill_price_after_fill";
const TOL: Decimal = dec!(0.000000000001);

// ------------------------------------------------------------------------------------------------- events
/// (price, amount) of one side of the top of book
type Lvl = Option<(i64, i64)>;
#[derive(Clone, PartialEq)]
enum Ev {
    /// qty in tenths, fee in hundredths, t: the fill's own exchange time
    Fill { i: usize, buy: bool, px: i64, qty: i64, fee: i64, t: i64 },
    /// time_received = t + lat
    Trade { i: usize, t: i64, lat: i64, px: i64 },
    L1 { i: usize, t: i64, lat: i64, bid: Lvl, ask: Lvl },
}
impl Ev {
    fn inst(&self) -> usize { match self { Ev::Fill { i, .. } | Ev::Trade { i, .. } | Ev::L1 { i, .. } => *i } }
}
impl std::fmt::Debug for Ev {
    fn fmt(&self, f: &mut std::fmt::Formatter<'_>) -> std::fmt::Result {
        let lvl = |l: &Lvl| match l { Some((p, a)) => format!("{p}x{a}"), None => "-".into() };
        match self {
            Ev::Fill { i, buy, px, qty, fee, t } => write!(f, "Fill(inst{i} {} {} @ {px} fee {} t_ex={t})", if *buy { "Buy" } else { "Sell" }, tenths(*qty), Decimal::new(*fee, 2)),
            Ev::Trade { i, t, lat, px } => write!(f, "PublicTrade(inst{i} px={px} t_ex={t} t_recv={})", t + lat),
            Ev::L1 { i, t, lat, bid, ask } => write!(f, "L1(inst{i} bid={} ask={} t_ex={t} t_recv={})", lvl(bid), lvl(ask), t + lat),
        }
    }
}

enum Real { Market(MarketEvent<InstrumentIndex, DataKind>), Account(AccountEvent) }

/// k: delivery counter (unique trade ids)
fn real(lay: &Layout, ev: &Ev, k: usize) -> Real {
    let market = |i: usize, ts: i64, lat: i64, kind: DataKind| MarketEvent { time_exchange: t(ts), time_received: t(ts + lat), exchange: lay.ex_ids[lay.inst_ex[i]], instrument: InstrumentIndex(i), kind };
    let level = |l: &Lvl| l.map(|(p, a)| Level::new(Decimal::from(p), Decimal::from(a)));
    match ev {
        Ev::Trade { i, t: ts, lat, px } => Real::Market(market(*i, *ts, *lat, DataKind::Trade(PublicTrade { id: format!("p{k}"), price: *px as f64, amount: 1.0, side: if k % 2 == 0 { Side::Buy } else { Side::Sell } }))),
        Ev::L1 { i, t: ts, lat, bid, ask } => Real::Market(market(*i, *ts, *lat, DataKind::OrderBookL1(OrderBookL1 { last_update_time: t(*ts), best_bid: level(bid), best_ask: level(ask) }))),
        Ev::Fill { i, buy, px, qty, fee, t: ts } => Real::Account(AccountEvent {
            exchange: ExchangeIndex(lay.inst_ex[*i]),
            kind: AccountEventKind::Trade(Trade {
                id: TradeId::new(format!("f{k}")), order_id: OrderId::new(format!("of{k}")), instrument: InstrumentIndex(*i), strategy: StrategyId::new("s"), time_exchange: t(*ts),
                side: if *buy { Side::Buy } else { Side::Sell }, price: Decimal::from(*px), quantity: tenths(*qty), fees: AssetFees::quote_fees(Decimal::new(*fee, 2)),
            }),
        }),
    }
}

/// the system under test: the engine state on its own (cloneable: exhaustive search) or inside the eng.rs engine rig
enum Sut { State(State), Engine(Box<Rig<SetRisk>>) }
impl Sut {
    fn state(&self) -> &State { match self { Sut::State(s) => s, Sut::Engine(r) => &r.engine.state } }
    fn deliver(&mut self, lay: &Layout, ev: &Ev, k: usize) {
        match (self, real(lay, ev, k)) {
            (Sut::State(s), Real::Market(m)) => s.update_from_market(&m),
            (Sut::State(s), Real::Account(a)) => { let _ = s.update_from_account(&a); }
            (Sut::Engine(r), Real::Market(m)) => { let _ = r.engine.process(EngineEvent::Market(MarketStreamEvent::Item(m))); }
            (Sut::Engine(r), Real::Account(a)) => { let _ = r.engine.process(EngineEvent::Account(AccountStreamEvent::Item(a))); }
        }
    }
    fn name(&self) -> &'static str { match self { Sut::State(_) => "EngineState::update_from_account / update_from_market", Sut::Engine(_) => "Engine::process (eng.rs rig, trading disabled)" } }
}

// ------------------------------------------------------------------------------------------------- oracle
#[derive(Clone, Debug)]
struct MPos { long: bool, qty: Decimal, max: Decimal, cost: Decimal, fees_enter: Decimal }
impl MPos {
    fn entry(&self) -> Decimal { self.cost / self.qty }
    /// the documented estimate: price move on the open quantity minus pro-rata estimated exit fees
    fn estimate(&self, price: Decimal) -> Decimal {
        let mv = if self.long { (price - self.entry()) * self.qty } else { (self.entry() - price) * self.qty };
        mv - (self.qty / self.max) * self.fees_enter
    }
    fn show(&self) -> String { format!("{} qty={} peak={} entry_average={} fees_enter={}", if self.long { "LONG" } else { "SHORT" }, self.qty, self.max, self.entry(), self.fees_enter) }
}
#[derive(Clone, Copy, Debug, PartialEq, Eq)]
enum FillKind { Open, Increase, Reduce, Close, Flip }
#[derive(Clone, Copy, Debug, PartialEq)]
enum MarkBy { Market, Fill }

#[derive(Clone, Default)]
struct MInst {
    /// delivered public trades (exchange time, price) / books (exchange time, bid, ask), in delivery order
    trades: Vec<(i64, i64)>,
    books: Vec<(i64, Lvl, Lvl)>,
    pos: Option<MPos>,
    /// price the unrealised PnL has to be evaluated at, who set it, at which delivery
    mark: Option<(Decimal, MarkBy, usize)>,
}
/// the delivered item with the greatest exchange timestamp; of equal timestamps the FIRST delivered (C09 rule for market data)
fn newest<T: Copy>(v: &[T], time: impl Fn(&T) -> i64) -> Option<T> {
    let mut best: Option<T> = None;
    for x in v { best = match best { None => Some(*x), Some(b) => if time(x) > time(&b) { Some(*x) } else { Some(b) } }; }
    best
}
impl MInst {
    fn price(&self) -> Option<Decimal> {
        if let Some((_, Some((b, ba)), Some((a, aa)))) = newest(&self.books, |x| x.0) {
            // micro-price: each side's price weighted with the OTHER side's amount
            return Some((Decimal::from(b) * Decimal::from(aa) + Decimal::from(a) * Decimal::from(ba)) / (Decimal::from(ba) + Decimal::from(aa)));
        }
        newest(&self.trades, |x| x.0).map(|x| Decimal::from(x.1))
    }
    fn fill(&mut self, buy: bool, px: Decimal, qty: Decimal, fee: Decimal) -> FillKind {
        let fresh = |q: Decimal, f: Decimal| MPos { long: buy, qty: q, max: q, cost: px * q, fees_enter: f };
        let Some(mut p) = self.pos.take() else { self.pos = Some(fresh(qty, fee)); return FillKind::Open; };
        if p.long == buy {
            p.cost += px * qty;
            p.qty += qty;
            if p.qty > p.max { p.max = p.qty; }
            p.fees_enter += fee;
            self.pos = Some(p);
            FillKind::Increase
        } else if qty < p.qty {
            p.cost = p.cost * (p.qty - qty) / p.qty;
            p.qty -= qty;
            self.pos = Some(p);
            FillKind::Reduce
        } else if qty == p.qty {
            FillKind::Close
        } else {
            let rest = qty - p.qty;
            self.pos = Some(fresh(rest, fee * rest / qty));
            FillKind::Flip
        }
    }
}

#[derive(Clone)]
struct Model { inst: Vec<MInst> }
impl Model {
    fn new(lay: &Layout) -> Self { Model { inst: vec![MInst::default(); lay.n_inst] } }
    /// k: delivery number (1-based)
    fn apply(&mut self, ev: &Ev, k: usize) -> Option<FillKind> {
        let m = &mut self.inst[ev.inst()];
        match ev {
            Ev::Trade { t, px, .. } => m.trades.push((*t, *px)),
            Ev::L1 { t, bid, ask, .. } => m.books.push((*t, *bid, *ask)),
            Ev::Fill { buy, px, qty, fee, .. } => {
                let kind = m.fill(*buy, Decimal::from(*px), tenths(*qty), Decimal::new(*fee, 2));
                m.mark = match kind {
                    FillKind::Increase | FillKind::Reduce => Some((Decimal::from(*px), MarkBy::Fill, k)),
                    // opening fill / remainder of a flip: known finding (stores 0), not asserted; nothing open after an exact close
                    FillKind::Open | FillKind::Flip | FillKind::Close => None,
                };
                return Some(kind);
            }
        }
        // a priced market event was processed: an open position is marked at the instrument's current price
        if let (Some(_), Some(price)) = (&m.pos, m.price()) { m.mark = Some((price, MarkBy::Market, k)); }
        None
    }
}

// ------------------------------------------------------------------------------------------------- checking
struct Ctx<'a> { lay: &'a Layout, seen: &'a mut HashSet<&'static str>, cases: u64 }

fn near(a: Decimal, b: Decimal) -> bool { (a - b).abs() <= TOL }
fn show_px(p: &Option<Decimal>) -> String { p.map(|p| p.to_string()).unwrap_or("None".into()) }

/// compares engine and oracle on every instrument after the last delivery of `trace`; true iff everything agrees
fn check(cx: &mut Ctx, state: &State, m: &Model, via: &str, trace: &[Ev]) -> bool {
    let lay = cx.lay;
    let k = trace.len();
    let last = &trace[k - 1];
    let mut fails: Vec<(&'static str, String, String)> = vec![];
    for j in 0..lay.n_inst {
        let (mi, si) = (&m.inst[j], state.instruments.instrument_index(&InstrumentIndex(j)));
        let (got_px, exp_px) = (si.data.price(), mi.price());
        let px_ok = match (got_px, exp_px) { (None, None) => true, (Some(a), Some(b)) => near(a, b), _ => false };
        if !px_ok {
            fails.push((L_PRICE,
                format!("price() of inst{j} = {} (held: last_traded_price={:?} l1=(bid {:?} ask {:?} @t={}))", show_px(&got_px), si.data.last_traded_price.as_ref().map(|x| (x.value, x.time.timestamp() - 1_700_000_000)), si.data.l1.best_bid.map(|l| (l.price, l.amount)), si.data.l1.best_ask.map(|l| (l.price, l.amount)), si.data.l1.last_update_time.timestamp() - 1_700_000_000),
                format!("{} = volume-weighted mid of the L1 with the greatest exchange time delivered so far {:?} when two-sided, else the public trade with the greatest exchange time {:?} (equal times: first delivered)", show_px(&exp_px), newest(&mi.books, |x| x.0), newest(&mi.trades, |x| x.0))));
        }
        let (Some(pos), Some((price, by, at))) = (&mi.pos, mi.mark) else { continue; };
        let exp = pos.estimate(price);
        let label = match by { MarkBy::Market => L_MKT, MarkBy::Fill => L_FILL };
        let why = match by {
            MarkBy::Market => format!("current price of inst{j} since priced market event #{at} {:?}", trace[at - 1]),
            MarkBy::Fill => format!("fill price of #{at} {:?}, no priced market event for inst{j} since", trace[at - 1]),
        };
        match &si.position.current {
            None => fails.push((label, format!("inst{j}: no open position in the engine"), format!("open position {} with pnl_unrealised {exp} = estimate at {price} ({why})", pos.show()))),
            Some(p) => if !near(p.pnl_unrealised, exp) {
                fails.push((label,
                    format!("inst{j}: pnl_unrealised={} (engine position: {:?} qty={} peak={} entry_average={} fees_enter={}; engine price()={})", p.pnl_unrealised, p.side, p.quantity_abs, p.quantity_abs_max, p.price_entry_average, p.fees_enter.fees, show_px(&got_px)),
                    format!("{exp} = estimate at {price} ({why}); model position {}", pos.show())));
            },
        }
    }
    let ok = fails.is_empty();
    for (label, obs, exp) in fails {
        if cx.seen.insert(label) {
            report(label, format!("via {via}; instruments {:?}; deliveries in order: {trace:?}", (0..lay.n_inst).map(|i| format!("inst{i}@{}", lay.ex_ids[lay.inst_ex[i]].as_str())).collect::<Vec<_>>()), format!("after delivery #{k} {last:?}: {obs}"), exp);
        }
    }
    ok
}

/// every sequence (with repetition) of exactly `remaining` more deliveries from `alphabet` (prefixes shared), oracle consulted after the
/// last delivery only: `explore` deepens the bound one by one, so every prefix was checked before and witnesses are as short as possible
fn dfs(cx: &mut Ctx, state: &State, m: &Model, alphabet: &[Ev], remaining: usize, trace: &mut Vec<Ev>) -> bool {
    let mut all_ok = true;
    for ev in alphabet {
        let (mut s2, mut m2) = (Sut::State(state.clone()), m.clone());
        trace.push(ev.clone());
        s2.deliver(cx.lay, ev, trace.len());
        m2.apply(ev, trace.len());
        if remaining == 1 {
            cx.cases += 1;
            all_ok &= check(cx, s2.state(), &m2, s2.name(), trace);
        } else {
            all_ok &= dfs(cx, s2.state(), &m2, alphabet, remaining - 1, trace);
        }
        trace.pop();
    }
    all_ok
}
fn explore(lay: &Layout, seen: &mut HashSet<&'static str>, alphabet: &[Ev], depth: usize) -> u64 {
    let state = eng::fresh_state(lay, TradingState::Disabled);
    let m = Model::new(lay);
    let mut cx = Ctx { lay, seen, cases: 0 };
    // a failing sequence ends the group (its extensions say nothing new)
    for bound in 1..=depth { if !dfs(&mut cx, &state, &m, alphabet, bound, &mut vec![]) { break; } }
    cx.cases
}

// ------------------------------------------------------------------------------------------------- alphabets
fn fill(i: usize, buy: bool, px: i64, qty: i64, fee: i64, t: i64) -> Ev { Ev::Fill { i, buy, px, qty, fee, t } }
fn trade(i: usize, t: i64, lat: i64, px: i64) -> Ev { Ev::Trade { i, t, lat, px } }
fn l1(i: usize, t: i64, lat: i64, bid: Lvl, ask: Lvl) -> Ev { Ev::L1 { i, t, lat, bid, ask } }

/// i: an instrument, j: an instrument of ANOTHER exchange
fn alphabets(i: usize, j: usize) -> Vec<Vec<Ev>> {
    vec![
        // trades only; receive latency (5) larger than the gaps between exchange times; equal and older exchange times; fills stamped
        // later than the market data that follows them; open / increase / reduce / exact close / flip depending on what is open
        vec![
            fill(i, true, 100, 10, 100, 6), fill(i, false, 104, 5, 50, 9), fill(i, false, 110, 20, 100, 4),
            trade(i, 3, 5, 100), trade(i, 5, 5, 105), trade(i, 5, 0, 96), trade(i, 7, 1, 110), trade(i, 1, 0, 90),
        ],
        // top of book (two-sided, one-sided, weighted) + trades; the mid of the first book equals the entry price
        vec![
            fill(i, true, 100, 20, 100, 5), fill(i, false, 102, 10, 0, 2), fill(i, true, 106, 10, 100, 8),
            l1(i, 4, 3, Some((99, 1)), Some((101, 1))), l1(i, 6, 1, Some((104, 1)), Some((106, 3))), l1(i, 6, 0, Some((103, 2)), None), l1(i, 2, 9, Some((97, 2)), Some((99, 1))),
            trade(i, 5, 3, 103),
        ],
        // short side first; books that lose a side (price falls back to the last trade) and get it back
        vec![
            fill(i, false, 100, 10, 25, 3), fill(i, false, 96, 20, 25, 7), fill(i, true, 98, 15, 30, 5),
            l1(i, 2, 0, Some((101, 3)), Some((103, 1))), l1(i, 4, 6, None, Some((100, 1))), l1(i, 8, 0, Some((95, 1)), Some((97, 1))),
            trade(i, 1, 4, 100), trade(i, 4, 4, 94),
        ],
        // two instruments on different exchanges, same prices / times: a mark of one must not leak into the other
        vec![
            fill(i, true, 100, 10, 100, 5), fill(j, false, 100, 10, 100, 5), fill(i, true, 104, 10, 0, 7), fill(j, true, 98, 5, 10, 3),
            trade(i, 4, 3, 105), trade(j, 4, 3, 95), trade(i, 6, 0, 100), trade(j, 6, 0, 100), l1(j, 5, 2, Some((101, 1)), Some((103, 1))),
        ],
    ]
}

// ------------------------------------------------------------------------------------------------- random histories
struct Gen { insts: Vec<usize>, trades_only: Vec<bool>, mclk: Vec<i64>, pos: Vec<i64> }
impl Gen {
    fn event(&mut self, rng: &mut Rng, kinds: &mut [u64; 5]) -> Ev {
        let n = rng.below(self.insts.len() as u64) as usize;
        let i = self.insts[n];
        if rng.chance(2, 5) {
            // fill: own exchange time around the instrument's market clock (sometimes later than the market data that follows)
            let ts = (self.mclk[n] + rng.below(10) as i64 - 3).max(0);
            let open = self.pos[n];
            let q = [5, 10, 10, 15, 20, 30][rng.below(6) as usize];
            let (buy, qty, kind) = if open == 0 { (rng.chance(1, 2), q, 0) } else {
                let long = open > 0;
                match rng.below(9) {
                    0..=2 => (long, q, 1),
                    3..=5 if open.abs() > 5 => (!long, 5 * (1 + rng.below((open.abs() / 5 - 1) as u64) as i64), 2),
                    6 => (!long, open.abs(), 3),
                    7..=8 => (!long, open.abs() + q, 4),
                    _ => (long, q, 1),
                }
            };
            kinds[kind] += 1;
            self.pos[n] += if buy { qty } else { -qty };
            return fill(i, buy, [98, 100, 100, 102, 104][rng.below(5) as usize], qty, [0, 25, 100, 130][rng.below(4) as usize], ts);
        }
        // market event: increasing / equal / older exchange time; latency sometimes larger than the gap to the next exchange time
        let ts = match rng.below(20) {
            0..=9 => { self.mclk[n] += 1 + rng.below(3) as i64; self.mclk[n] }
            10..=12 => self.mclk[n],
            _ => (self.mclk[n] - 1 - rng.below(5) as i64).max(0),
        };
        let lat = [0, 0, 1, 2, 4, 8][rng.below(6) as usize];
        if self.trades_only[n] || rng.chance(1, 2) { return trade(i, ts, lat, 94 + 2 * rng.below(8) as i64); }
        let b = 95 + rng.below(10) as i64;
        let (ba, aa) = (1 + rng.below(3) as i64, 1 + rng.below(3) as i64);
        let (bid, ask) = match rng.below(16) { 0..=1 => (Some((b, ba)), None), 2..=3 => (None, Some((b + 2, aa))), 4 => (None, None), _ => (Some((b, ba)), Some((b + [1, 2, 2, 4][rng.below(4) as usize], aa))) };
        l1(i, ts, lat, bid, ask)
    }
}

pub fn run(seed: u64, thorough: bool) -> u64 {
    let lay = eng::layout();
    let mut seen: HashSet<&'static str> = HashSet::new();
    let mut n = 0u64;
    // one instrument per exchange + a second one of the last exchange
    let per_ex: Vec<usize> = lay.ex_insts.iter().map(|v| v[0]).collect();
    assert!(per_ex.len() >= 3 && lay.ex_insts[2].len() >= 2, "layout");

    // --- exhaustive: every sequence with repetition up to the bound, per alphabet, on instruments of different exchanges
    let depth = if thorough { 6 } else { 5 };
    for (i, j) in [(per_ex[0], per_ex[2]), (per_ex[1], per_ex[0])] {
        for alphabet in alphabets(i, j) {
            let d = if alphabet.len() > 8 { depth - 1 } else { depth };
            n += explore(&lay, &mut seen, &alphabet, d);
        }
    }

    // --- seeded random: 2..4 instruments on >= 2 exchanges (some with trades only), long histories, alternately on the bare engine state
    //     and through Engine::process
    let mut rng = Rng::seeded(seed, 15);
    let mut kinds = [0u64; 5];
    for h in 0..if thorough { 400_000 } else { 40_000 } {
        let mut insts = vec![per_ex[rng.below(3) as usize]];
        let other = per_ex.iter().copied().filter(|x| *x != insts[0]).collect::<Vec<_>>();
        insts.push(other[rng.below(2) as usize]);
        if rng.chance(1, 2) { insts.push(lay.ex_insts[2][1]); }
        if rng.chance(1, 3) { let x = *other.iter().find(|x| !insts.contains(x)).unwrap(); insts.push(x); }
        let k = insts.len();
        let mut g = Gen { trades_only: (0..k).map(|_| rng.chance(1, 3)).collect(), insts, mclk: (0..k).map(|_| rng.below(4) as i64).collect(), pos: vec![0; k] };
        let mut sut = if h % 2 == 0 { Sut::State(eng::fresh_state(&lay, TradingState::Disabled)) } else { Sut::Engine(Box::new(eng::build(&lay, [Link::Healthy; eng::N_EX], TradingState::Disabled, SetRisk::default()))) };
        let mut m = Model::new(&lay);
        let mut cx = Ctx { lay: &lay, seen: &mut seen, cases: 0 };
        let mut trace: Vec<Ev> = vec![];
        let span = if rng.chance(1, 4) { 60 } else { 20 };
        for _ in 0..6 + rng.below(span) {
            let ev = g.event(&mut rng, &mut kinds);
            trace.push(ev.clone());
            sut.deliver(&lay, &ev, trace.len());
            m.apply(&ev, trace.len());
            cx.cases += 1;
            if !check(&mut cx, sut.state(), &m, sut.name(), &trace) { break; }
        }
        n += cx.cases;
    }
    if std::env::var("VX_C15E_STATS").is_ok() { eprintln!("random fills by kind [open, increase, reduce, close, flip] = {kinds:?}"); }
    n
}
