//! C11 BOUNDED stand-in (never counted as proved): "every distinct exchange, exchange-asset and instrument receives exactly one
//! index equal to its position, lookups by name and by index are mutual inverses, every instrument's exchange and asset
//! references resolve to the entries it was defined with, the result does not depend on insertion order; engine state,
//! connectivity state and execution-link tables built from the collection hold, at each index, the entry of exactly the entity
//! with that index".
//!
//! All carrying code is iterator pipelines (sort / dedup / enumerate / collect into IndexMaps), out of the verifier's reach.
//! Here multisets of instrument definitions drawn from a pool (spot / perpetual / future / option, settlement assets and
//! quantity-unit assets that occur nowhere else, four exchanges, asset names shared between exchanges, venue-specific asset
//! names) are fed in every insertion order (every ordered tuple with repetition up to a small length; seeded shuffles of larger
//! multisets) to the REAL `IndexedInstruments::new` / builder / `FromIterator`, and the REAL `EngineStateBuilder`,
//! `generate_*` table constructors and `ExecutionBuilder` (mock links, initialised and driven on a tokio runtime) are run on
//! the result. The expected sets of exchanges / exchange-assets / instruments are computed HERE from the definitions.
//!
//! Input domain: within one collection an asset is named consistently per exchange (one `Asset` per (exchange, internal
//! name)) and instrument internal names are unique. Collections outside that domain are probed only with VX_C11_KNOWN=1
//! (see `known_probe`).
use crate::{rng::Rng, report};
use barter::{
    engine::{
        clock::HistoricalClock,
        execution_tx::ExecutionTxMap,
        state::{
            EngineState,
            asset::generate_empty_indexed_asset_states,
            connectivity::generate_empty_indexed_connectivity_states,
            global::DefaultGlobalData,
            instrument::{data::DefaultInstrumentMarketData, generate_indexed_instrument_states},
            order::Orders,
            position::PositionManager,
        },
    },
    execution::{AccountStreamEvent, builder::ExecutionBuilder, request::ExecutionRequest},
};
use barter_execution::{
    AccountEventKind, UnindexedAccountSnapshot,
    balance::{AssetBalance, Balance},
    client::mock::MockExecutionConfig,
    order::{
        OrderKey, OrderKind, TimeInForce,
        id::{ClientOrderId, StrategyId},
        request::{OrderRequestOpen, RequestOpen},
        state::{InactiveOrderState, OrderState},
    },
};
use barter_instrument::{
    Keyed, Side, Underlying,
    asset::{Asset, AssetIndex, ExchangeAsset, name::AssetNameInternal},
    exchange::{ExchangeId, ExchangeIndex},
    index::IndexedInstruments,
    instrument::{
        Instrument, InstrumentIndex,
        kind::{
            InstrumentKind,
            future::FutureContract,
            option::{OptionContract, OptionExercise, OptionKind},
            perpetual::PerpetualContract,
        },
        name::InstrumentNameInternal,
        quote::InstrumentQuoteAsset,
        spec::{InstrumentSpec, InstrumentSpecNotional, InstrumentSpecPrice, InstrumentSpecQuantity, OrderQuantityUnits},
    },
};
use barter_integration::channel::Tx;
use chrono::{DateTime, Utc};
use rust_decimal::Decimal;
use std::{
    collections::{BTreeSet, HashMap, HashSet},
    panic::{AssertUnwindSafe, catch_unwind},
    time::Duration,
};

const L_POS: &str = "C11.bounded.index_equals_position";
const L_DISTINCT: &str = "C11.bounded.values_distinct";
const L_SET: &str = "C11.bounded.value_set_equals_inputs";
const L_INVERSE: &str = "C11.bounded.lookups_inverse";
const L_ABSENT: &str = "C11.bounded.absent_is_error";
const L_REFS: &str = "C11.bounded.instrument_references_resolve";
const L_ORDER: &str = "C11.bounded.order_independent";
const L_DUP: &str = "C11.bounded.duplicates_ignored";
const L_ENGINE: &str = "C11.bounded.engine_tables_aligned";
const L_EXEC: &str = "C11.bounded.execution_links_aligned";

type Def = Instrument<ExchangeId, Asset>;

fn t0() -> DateTime<Utc> { DateTime::<Utc>::from_timestamp(1_700_000_000, 0).unwrap() }
fn date(ts: i64) -> DateTime<Utc> { DateTime::<Utc>::from_timestamp(ts, 0).unwrap() }
static PLAIN_NAMES: std::sync::atomic::AtomicBool = std::sync::atomic::AtomicBool::new(false);
fn name(ex: ExchangeId, n: &str) -> String { if PLAIN_NAMES.load(std::sync::atomic::Ordering::Relaxed) { n.to_string() } else { format!("{}-{n}", ex.as_str()) } }
/// the pool with user-chosen internal names that do not carry the exchange: the listings of one pair on two exchanges share their internal name
fn plain_pool() -> Vec<Def> {
    PLAIN_NAMES.store(true, std::sync::atomic::Ordering::Relaxed);
    let p = pool();
    PLAIN_NAMES.store(false, std::sync::atomic::Ordering::Relaxed);
    p
}
fn spec(unit: OrderQuantityUnits<Asset>, salt: i64) -> Option<InstrumentSpec<Asset>> {
    Some(InstrumentSpec::new(
        InstrumentSpecPrice::new(Decimal::new(1, 2), Decimal::new(salt, 2)),
        InstrumentSpecQuantity::new(unit, Decimal::new(salt, 3), Decimal::new(1, 3)),
        InstrumentSpecNotional::new(Decimal::from(5 + salt)),
    ))
}

/// The pool. Its order is deliberately neither the `Ord` order of the definitions nor grouped by exchange.
fn pool() -> Vec<Def> {
    use ExchangeId::*;
    let a = |n: &str| Asset::new_from_exchange(n);
    // Kraken names btc "XBT" and usd "ZUSD": internal names shared with the other venues, venue names different
    let (kr_btc, kr_usd) = (Asset::new("btc", "XBT"), Asset::new("usd", "ZUSD"));
    vec![
        /* 0 */ Instrument::spot(Okx, name(Okx, "btc_usdt"), "BTC-USDT", Underlying::new(a("BTC"), a("USDT")), None),
        /* 1 */ Instrument::spot(BinanceSpot, name(BinanceSpot, "btc_usdt"), "BTCUSDT", Underlying::new(a("BTC"), a("USDT")), None),
        /* 2 */ Instrument::spot(Kraken, name(Kraken, "btc_usd"), "XBT/USD", Underlying::new(kr_btc.clone(), kr_usd.clone()), None),
        /* 3 */ Instrument::new(BinanceFuturesUsd, name(BinanceFuturesUsd, "btc_usdt_perp"), "BTCUSDT", Underlying::new(a("BTC"), a("USDT")), InstrumentQuoteAsset::UnderlyingQuote,
                    InstrumentKind::Perpetual(PerpetualContract { contract_size: Decimal::ONE, settlement_asset: a("USDT") }), spec(OrderQuantityUnits::Contract, 1)),
        /* 4 */ Instrument::spot(BinanceSpot, name(BinanceSpot, "eth_usdt"), "ETHUSDT", Underlying::new(a("ETH"), a("USDT")), spec(OrderQuantityUnits::Asset(a("ETH")), 2)),
        // quantity-unit asset that is referenced nowhere else
        /* 5 */ Instrument::spot(BinanceSpot, name(BinanceSpot, "eth_btc"), "ETHBTC", Underlying::new(a("ETH"), a("BTC")), spec(OrderQuantityUnits::Asset(a("BNB")), 3)),
        // settlement asset in kind (btc-margined), quoted in the base
        /* 6 */ Instrument::new(Okx, name(Okx, "btc_usd_fut_a"), "BTC-USD-250328", Underlying::new(a("BTC"), a("USD")), InstrumentQuoteAsset::UnderlyingBase,
                    InstrumentKind::Future(FutureContract { contract_size: Decimal::from(100), settlement_asset: a("BTC"), expiry: date(1_743_148_800) }), None),
        /* 7 */ Instrument::spot(Kraken, name(Kraken, "eth_btc"), "ETH/XBT", Underlying::new(a("ETH"), kr_btc.clone()), spec(OrderQuantityUnits::Quote, 4)),
        // settlement asset that is referenced nowhere else
        /* 8 */ Instrument::new(BinanceFuturesUsd, name(BinanceFuturesUsd, "eth_usdt_perp"), "ETHUSDT", Underlying::new(a("ETH"), a("USDT")), InstrumentQuoteAsset::UnderlyingQuote,
                    InstrumentKind::Perpetual(PerpetualContract { contract_size: Decimal::new(1, 1), settlement_asset: a("BUSD") }), None),
        // same assets as #6, different contract
        /* 9 */ Instrument::new(Okx, name(Okx, "btc_usd_fut_b"), "BTC-USD-250627", Underlying::new(a("BTC"), a("USD")), InstrumentQuoteAsset::UnderlyingBase,
                    InstrumentKind::Future(FutureContract { contract_size: Decimal::from(100), settlement_asset: a("BTC"), expiry: date(1_751_011_200) }), None),
        /* 10 */ Instrument::new(Okx, name(Okx, "btc_usd_opt"), "BTC-USD-250328-90000-C", Underlying::new(a("BTC"), a("USD")), InstrumentQuoteAsset::UnderlyingQuote,
                    InstrumentKind::Option(OptionContract { contract_size: Decimal::ONE, settlement_asset: a("USDC"), kind: OptionKind::Call, exercise: OptionExercise::European, expiry: date(1_743_148_800), strike: Decimal::from(90_000) }),
                    spec(OrderQuantityUnits::Asset(a("BTC")), 5)),
        /* 11 */ Instrument::spot(Kraken, name(Kraken, "eth_usdt"), "ETH/USDT", Underlying::new(a("ETH"), a("USDT")), None),
    ]
}

fn short(d: &Def) -> String {
    let k = match &d.kind {
        InstrumentKind::Spot => "spot".to_string(),
        InstrumentKind::Perpetual(c) => format!("perp(settle {})", c.settlement_asset.name_exchange),
        InstrumentKind::Future(c) => format!("future(settle {}, {})", c.settlement_asset.name_exchange, c.expiry.format("%y%m%d")),
        InstrumentKind::Option(c) => format!("option(settle {})", c.settlement_asset.name_exchange),
    };
    let u = match d.spec.as_ref().map(|s| &s.quantity.unit) { Some(OrderQuantityUnits::Asset(a)) => format!(" unit {}", a.name_exchange), Some(OrderQuantityUnits::Contract) => " unit contract".into(), Some(OrderQuantityUnits::Quote) => " unit quote".into(), None => String::new() };
    format!("{} {}({}/{}) {k}{u}", d.name_internal, d.exchange.as_str(), d.underlying.base.name_exchange, d.underlying.quote.name_exchange)
}
fn describe(defs: &[Def]) -> String { format!("instruments (insertion order): [{}]", defs.iter().map(short).collect::<Vec<_>>().join("; ")) }

/// every asset a definition refers to
fn assets_of(d: &Def) -> Vec<Asset> {
    let mut v = vec![d.underlying.base.clone(), d.underlying.quote.clone()];
    match &d.kind {
        InstrumentKind::Spot => {}
        InstrumentKind::Perpetual(c) => v.push(c.settlement_asset.clone()),
        InstrumentKind::Future(c) => v.push(c.settlement_asset.clone()),
        InstrumentKind::Option(c) => v.push(c.settlement_asset.clone()),
    }
    if let Some(InstrumentSpec { quantity: InstrumentSpecQuantity { unit: OrderQuantityUnits::Asset(a), .. }, .. }) = &d.spec { v.push(a.clone()); }
    v
}

struct Expected { exchanges: BTreeSet<ExchangeId>, assets: BTreeSet<ExchangeAsset<Asset>>, instruments: BTreeSet<Def> }
fn expected(defs: &[Def]) -> Expected {
    let mut e = Expected { exchanges: BTreeSet::new(), assets: BTreeSet::new(), instruments: BTreeSet::new() };
    for d in defs {
        e.exchanges.insert(d.exchange);
        for a in assets_of(d) { e.assets.insert(ExchangeAsset { exchange: d.exchange, asset: a }); }
        e.instruments.insert(d.clone());
    }
    e
}

/// the definition an indexed instrument stands for, resolving every key by POSITION (None: some key does not resolve to an
/// entry of the instrument's own exchange)
fn unindex(ix: &IndexedInstruments, inst: &Instrument<Keyed<ExchangeIndex, ExchangeId>, AssetIndex>) -> Option<Def> {
    let ex = ix.exchanges().get(inst.exchange.key.index())?.value;
    if ex != inst.exchange.value { return None; }
    inst.clone().map_exchange_key(ex).map_asset_key_with_lookup(|k: &AssetIndex| ix.assets().get(k.index()).filter(|ea| ea.value.exchange == ex).map(|ea| ea.value.asset.clone()).ok_or(())).ok()
}

struct St { seen: HashSet<&'static str>, n: u64, e2e_broken: bool }
impl St {
    fn fail(&mut self, label: &'static str, input: &dyn Fn() -> String, observed: String, expected: String) { if self.seen.insert(label) { report(label, input(), observed, expected); } }
}

const ALL_EXCHANGES: [ExchangeId; 7] = [ExchangeId::Okx, ExchangeId::BinanceSpot, ExchangeId::Kraken, ExchangeId::BinanceFuturesUsd, ExchangeId::Coinbase, ExchangeId::Mock, ExchangeId::Other];

/// index = position, distinctness, value sets, lookups, absent keys, references
fn check_structure(st: &mut St, defs: &[Def], ix: &IndexedInstruments, input: &dyn Fn() -> String) {
    let exp = expected(defs);
    let (xs, asx, ins) = (ix.exchanges(), ix.assets(), ix.instruments());
    // index == position
    for (p, k) in xs.iter().enumerate() { if k.key.index() != p { st.fail(L_POS, input, format!("exchange {} at position {p} keyed {}", k.value, k.key), format!("ExchangeIndex({p})")); } }
    for (p, k) in asx.iter().enumerate() { if k.key.index() != p { st.fail(L_POS, input, format!("asset {:?} at position {p} keyed {}", k.value, k.key), format!("AssetIndex({p})")); } }
    for (p, k) in ins.iter().enumerate() { if k.key.index() != p { st.fail(L_POS, input, format!("instrument {} at position {p} keyed {}", k.value.name_internal, k.key), format!("InstrumentIndex({p})")); } }
    // pairwise distinct (by the identity the look-ups use, and a fortiori by value)
    for (p, a) in xs.iter().enumerate() { for b in &xs[p + 1..] { if a.value == b.value || a.key == b.key { st.fail(L_DISTINCT, input, format!("exchanges {a:?} and {b:?}"), "distinct exchanges, distinct indices".into()); } } }
    for (p, a) in asx.iter().enumerate() { for b in &asx[p + 1..] { if (a.value.exchange == b.value.exchange && a.value.asset.name_internal == b.value.asset.name_internal) || a.key == b.key { st.fail(L_DISTINCT, input, format!("assets {a:?} and {b:?}"), "one entry per (exchange, asset)".into()); } } }
    for (p, a) in ins.iter().enumerate() { for b in &ins[p + 1..] { if (a.value.exchange.value == b.value.exchange.value && a.value.name_internal == b.value.name_internal) || a.key == b.key { st.fail(L_DISTINCT, input, format!("instruments {} {} and {} {}", a.key, a.value.name_internal, b.key, b.value.name_internal), "one entry per instrument".into()); } } }
    // value sets
    let got_x: BTreeSet<ExchangeId> = xs.iter().map(|k| k.value).collect();
    if got_x != exp.exchanges || xs.len() != exp.exchanges.len() { st.fail(L_SET, input, format!("exchanges {:?}", xs.iter().map(|k| k.value).collect::<Vec<_>>()), format!("exactly {:?}", exp.exchanges)); }
    let got_a: BTreeSet<ExchangeAsset<Asset>> = asx.iter().map(|k| k.value.clone()).collect();
    if got_a != exp.assets || asx.len() != exp.assets.len() {
        st.fail(L_SET, input, format!("{} assets {:?}", asx.len(), asx.iter().map(|k| format!("{}:{}", k.value.exchange.as_str(), k.value.asset.name_exchange)).collect::<Vec<_>>()), format!("exactly the {} assets {:?}", exp.assets.len(), exp.assets.iter().map(|k| format!("{}:{}", k.exchange.as_str(), k.asset.name_exchange)).collect::<Vec<_>>()));
    }
    let back: Vec<Option<Def>> = ins.iter().map(|k| unindex(ix, &k.value)).collect();
    let got_i: BTreeSet<Def> = back.iter().flatten().cloned().collect();
    if ins.len() != exp.instruments.len() || got_i != exp.instruments {
        let l = if back.iter().any(|b| b.is_none()) || (ins.len() == exp.instruments.len() && ins.iter().map(|k| (k.value.exchange.value, k.value.name_internal.clone())).collect::<BTreeSet<_>>() == exp.instruments.iter().map(|d| (d.exchange, d.name_internal.clone())).collect()) { L_REFS } else { L_SET };
        st.fail(l, input, format!("{} instruments standing for [{}]", ins.len(), back.iter().map(|b| b.as_ref().map(short).unwrap_or("<unresolvable keys>".into())).collect::<Vec<_>>().join("; ")), format!("exactly the {} distinct definitions", exp.instruments.len()));
    }
    // look-ups: index -> value -> index
    for k in xs {
        match ix.find_exchange(k.key) { Ok(v) if v == k.value => {} o => st.fail(L_INVERSE, input, format!("find_exchange({}) = {o:?}", k.key), format!("Ok({})", k.value)) }
        match ix.find_exchange_index(k.value) { Ok(i) if i == k.key => {} o => st.fail(L_INVERSE, input, format!("find_exchange_index({}) = {o:?}", k.value), format!("Ok({})", k.key)) }
    }
    for k in asx {
        match ix.find_asset(k.key) { Ok(v) if *v == k.value => {} o => st.fail(L_INVERSE, input, format!("find_asset({}) = {o:?}", k.key), format!("Ok({:?})", k.value)) }
        match ix.find_asset_index(k.value.exchange, &k.value.asset.name_internal) { Ok(i) if i == k.key => {} o => st.fail(L_INVERSE, input, format!("find_asset_index({}, {}) = {o:?}", k.value.exchange, k.value.asset.name_internal), format!("Ok({})", k.key)) }
    }
    for k in ins {
        match ix.find_instrument(k.key) { Ok(v) if *v == k.value => {} o => st.fail(L_INVERSE, input, format!("find_instrument({}) = {:?}", k.key, o.map(|i| i.name_internal.clone())), format!("Ok({})", k.value.name_internal)) }
        match ix.find_instrument_index(k.value.exchange.value, &k.value.name_internal) { Ok(i) if i == k.key => {} o => st.fail(L_INVERSE, input, format!("find_instrument_index({}, {}) = {o:?}", k.value.exchange.value, k.value.name_internal), format!("Ok({})", k.key)) }
    }
    // value -> index -> value, for every expected entity
    for x in &exp.exchanges { match ix.find_exchange_index(*x).and_then(|i| ix.find_exchange(i)) { Ok(v) if v == *x => {} o => st.fail(L_INVERSE, input, format!("find_exchange(find_exchange_index({x})) = {o:?}"), format!("Ok({x})")) } }
    for a in &exp.assets { match ix.find_asset_index(a.exchange, &a.asset.name_internal).and_then(|i| ix.find_asset(i)) { Ok(v) if v == a => {} o => st.fail(L_INVERSE, input, format!("find_asset(find_asset_index({}, {})) = {o:?}", a.exchange, a.asset.name_internal), format!("Ok({a:?})")) } }
    // references: every definition is found under its name, and every key inside resolves to what it was defined with
    for d in &exp.instruments {
        match ix.find_instrument_index(d.exchange, &d.name_internal).and_then(|i| ix.find_instrument(i).map(|v| (i, v))) {
            Ok((i, v)) => {
                let r = unindex(ix, v);
                if r.as_ref() != Some(d) {
                    st.fail(L_REFS, input, format!("{i} {}: exchange {:?}, underlying {:?}, kind {:?}, unit {:?} resolve to {}", v.name_internal, v.exchange, v.underlying, v.kind, v.spec.as_ref().map(|s| &s.quantity.unit), r.as_ref().map(short).unwrap_or("<keys that do not resolve to entries of the instrument's exchange>".into())), format!("the definition {}", short(d)));
                }
                // the same through the look-ups
                let by_lookup = |k: AssetIndex| ix.find_asset(k).ok().cloned();
                if by_lookup(v.underlying.base) != Some(ExchangeAsset { exchange: d.exchange, asset: d.underlying.base.clone() }) || by_lookup(v.underlying.quote) != Some(ExchangeAsset { exchange: d.exchange, asset: d.underlying.quote.clone() }) || ix.find_exchange(v.exchange.key).ok() != Some(d.exchange) {
                    st.fail(L_REFS, input, format!("{i} {}: find_exchange -> {:?}, find_asset(base) -> {:?}, find_asset(quote) -> {:?}", v.name_internal, ix.find_exchange(v.exchange.key), by_lookup(v.underlying.base), by_lookup(v.underlying.quote)), format!("{} {:?} {:?}", d.exchange, d.underlying.base, d.underlying.quote));
                }
            }
            Err(e) => st.fail(L_INVERSE, input, format!("find_instrument(find_instrument_index({}, {})) = Err({e})", d.exchange, d.name_internal), "Ok".into()),
        }
    }
    // absent keys
    for x in ALL_EXCHANGES { if !exp.exchanges.contains(&x) {
        if let Ok(i) = ix.find_exchange_index(x) { st.fail(L_ABSENT, input, format!("find_exchange_index({x}) = Ok({i})"), "Err (not in the collection)".into()); }
        // asset / instrument names that exist on OTHER exchanges
        for a in &exp.assets { if let Ok(i) = ix.find_asset_index(x, &a.asset.name_internal) { st.fail(L_ABSENT, input, format!("find_asset_index({x}, {}) = Ok({i})", a.asset.name_internal), "Err".into()); } }
        for d in &exp.instruments { if let Ok(i) = ix.find_instrument_index(x, &d.name_internal) { st.fail(L_ABSENT, input, format!("find_instrument_index({x}, {}) = Ok({i})", d.name_internal), "Err".into()); } }
    } }
    for x in &exp.exchanges {
        for a in &exp.assets { if !exp.assets.iter().any(|b| b.exchange == *x && b.asset.name_internal == a.asset.name_internal) { if let Ok(i) = ix.find_asset_index(*x, &a.asset.name_internal) { st.fail(L_ABSENT, input, format!("find_asset_index({x}, {}) = Ok({i}) (asset exists on {} only)", a.asset.name_internal, a.exchange), "Err".into()); } } }
        for d in &exp.instruments { if !exp.instruments.iter().any(|o| o.exchange == *x && o.name_internal == d.name_internal) { if let Ok(i) = ix.find_instrument_index(*x, &d.name_internal) { st.fail(L_ABSENT, input, format!("find_instrument_index({x}, {}) = Ok({i}) (instrument of {})", d.name_internal, d.exchange), "Err".into()); } } }
        if let Ok(i) = ix.find_asset_index(*x, &AssetNameInternal::from("nonexistent")) { st.fail(L_ABSENT, input, format!("find_asset_index({x}, nonexistent) = Ok({i})"), "Err".into()); }
        if let Ok(i) = ix.find_instrument_index(*x, &InstrumentNameInternal::from("nonexistent")) { st.fail(L_ABSENT, input, format!("find_instrument_index({x}, nonexistent) = Ok({i})"), "Err".into()); }
    }
    for off in [0usize, 1, 7] {
        if let Ok(v) = ix.find_exchange(ExchangeIndex(xs.len() + off)) { st.fail(L_ABSENT, input, format!("find_exchange({}) = Ok({v}) with {} exchanges", xs.len() + off, xs.len()), "Err".into()); }
        if let Ok(v) = ix.find_asset(AssetIndex(asx.len() + off)) { st.fail(L_ABSENT, input, format!("find_asset({}) = Ok({v:?}) with {} assets", asx.len() + off, asx.len()), "Err".into()); }
        if let Ok(v) = ix.find_instrument(InstrumentIndex(ins.len() + off)) { st.fail(L_ABSENT, input, format!("find_instrument({}) = Ok({}) with {} instruments", ins.len() + off, v.name_internal, ins.len()), "Err".into()); }
    }
    if ix.find_exchange(ExchangeIndex(usize::MAX)).is_ok() || ix.find_asset(AssetIndex(usize::MAX)).is_ok() || ix.find_instrument(InstrumentIndex(usize::MAX)).is_ok() { st.fail(L_ABSENT, input, "look-up of index usize::MAX succeeds".into(), "Err".into()); }
}

type State = EngineState<DefaultGlobalData, DefaultInstrumentMarketData>;

/// engine tables built by the real EngineStateBuilder / generate_* functions: the entry at index i is the entry of entity i
fn check_engine(st: &mut St, ix: &IndexedInstruments, input: &dyn Fn() -> String) {
    // a distinct initial balance per asset, handed to the builder BY NAME, in reverse order
    let bal = |i: usize| Balance::new(Decimal::from(1000 + i as i64), Decimal::from(500 + i as i64));
    let balances: Vec<(ExchangeId, AssetNameInternal, Balance)> = ix.assets().iter().rev().map(|k| (k.value.exchange, k.value.asset.name_internal.clone(), bal(k.key.index()))).collect();
    let built = catch_unwind(AssertUnwindSafe(|| -> State { EngineState::builder(ix, DefaultGlobalData, DefaultInstrumentMarketData::default).time_engine_start(t0()).balances(balances.iter().map(|(e, n, b)| (*e, n.clone(), *b))).build() }));
    let state = match built { Ok(s) => s, Err(_) => { st.fail(L_ENGINE, input, "EngineStateBuilder::build panicked".into(), "engine state".into()); return; } };
    let r = catch_unwind(AssertUnwindSafe(|| -> Option<(String, String)> {
        if state.instruments.0.len() != ix.instruments().len() { return Some((format!("{} instrument states", state.instruments.0.len()), format!("{} (one per instrument)", ix.instruments().len()))); }
        if state.assets.0.len() != ix.assets().len() { return Some((format!("{} asset states", state.assets.0.len()), format!("{} (one per exchange asset)", ix.assets().len()))); }
        if state.connectivity.exchanges.len() != ix.exchanges().len() { return Some((format!("{} connectivity states", state.connectivity.exchanges.len()), format!("{} (one per exchange)", ix.exchanges().len()))); }
        for k in ix.instruments() {
            let s = state.instruments.instrument_index(&k.key);
            let want = k.value.clone().map_exchange_key(k.value.exchange.key);
            if s.key != k.key || s.instrument != want { return Some((format!("instrument_index({}) holds the state of {} {}", k.key, s.key, s.instrument.name_internal), format!("the state of {} {}", k.key, k.value.name_internal))); }
            if !std::ptr::eq(s, state.instruments.instrument(&k.value.name_internal)) { return Some((format!("instrument({}) is not the entry at {}", k.value.name_internal, k.key), "same entry by name and by index".into())); }
            if s.position.current.is_some() || s.orders.0.len() != 0 { return Some((format!("instrument_index({}) not empty", k.key), "empty".into())); }
        }
        for k in ix.assets() {
            let s = state.assets.asset_index(&k.key);
            let key = ExchangeAsset { exchange: k.value.exchange, asset: k.value.asset.name_internal.clone() };
            let (tk, _) = state.assets.0.get_index(k.key.index()).unwrap();
            if s.asset != k.value.asset || *tk != key { return Some((format!("asset_index({}) holds the state of {}:{:?}", k.key, tk.exchange, s.asset), format!("the state of {}:{:?}", k.value.exchange, k.value.asset))); }
            if !std::ptr::eq(s, state.assets.asset(&key)) { return Some((format!("asset({key:?}) is not the entry at {}", k.key), "same entry by name and by index".into())); }
            if s.balance.map(|b| b.value) != Some(bal(k.key.index())) { return Some((format!("asset_index({}) balance {:?}", k.key, s.balance.map(|b| b.value)), format!("the initial balance given for {}:{} = {:?}", k.value.exchange, k.value.asset.name_internal, bal(k.key.index())))); }
        }
        for k in ix.exchanges() {
            let s = state.connectivity.connectivity_index(&k.key);
            let (tk, _) = state.connectivity.exchanges.get_index(k.key.index()).unwrap();
            if *tk != k.value || !std::ptr::eq(s, state.connectivity.connectivity(&k.value)) { return Some((format!("connectivity_index({}) holds the state of {tk}", k.key), format!("the state of {}", k.value))); }
        }
        // the stand-alone constructors
        let is = generate_indexed_instrument_states(ix, t0(), PositionManager::default, Orders::default, DefaultInstrumentMarketData::default);
        let asx = generate_empty_indexed_asset_states(ix);
        let cs = generate_empty_indexed_connectivity_states(ix);
        for k in ix.instruments() { let s = is.instrument_index(&k.key); if s.key != k.key || s.instrument.name_internal != k.value.name_internal || s.instrument.exchange != k.value.exchange.key { return Some((format!("generate_indexed_instrument_states: entry {} is {} {}", k.key, s.key, s.instrument.name_internal), format!("{} {}", k.key, k.value.name_internal))); } }
        for k in ix.assets() { if asx.asset_index(&k.key).asset != k.value.asset { return Some((format!("generate_empty_indexed_asset_states: entry {} is {:?}", k.key, asx.asset_index(&k.key).asset), format!("{:?}", k.value.asset))); } }
        for k in ix.exchanges() { if cs.exchanges.get_index(k.key.index()).map(|(e, _)| *e) != Some(k.value) { return Some((format!("generate_empty_indexed_connectivity_states: entry {} is {:?}", k.key, cs.exchanges.get_index(k.key.index()).map(|(e, _)| *e)), format!("{}", k.value))); } }
        if is.0.len() != ix.instruments().len() || asx.0.len() != ix.assets().len() || cs.exchanges.len() != ix.exchanges().len() { return Some(("stand-alone table constructors: wrong table length".into(), "one entry per entity".into())); }
        None
    }));
    match r {
        Ok(None) => {}
        Ok(Some((o, e))) => st.fail(L_ENGINE, input, o, e),
        Err(_) => st.fail(L_ENGINE, input, "panic while reading the engine tables by index / name".into(), "every index / name of the collection has an entry".into()),
    }
}

fn spot_only(ix: &IndexedInstruments, x: ExchangeId) -> bool { ix.instruments().iter().filter(|k| k.value.exchange.value == x).all(|k| matches!(k.value.kind, InstrumentKind::Spot)) }

/// execution links built by the real ExecutionBuilder (mock links for the exchanges in `link_mask` whose instruments the
/// MockExchange supports); with `e2e` the links are initialised on the runtime and one market order per linked exchange
/// is sent through the transmitter found under that exchange's INDEX: the answers have to come from that exchange.
fn check_exec(st: &mut St, rt: &tokio::runtime::Runtime, ix: &IndexedInstruments, link_mask: usize, e2e: bool, input: &dyn Fn() -> String) {
    let linked: Vec<bool> = ix.exchanges().iter().map(|k| link_mask >> k.key.index() & 1 == 1 && spot_only(ix, k.value)).collect();
    let input = &|| format!("{}; mock execution links for {:?}", input(), ix.exchanges().iter().filter(|k| linked[k.key.index()]).map(|k| k.value).collect::<Vec<_>>());
    let build = catch_unwind(AssertUnwindSafe(|| {
        let mut b = ExecutionBuilder::new(ix);
        // added in reverse index order
        for k in ix.exchanges().iter().rev() {
            if !linked[k.key.index()] { continue; }
            let balances = ix.assets().iter().filter(|a| a.value.exchange == k.value).map(|a| AssetBalance { asset: a.value.asset.name_exchange.clone(), balance: Balance::new(Decimal::from(1_000_000), Decimal::from(1_000_000)), time_exchange: t0() }).collect();
            let cfg = MockExecutionConfig { mocked_exchange: k.value, initial_state: UnindexedAccountSnapshot { exchange: k.value, balances, instruments: vec![] }, latency_ms: 0, fees_percent: Decimal::ZERO };
            b = b.add_mock(cfg, HistoricalClock::new(t0())).map_err(|e| e.to_string())?;
        }
        Ok::<_, String>(b.build())
    }));
    let build = match build { Ok(Ok(b)) => b, Ok(Err(e)) => { st.fail(L_EXEC, input, format!("ExecutionBuilder::add_mock failed: {e}"), "links".into()); return; } Err(_) => { st.fail(L_EXEC, input, "ExecutionBuilder panicked".into(), "links".into()); return; } };
    // static: slot x of the map is the slot of exchange x; Some iff linked
    let slots: Vec<(ExchangeId, bool)> = (&build.execution_tx_map).into_iter().map(|(e, tx)| (*e, tx.is_some())).collect();
    let want: Vec<(ExchangeId, bool)> = ix.exchanges().iter().map(|k| (k.value, linked[k.key.index()])).collect();
    if slots != want { st.fail(L_EXEC, input, format!("transmitter slots (exchange, linked) {slots:?}"), format!("{want:?}")); return; }
    for k in ix.exchanges() { if build.execution_tx_map.find(&k.key).is_ok() != linked[k.key.index()] { st.fail(L_EXEC, input, format!("find({}) ok = {}", k.key, !linked[k.key.index()]), format!("{}", linked[k.key.index()])); return; } }
    if build.execution_tx_map.find(&ExchangeIndex(ix.exchanges().len())).is_ok() { st.fail(L_EXEC, input, format!("find({}) succeeds", ix.exchanges().len()), "Err".into()); }
    if !e2e || st.e2e_broken || !linked.iter().any(|l| *l) { return; }
    let outcome: Result<(), (String, String)> = rt.block_on(async {
        let barter::execution::Execution { execution_txs, mut account_channel, handles } = build.init().await.map_err(|e| (format!("ExecutionBuild::init failed: {e}"), "initialised".to_string()))?;
        let mut next = async |what: &str| -> Result<AccountStreamEvent, (String, String)> {
            match tokio::time::timeout(Duration::from_millis(400), account_channel.rx.rx.recv()).await { Ok(Some(ev)) => Ok(ev), _ => Err((format!("no account event within 400 ms while waiting for {what}"), what.to_string())) }
        };
        // initial snapshots: one per linked exchange, carrying that exchange's index and exactly its assets
        let mut snap_seen = vec![false; linked.len()];
        for _ in 0..linked.iter().filter(|l| **l).count() {
            let ev = next("the initial account snapshot of every linked exchange").await?;
            let AccountStreamEvent::Item(ev) = ev else { return Err((format!("{ev:?}"), "account snapshot".into())); };
            let AccountEventKind::Snapshot(s) = &ev.kind else { return Err((format!("{ev:?}"), "account snapshot".into())); };
            let x = ev.exchange.index();
            if x >= linked.len() || !linked[x] || snap_seen[x] || s.exchange != ev.exchange { return Err((format!("snapshot for exchange {} / {}", ev.exchange, s.exchange), "one snapshot per linked exchange".into())); }
            snap_seen[x] = true;
            let got: BTreeSet<usize> = s.balances.iter().map(|b| b.asset.index()).collect();
            let want: BTreeSet<usize> = ix.assets().iter().filter(|a| a.value.exchange == ix.exchanges()[x].value).map(|a| a.key.index()).collect();
            if got != want { return Err((format!("snapshot of {} ({}) lists asset indices {got:?}", ev.exchange, ix.exchanges()[x].value), format!("its own assets {want:?}"))); }
        }
        for k in ix.exchanges() {
            let x = k.key.index();
            if !linked[x] { continue; }
            let Some(inst) = ix.instruments().iter().rev().find(|i| i.value.exchange.key == k.key) else { continue; };
            let cid = ClientOrderId::new(format!("c{x}"));
            let req = OrderRequestOpen { key: OrderKey { exchange: k.key, instrument: inst.key, strategy: StrategyId::new("c11"), cid: cid.clone() }, state: RequestOpen { side: Side::Buy, price: Decimal::from(10), quantity: Decimal::ONE, kind: OrderKind::Market, time_in_force: TimeInForce::ImmediateOrCancel } };
            let tx = execution_txs.find(&k.key).map_err(|e| (format!("find({}) = Err({e})", k.key), "transmitter".to_string()))?;
            tx.send(ExecutionRequest::Open(req)).map_err(|_| (format!("transmitter of {} closed", k.key), "open link".to_string()))?;
            let what = format!("the answers of {} ({}) to a market order for its instrument {} {} sent through the transmitter at {}", k.key, k.value, inst.key, inst.value.name_internal, k.key);
            let (mut order, mut trade, mut balance) = (false, false, false);
            while !(order && trade && balance) {
                let AccountStreamEvent::Item(ev) = next(&what).await? else { return Err(("reconnecting event".into(), what)); };
                if ev.exchange != k.key { return Err((format!("answer from {}: {:?}", ev.exchange, ev.kind), what)); }
                match &ev.kind {
                    AccountEventKind::OrderSnapshot(o) if o.0.key.cid == cid => {
                        if o.0.key.instrument != inst.key || o.0.key.exchange != k.key || matches!(o.0.state, OrderState::Inactive(InactiveOrderState::OpenFailed(_))) { return Err((format!("order answer {:?}", o.0), what)); }
                        order = true;
                    }
                    AccountEventKind::Trade(t) => { if t.instrument != inst.key { return Err((format!("fill for instrument {}", t.instrument), what)); } trade = true; }
                    AccountEventKind::BalanceSnapshot(b) => { if b.0.asset != inst.value.underlying.quote { return Err((format!("balance update for asset {}", b.0.asset), format!("{what}: balance of its quote asset {}", inst.value.underlying.quote))); } balance = true; }
                    other => return Err((format!("{other:?}"), what)),
                }
            }
        }
        for k in ix.exchanges() { if let Ok(tx) = execution_txs.find(&k.key) { let _ = tx.send(ExecutionRequest::Shutdown); } }
        for h in handles { h.abort(); }
        Ok(())
    });
    if let Err((o, e)) = outcome { st.e2e_broken = true; st.fail(L_EXEC, input, o, e); }
}

fn build_with(defs: &[Def], how: usize) -> IndexedInstruments {
    match how % 3 {
        0 => IndexedInstruments::new(defs.iter().cloned()),
        1 => defs.iter().cloned().fold(IndexedInstruments::builder(), |b, d| b.add_instrument(d)).build(),
        _ => defs.iter().cloned().collect(),
    }
}

struct Canon { by_mask: HashMap<u32, IndexedInstruments> }

/// one insertion sequence (indices into the pool, repetitions allowed)
fn one(st: &mut St, cn: &mut Canon, rt: &tokio::runtime::Runtime, pool: &[Def], seq: &[usize], how: usize, deep: bool) {
    st.n += 1;
    let mask = seq.iter().fold(0u32, |m, i| m | 1 << i);
    let defs: Vec<Def> = seq.iter().map(|i| pool[*i].clone()).collect();
    let input = &|| describe(&defs);
    let got = match catch_unwind(AssertUnwindSafe(|| build_with(&defs, how))) { Ok(g) => g, Err(_) => { st.fail(L_SET, input, "IndexedInstruments construction panicked".into(), "indexed collection".into()); return; } };
    let first = !cn.by_mask.contains_key(&mask);
    if first {
        // reference result for this SET of definitions: pool order, no repetitions
        let canon_defs: Vec<Def> = (0..pool.len()).filter(|i| mask >> i & 1 == 1).map(|i| pool[i].clone()).collect();
        match catch_unwind(AssertUnwindSafe(|| IndexedInstruments::new(canon_defs.iter().cloned()))) {
            Ok(c) => {
                let cin = &|| describe(&canon_defs);
                check_structure(st, &canon_defs, &c, cin);
                check_engine(st, &c, cin);
                let nx = c.exchanges().len();
                // every subset of linked exchanges for small collections, all + a rotating subset otherwise
                if nx <= 2 || deep { for lm in 0..(1usize << nx) { check_exec(st, rt, &c, lm, deep || lm + 1 == 1 << nx, cin); } }
                else { check_exec(st, rt, &c, (1 << nx) - 1, seq.len() <= 2, cin); check_exec(st, rt, &c, (mask as usize * 7 + 3) % (1 << nx), false, cin); }
                cn.by_mask.insert(mask, c);
            }
            Err(_) => { st.fail(L_SET, &|| describe(&canon_defs), "IndexedInstruments::new panicked".into(), "indexed collection".into()); return; }
        }
    }
    let canon = &cn.by_mask[&mask];
    if got != *canon {
        let repeated = seq.len() != mask.count_ones() as usize;
        let diff = if got.exchanges() != canon.exchanges() { format!("exchanges {:?}", got.exchanges()) } else if got.assets() != canon.assets() { format!("assets {:?}", got.assets().iter().map(|k| format!("{}={}:{}", k.key.index(), k.value.exchange.as_str(), k.value.asset.name_exchange)).collect::<Vec<_>>()) } else { format!("instruments {:?}", got.instruments().iter().map(|k| format!("{}={} (exchange {}, underlying {:?})", k.key.index(), k.value.name_internal, k.value.exchange.key, k.value.underlying)).collect::<Vec<_>>()) };
        let want = if got.exchanges() != canon.exchanges() { format!("exchanges {:?}", canon.exchanges()) } else if got.assets() != canon.assets() { format!("assets {:?}", canon.assets().iter().map(|k| format!("{}={}:{}", k.key.index(), k.value.exchange.as_str(), k.value.asset.name_exchange)).collect::<Vec<_>>()) } else { format!("instruments {:?}", canon.instruments().iter().map(|k| format!("{}={} (exchange {}, underlying {:?})", k.key.index(), k.value.name_internal, k.value.exchange.key, k.value.underlying)).collect::<Vec<_>>()) };
        st.fail(if repeated { L_DUP } else { L_ORDER }, input, diff, format!("{want} (as for the same definitions inserted once each in another order)"));
        // the differing result has to satisfy the structural clauses in its own right
        check_structure(st, &defs, &got, input);
        check_engine(st, &got, input);
    }
}

/// Collections OUTSIDE the input domain stated in the module header (only with VX_C11_KNOWN=1; every one of them fires).
/// What the unchanged tree does with them:
/// * two instruments on DIFFERENT exchanges with the same internal name ("btc_usdt" on Binance and on Kraken): `IndexedInstruments`
///   keeps both (look-ups are by (exchange, name)), but `generate_indexed_instrument_states` collects into an IndexMap keyed by the
///   internal name alone: the second instrument overwrites the first, the table is one entry short and every later index is shifted
///   (`instrument_index(i)` returns the state of instrument i+1 or panics);
/// * two different contracts on the same exchange and underlying built through `From<InstrumentConfig>` (which derives the internal
///   name from exchange + underlying only) share (exchange, internal name): both are indexed, `find_instrument_index` can only ever
///   return the first, and the engine table collides as above;
/// * the same asset of one exchange spelled with two venue names (Asset{btc,"BTC"} and Asset{btc,"XBT"}): two asset entries with the
///   same (exchange, internal name); every instrument resolves to the first, and the engine asset table (keyed by
///   (exchange, internal name)) is one entry short.
fn known_probe(st: &mut St, rt: &tokio::runtime::Runtime) {
    use ExchangeId::*;
    let a = |n: &str| Asset::new_from_exchange(n);
    let probes: Vec<(&str, Vec<Def>)> = vec![
        ("same instrument internal name on two exchanges", vec![
            Instrument::spot(Kraken, "btc_usdt", "XBT/USDT", Underlying::new(a("BTC"), a("USDT")), None),
            Instrument::spot(BinanceSpot, "btc_usdt", "BTCUSDT", Underlying::new(a("BTC"), a("USDT")), None),
            Instrument::spot(BinanceSpot, "eth_usdt", "ETHUSDT", Underlying::new(a("ETH"), a("USDT")), None),
        ]),
        ("two contracts of one underlying through From<InstrumentConfig>", {
            use barter::system::config::InstrumentConfig;
            use barter_instrument::{asset::name::AssetNameExchange, instrument::name::InstrumentNameExchange};
            let n = |s: &str| AssetNameExchange::from(s);
            let cfg = |name: &str, expiry: i64| InstrumentConfig { exchange: Okx, name_exchange: InstrumentNameExchange::from(name), underlying: Underlying::new(n("BTC"), n("USD")), quote: InstrumentQuoteAsset::UnderlyingQuote,
                kind: InstrumentKind::Future(FutureContract { contract_size: Decimal::ONE, settlement_asset: n("BTC"), expiry: date(expiry) }), spec: None };
            vec![Def::from(cfg("BTC-USD-250328", 1_743_148_800)), Def::from(cfg("BTC-USD-250627", 1_751_011_200))]
        }),
        ("one asset of an exchange under two venue names", vec![
            Instrument::spot(BinanceSpot, name(BinanceSpot, "btc_usdt"), "BTCUSDT", Underlying::new(Asset::new("btc", "BTC"), a("USDT")), None),
            Instrument::spot(BinanceSpot, name(BinanceSpot, "xbt_usdt"), "XBTUSDT", Underlying::new(Asset::new("btc", "XBT"), a("USDT")), None),
        ]),
    ];
    for (k, (what, defs)) in probes.into_iter().enumerate() {
        // probe 1 (two contracts of one underlying built through the official From<InstrumentConfig> path) is INSIDE the property's domain and is
        // a recorded KNOWN FINDING (see /verif/KNOWN_FINDINGS): it always runs and is reported under its own label, so that it masks nothing else.
        // Probes 0 and 2 (hand-made collections that reuse an internal name / spell one asset two ways) are outside the domain: only with VX_C11_KNOWN=1.
        if k != 1 && std::env::var("VX_C11_KNOWN").is_err() { continue; }
        st.n += 1;
        let input = &|| format!("[{what}] {}", describe(&defs));
        let Ok(ix) = catch_unwind(AssertUnwindSafe(|| IndexedInstruments::new(defs.iter().cloned()))) else { st.fail(L_SET, input, "IndexedInstruments::new panicked".into(), "indexed collection".into()); continue; };
        if k == 1 {
            // whatever one thinks of the shared name: the two contracts are different definitions, so each gets exactly one index and the result
            // does not depend on the order or on repetitions of the insertions (this much holds on the tree as found)
            for (variant, order) in [vec![1usize, 0], vec![0, 1, 0], vec![1, 0, 1, 0], vec![0, 0, 1]].into_iter().enumerate() {
                let seq: Vec<Def> = order.iter().map(|i| defs[*i].clone()).collect();
                let vin = &|| format!("[{what}; inserted in the order {order:?}] {}", describe(&seq));
                for how in [variant, variant + 1] {
                    match catch_unwind(AssertUnwindSafe(|| build_with(&seq, how))) {
                        Ok(got) if got == ix => {}
                        Ok(got) => st.fail(if order.len() > 2 { L_DUP } else { L_ORDER }, vin, format!("instruments {:?}", got.instruments().iter().map(|k| format!("{}={}", k.key.index(), k.value.name_exchange)).collect::<Vec<_>>()),
                                           format!("instruments {:?} (as for the two definitions inserted once each)", ix.instruments().iter().map(|k| format!("{}={}", k.key.index(), k.value.name_exchange)).collect::<Vec<_>>())),
                        Err(_) => st.fail(L_SET, vin, "IndexedInstruments construction panicked".into(), "indexed collection".into()),
                    }
                }
            }
            // the official config path: one label of its own
            let ins = ix.instruments();
            let clash = ins.len() == 2 && ins[0].value.name_internal == ins[1].value.name_internal && ins[0].value.exchange.value == ins[1].value.exchange.value;
            let states = catch_unwind(AssertUnwindSafe(|| barter::engine::state::instrument::generate_indexed_instrument_states::<_, _, _, ()>(&ix, DateTime::<Utc>::MIN_UTC, Default::default, Default::default, || ()))).ok();
            let short = states.as_ref().map(|s| s.0.len() != ins.len()).unwrap_or(true);
            let first = ix.find_instrument_index(ins[1].value.exchange.value, &ins[1].value.name_internal).ok();
            if clash || short || first != Some(ins[1].key) {
                report("C11.bounded.config_contracts_share_internal_name", input(), format!("{} indexed instruments share (exchange, internal name) {}; find_instrument_index(second) = {:?}; engine instrument table holds {:?} states", ins.len(), ins[0].value.name_internal, first, states.map(|s| s.0.len())), "distinct contracts get distinct internal names, one engine state each, and are found under their own index".into());
            }
            continue;
        }
        // report per probe, not once per label
        let mut local = St { seen: HashSet::new(), n: 0, e2e_broken: false };
        check_structure(&mut local, &defs, &ix, input);
        check_engine(&mut local, &ix, input);
        check_exec(&mut local, rt, &ix, usize::MAX, true, input);
    }
}

pub fn run(seed: u64, thorough: bool) -> u64 {
    let pool = pool();
    let p = pool.len();
    let rt = tokio::runtime::Builder::new_current_thread().enable_all().build().expect("tokio runtime");
    let mut st = St { seen: HashSet::new(), n: 0, e2e_broken: false };
    let mut cn = Canon { by_mask: HashMap::new() };
    // tasks of deliberately mis-wired links panic; keep stderr readable
    let hook = std::panic::take_hook();
    std::panic::set_hook(Box::new(|_| {}));
    // 1. every ordered tuple with repetition up to a small length (all insertion orders, all duplicate patterns)
    let max_len = if thorough { 5 } else { 4 };
    for len in 1..=max_len {
        for code in 0..p.pow(len as u32) {
            // quick tier: a fixed third of the longest tuples
            if !thorough && len == max_len && code % 3 != 0 { continue; }
            let mut c = code;
            let seq: Vec<usize> = (0..len).map(|_| { let i = c % p; c /= p; i }).collect();
            one(&mut st, &mut cn, &rt, &pool, &seq, code, thorough && len <= 3);
        }
    }
    // 1b. internal names without the exchange (shared by listings on different exchanges; (exchange, name) stays unique): the INDEX itself - dense
    // positions, look-ups by (exchange, name) and by index as mutual inverses, resolved references, independence of the insertion order - holds all
    // the same. (The engine tables keyed by the internal name alone are not built from these collections.)
    {
        let plain = plain_pool();
        for len in 1..=3usize {
            for code in 0..p.pow(len as u32) {
                let mut c = code;
                let seq: Vec<usize> = (0..len).map(|_| { let i = c % p; c /= p; i }).collect();
                let mask = seq.iter().fold(0u32, |m, i| m | 1 << i);
                let defs: Vec<Def> = seq.iter().map(|i| plain[*i].clone()).collect();
                let input = &|| format!("[internal names without the exchange] {}", describe(&defs));
                st.n += 1;
                let Ok(got) = catch_unwind(AssertUnwindSafe(|| build_with(&defs, code))) else { st.fail(L_SET, input, "IndexedInstruments construction panicked".into(), "indexed collection".into()); continue; };
                check_structure(&mut st, &defs, &got, input);
                let canon_defs: Vec<Def> = (0..p).filter(|i| mask >> i & 1 == 1).map(|i| plain[i].clone()).collect();
                if let Ok(canon) = catch_unwind(AssertUnwindSafe(|| IndexedInstruments::new(canon_defs.iter().cloned()))) {
                    if got != canon {
                        let repeated = seq.len() != mask.count_ones() as usize;
                        st.fail(if repeated { L_DUP } else { L_ORDER }, input, format!("instruments {:?}", got.instruments().iter().map(|k| format!("{}={}:{}", k.key.index(), k.value.exchange.value.as_str(), k.value.name_exchange)).collect::<Vec<_>>()),
                                format!("instruments {:?} (as for the same definitions inserted once each in pool order)", canon.instruments().iter().map(|k| format!("{}={}:{}", k.key.index(), k.value.exchange.value.as_str(), k.value.name_exchange)).collect::<Vec<_>>()));
                    }
                }
            }
        }
    }
    // 2. subsets of the pool, in pool order, reversed and rotated
    for mask in 1u32..(1 << p) {
        let seq: Vec<usize> = (0..p).filter(|i| mask >> i & 1 == 1).collect();
        // quick tier: a fixed eighth of the larger subsets (the small ones were all met in 1.)
        if !thorough && seq.len() > max_len && seq.len() < p - 1 && mask.wrapping_mul(0x9E37_79B9) >> 29 != 0 { continue; }
        one(&mut st, &mut cn, &rt, &pool, &seq, mask as usize, thorough && seq.len() >= p - 1);
        let rev: Vec<usize> = seq.iter().rev().copied().collect();
        one(&mut st, &mut cn, &rt, &pool, &rev, mask as usize + 1, false);
        let mut rot = seq.clone(); rot.rotate_left(seq.len() / 2);
        one(&mut st, &mut cn, &rt, &pool, &rot, mask as usize + 2, false);
    }
    // 3. seeded: larger multisets (with repetitions), several shuffles each
    let mut rng = Rng::seeded(seed, 11);
    for round in 0..if thorough { 60_000 } else { 700 } {
        let len = 5 + rng.below(14) as usize;
        let mut seq: Vec<usize> = (0..len).map(|_| rng.below(p as u64) as usize).collect();
        for s in 0..4 {
            one(&mut st, &mut cn, &rt, &pool, &seq, round + s, false);
            for i in (1..seq.len()).rev() { let j = rng.below(i as u64 + 1) as usize; seq.swap(i, j); }
        }
    }
    known_probe(&mut st, &rt);
    std::panic::set_hook(hook);
    st.n
}
