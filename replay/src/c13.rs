//! C13 bounded checker: "a market-data message for a subscribed market is normalised into an event that carries the key of
//! exactly the instrument subscribed under that market and the exchange's id, with price, amount, side and exchange time
//! as stated in the message; a message for a market that was not subscribed yields an unidentifiable-subscription error".
//! Joins the subscription side (REAL `WebSocketSubMapper::map` -> `Map<InstrumentKey>`) with the message side (REAL serde
//! deserialisation of venue JSON payloads into the connector's message type, REAL `StatelessTransformer` =
//! `Identifier<Option<SubscriptionId>>` + `Map::find` + `MarketIter::from`) for every (connector, kind) pair below and
//! three instrument flavours (MarketDataInstrument, Keyed<_, MarketDataInstrument>, MarketInstrumentData<_>).
//! The venue side (how a venue names a market in its messages, payload layouts, exchange ids) is modelled HERE,
//! independently of the connector code.
use crate::{eng::Rng, report};
use barter_data::{
    ExchangeWsStream, Identifier,
    error::DataError,
    event::{MarketEvent, MarketIter},
    exchange::{
        Connector, StreamSelector,
        binance::{book::l1::BinanceOrderBookL1, futures::BinanceFuturesUsd, spot::BinanceSpot, trade::BinanceTrade},
        bitmex::{Bitmex, trade::BitmexTrade},
        bybit::{futures::BybitPerpetualsUsd, message::BybitMessage, spot::BybitSpot},
        coinbase::{Coinbase, trade::CoinbaseTrade},
        gateio::{
            future::{GateioFuturesBtc, GateioFuturesUsd},
            option::GateioOptions,
            perpetual::{GateioPerpetualsBtc, GateioPerpetualsUsd, trade::GateioFuturesTrades},
            spot::{GateioSpot, trade::GateioSpotTrade},
        },
        kraken::{Kraken, book::l1::KrakenOrderBookL1, trade::KrakenTrades},
        okx::{Okx, trade::OkxTrades},
    },
    instrument::{InstrumentData, MarketInstrumentData},
    subscriber::mapper::{SubscriptionMapper, WebSocketSubMapper},
    subscription::{
        Subscription, SubscriptionKind, SubscriptionMeta,
        book::{OrderBookL1, OrderBooksL1},
        trade::{PublicTrade, PublicTrades},
    },
    transformer::{ExchangeTransformer, stateless::StatelessTransformer},
};
use barter_instrument::{
    Keyed, Side,
    exchange::ExchangeId,
    instrument::{
        kind::option::{OptionExercise, OptionKind},
        market_data::{
            MarketDataInstrument,
            kind::{MarketDataFutureContract, MarketDataInstrumentKind, MarketDataOptionContract},
        },
        name::InstrumentNameExchange,
    },
};
use barter_integration::{Transformer, subscription::SubscriptionId};
use chrono::{DateTime, SecondsFormat, TimeZone, Utc};
use rust_decimal::Decimal;
use serde::Deserialize;
use std::{collections::HashSet, fmt::Debug, marker::PhantomData, str::FromStr};

const L_SUBSCRIBED: &str = "C13.bounded.subscribed_market_yields_event";
const L_KEY: &str = "C13.bounded.event_carries_subscribed_instrument_key";
const L_EXCHANGE: &str = "C13.bounded.event_carries_exchange_id";
const L_FIELDS: &str = "C13.bounded.price_amount_side_as_stated";
const L_TIME: &str = "C13.bounded.exchange_time_as_stated";
const L_UNSUB: &str = "C13.bounded.unsubscribed_market_is_unidentifiable";

// ------------------------------------------------------------------------------------------------- venue side model
#[derive(Clone, Copy, Debug, PartialEq, Eq)]
enum V { BinanceSpot, BinanceFut, Okx, Kraken, Coinbase, BybitSpot, BybitPerp, GateSpot, GateFutUsd, GateFutBtc, GatePerpUsd, GatePerpBtc, GateOpt, Bitmex }
#[derive(Clone, Copy, Debug, PartialEq, Eq)]
enum SK { Trades, L1 }

#[derive(Clone, Copy, Debug, PartialEq, Eq)]
enum IK { Spot, Perp, Fut(i64), Opt { call: bool, strike: i64, expiry: i64 } }
#[derive(Clone, Copy, Debug, PartialEq, Eq)]
struct Inst { base: &'static str, quote: &'static str, kind: IK }

const E1: i64 = 1_735_286_400; // 2024-12-27 08:00:00 UTC (Friday)
const E2: i64 = 1_743_148_800; // 2025-03-28 08:00:00 UTC (Friday)
const E3: i64 = 1_798_790_400; // 2027-01-01 08:00:00 UTC (Friday; ISO week-year 2026)
fn date(ts: i64) -> DateTime<Utc> { Utc.timestamp_opt(ts, 0).unwrap() }

impl Inst {
    fn kind(&self) -> MarketDataInstrumentKind {
        match self.kind {
            IK::Spot => MarketDataInstrumentKind::Spot,
            IK::Perp => MarketDataInstrumentKind::Perpetual,
            IK::Fut(e) => MarketDataInstrumentKind::Future(MarketDataFutureContract { expiry: date(e) }),
            IK::Opt { call, strike, expiry } => MarketDataInstrumentKind::Option(MarketDataOptionContract {
                kind: if call { OptionKind::Call } else { OptionKind::Put }, exercise: OptionExercise::European, expiry: date(expiry), strike: Decimal::from(strike),
            }),
        }
    }
    fn mdi(&self) -> MarketDataInstrument { MarketDataInstrument::new(self.base, self.quote, self.kind()) }
}

fn exchange_id(v: V) -> ExchangeId {
    match v {
        V::BinanceSpot => ExchangeId::BinanceSpot, V::BinanceFut => ExchangeId::BinanceFuturesUsd, V::Okx => ExchangeId::Okx, V::Kraken => ExchangeId::Kraken,
        V::Coinbase => ExchangeId::Coinbase, V::BybitSpot => ExchangeId::BybitSpot, V::BybitPerp => ExchangeId::BybitPerpetualsUsd, V::GateSpot => ExchangeId::GateioSpot,
        V::GateFutUsd => ExchangeId::GateioFuturesUsd, V::GateFutBtc => ExchangeId::GateioFuturesBtc, V::GatePerpUsd => ExchangeId::GateioPerpetualsUsd,
        V::GatePerpBtc => ExchangeId::GateioPerpetualsBtc, V::GateOpt => ExchangeId::GateioOptions, V::Bitmex => ExchangeId::Bitmex,
    }
}

/// the name under which the venue reports the market of `i` in its messages
fn venue_market(v: V, i: &Inst) -> String {
    let (b, q) = (i.base.to_uppercase(), i.quote.to_uppercase());
    let cp = |call: bool| if call { "C" } else { "P" };
    match v {
        V::BinanceSpot | V::BinanceFut | V::BybitSpot | V::BybitPerp | V::Bitmex => format!("{b}{q}"),
        V::Kraken => format!("{b}/{q}"),
        V::Coinbase => format!("{b}-{q}"),
        V::Okx => match i.kind {
            IK::Spot => format!("{b}-{q}"),
            IK::Perp => format!("{b}-{q}-SWAP"),
            IK::Fut(e) => format!("{b}-{q}-{}", date(e).format("%y%m%d")),
            IK::Opt { call, strike, expiry } => format!("{b}-{q}-{}-{strike}-{}", date(expiry).format("%y%m%d"), cp(call)),
        },
        V::GateSpot | V::GateFutUsd | V::GateFutBtc | V::GatePerpUsd | V::GatePerpBtc | V::GateOpt => match i.kind {
            IK::Spot | IK::Perp => format!("{b}_{q}"),
            IK::Fut(e) => format!("{b}_{q}_QUARTERLY_{}", date(e).format("%Y%m%d")),
            IK::Opt { call, strike, expiry } => format!("{b}_{q}-{}-{strike}-{}", date(expiry).format("%Y%m%d"), cp(call)),
        },
    }
}

#[derive(Clone, Debug)]
struct Tr { price: &'static str, amount: &'static str, buy: bool, ts_ms: i64, id: u64 }
#[derive(Clone, Debug)]
struct Msg { market: String, trades: Vec<Tr>, bid: (&'static str, &'static str), ask: (&'static str, &'static str), ts_ms: i64 }

fn multi(v: V) -> bool { !matches!(v, V::BinanceSpot | V::BinanceFut | V::Coinbase | V::GateSpot) }
/// does the L1 message of the venue carry an exchange time?
fn l1_has_time(v: V) -> bool { v != V::BinanceSpot }
fn rfc(ts_ms: i64) -> String { Utc.timestamp_millis_opt(ts_ms).unwrap().to_rfc3339_opts(SecondsFormat::Millis, true) }

fn payload(v: V, sk: SK, m: &Msg) -> String {
    use serde_json::{Value, json};
    let mk = &m.market;
    let num = |s: &str| -> Value { serde_json::from_str(s).unwrap() };
    let side_lc = |t: &Tr| if t.buy { "buy" } else { "sell" };
    let side_uc = |t: &Tr| if t.buy { "Buy" } else { "Sell" };
    let t0 = &m.trades[0];
    match (v, sk) {
        (V::BinanceSpot, SK::Trades) => json!({"e":"trade","E":t0.ts_ms + 3,"s":mk,"t":t0.id,"p":t0.price,"q":t0.amount,"b":1,"a":2,"T":t0.ts_ms,"m":!t0.buy,"M":true}),
        (V::BinanceFut, SK::Trades) => json!({"e":"trade","E":t0.ts_ms + 3,"T":t0.ts_ms,"s":mk,"t":t0.id,"p":t0.price,"q":t0.amount,"X":"MARKET","m":!t0.buy}),
        (V::BinanceSpot, SK::L1) => json!({"u":22606535573u64,"s":mk,"b":m.bid.0,"B":m.bid.1,"a":m.ask.0,"A":m.ask.1}),
        (V::BinanceFut, SK::L1) => json!({"e":"bookTicker","u":22606535573u64,"E":m.ts_ms + 2,"T":m.ts_ms,"s":mk,"b":m.bid.0,"B":m.bid.1,"a":m.ask.0,"A":m.ask.1}),
        (V::Okx, SK::Trades) => json!({"arg":{"channel":"trades","instId":mk},"data":m.trades.iter().map(|t| json!({"instId":mk,"tradeId":t.id.to_string(),"px":t.price,"sz":t.amount,"side":side_lc(t),"ts":t.ts_ms.to_string()})).collect::<Vec<_>>()}),
        (V::Kraken, SK::Trades) => json!([0, m.trades.iter().map(|t| json!([t.price, t.amount, format!("{}.{:03}000", t.ts_ms / 1000, t.ts_ms % 1000), if t.buy { "b" } else { "s" }, "l", ""])).collect::<Vec<_>>(), "trade", mk]),
        (V::Kraken, SK::L1) => json!([0, [m.bid.0, m.ask.0, format!("{}.{:03}000", m.ts_ms / 1000, m.ts_ms % 1000), m.bid.1, m.ask.1], "spread", mk]),
        (V::Coinbase, SK::Trades) => json!({"type":"match","trade_id":t0.id,"sequence":50,"maker_order_id":"ac928c66-ca53-498f-9c13-a110027a60e8","taker_order_id":"132fb6ae-456b-4654-b4e0-d681ac05cea1","time":rfc(t0.ts_ms),"product_id":mk,"size":t0.amount,"price":t0.price,"side":side_lc(t0)}),
        (V::BybitSpot | V::BybitPerp, SK::Trades) => json!({"topic":format!("publicTrade.{mk}"),"type":"snapshot","ts":t0.ts_ms + 1,"data":m.trades.iter().map(|t| json!({"T":t.ts_ms,"s":mk,"S":side_uc(t),"v":t.amount,"p":t.price,"L":"PlusTick","i":format!("id-{}", t.id),"BT":false})).collect::<Vec<_>>()}),
        (V::GateSpot, SK::Trades) => json!({"time":t0.ts_ms / 1000,"time_ms":t0.ts_ms + 9,"channel":"spot.trades","event":"update","result":{"id":t0.id,"create_time":t0.ts_ms / 1000,"create_time_ms":format!("{}.4578", t0.ts_ms),"side":side_lc(t0),"currency_pair":mk,"amount":t0.amount,"price":t0.price}}),
        (V::GateFutUsd | V::GateFutBtc | V::GatePerpUsd | V::GatePerpBtc | V::GateOpt, SK::Trades) => json!({"time":t0.ts_ms / 1000,"time_ms":t0.ts_ms + 9,"channel":if v == V::GateOpt { "options.trades" } else { "futures.trades" },"event":"update",
            "result":m.trades.iter().map(|t| json!({"contract":mk,"create_time":t.ts_ms / 1000,"create_time_ms":t.ts_ms,"id":t.id,"price":t.price,"size":num(&format!("{}{}", if t.buy { "" } else { "-" }, t.amount))})).collect::<Vec<_>>()}),
        (V::Bitmex, SK::Trades) => json!({"table":"trade","action":"insert","data":m.trades.iter().map(|t| json!({"timestamp":rfc(t.ts_ms),"symbol":mk,"side":side_uc(t),"size":num(t.amount),"price":num(t.price),"tickDirection":"MinusTick","trdMatchID":format!("id-{}", t.id),"grossValue":814184,"homeNotional":0.5,"foreignNotional":200,"trdType":"Regular"})).collect::<Vec<_>>()}),
        other => panic!("no payload layout for {other:?}"),
    }.to_string()
}

// ------------------------------------------------------------------------------------------------- observation
#[derive(Debug, PartialEq)]
enum Fields { Trade { price: f64, amount: f64, side: Side }, L1 { bid: Option<(Decimal, Decimal)>, ask: Option<(Decimal, Decimal)> } }
trait Observe { fn fields(&self) -> Fields; }
impl Observe for PublicTrade { fn fields(&self) -> Fields { Fields::Trade { price: self.price, amount: self.amount, side: self.side } } }
impl Observe for OrderBookL1 {
    fn fields(&self) -> Fields { Fields::L1 { bid: self.best_bid.map(|l| (l.price, l.amount)), ask: self.best_ask.map(|l| (l.price, l.amount)) } }
}

/// what the venue states in message `m` (one entry per normalised event)
fn stated(v: V, sk: SK, m: &Msg) -> Vec<(Fields, Option<i64>)> {
    let d = |s: &str| Decimal::from_str(s).unwrap();
    match sk {
        SK::L1 => vec![(Fields::L1 { bid: Some((d(m.bid.0), d(m.bid.1))), ask: Some((d(m.ask.0), d(m.ask.1))) }, l1_has_time(v).then_some(m.ts_ms))],
        SK::Trades => m.trades.iter().take(if multi(v) { usize::MAX } else { 1 }).map(|t| {
            let amount: f64 = t.amount.parse().unwrap();
            // Gateio contract trades state a signed size: sign = taker side
            let signed = matches!(v, V::GateFutUsd | V::GateFutBtc | V::GatePerpUsd | V::GatePerpBtc | V::GateOpt) && !t.buy;
            (Fields::Trade { price: t.price.parse().unwrap(), amount: if signed { -amount } else { amount }, side: if t.buy { Side::Buy } else { Side::Sell } }, Some(t.ts_ms))
        }).collect(),
    }
}

type Outs<K, E> = Vec<Result<Vec<Result<MarketEvent<K, E>, DataError>>, String>>;

/// subscription side + message side, all real code
fn drive<Ex, I, K, M>(subs: &[Subscription<Ex, I, K>], payloads: &[String]) -> Result<Outs<I::Key, K::Event>, String>
where
    Ex: Connector + Send,
    I: InstrumentData,
    K: SubscriptionKind + Send,
    Subscription<Ex, I, K>: Identifier<Ex::Channel> + Identifier<Ex::Market>,
    M: Identifier<Option<SubscriptionId>> + for<'de> Deserialize<'de> + Send,
    MarketIter<I::Key, K::Event>: From<(ExchangeId, I::Key, M)>,
{
    let SubscriptionMeta { instrument_map, .. } = WebSocketSubMapper::map::<Ex, I, K>(subs);
    let (tx, _rx) = tokio::sync::mpsc::unbounded_channel();
    let mut tf = futures::executor::block_on(<StatelessTransformer<Ex, I::Key, K, M> as ExchangeTransformer<Ex, I::Key, K>>::init(instrument_map, &[], tx)).map_err(|e| e.to_string())?;
    Ok(payloads.iter().map(|p| serde_json::from_str::<M>(p).map(|m| tf.transform(m)).map_err(|e| e.to_string())).collect())
}

struct St { seen: HashSet<&'static str>, n: u64 }

fn judge<K: PartialEq + Debug, E: Observe>(st: &mut St, v: V, sk: SK, flavour: &str, list: &[Inst], keys: &[K], msgs: &[Msg], payloads: &[String], outs: Result<Outs<K, E>, String>) {
    let input = |k: usize| format!("{v:?} {sk:?}, instruments as {flavour}; subscriptions (in order) [{}]; message for market {:?}: {}", list.iter().enumerate().map(|(j, i)| format!("#{j} {}/{} {:?} (venue market {})", i.base, i.quote, i.kind, venue_market(v, i))).collect::<Vec<_>>().join(", "), msgs[k].market, payloads[k]);
    let outs = match outs { Ok(o) => o, Err(e) => { if st.seen.insert(L_SUBSCRIBED) { report(L_SUBSCRIBED, input(0), format!("transformer initialisation failed: {e}"), "transformer".into()); } return; } };
    for (k, (m, out)) in msgs.iter().zip(outs).enumerate() {
        st.n += 1;
        let mut fail = |label: &'static str, observed: String, expected: String| { if st.seen.insert(label) { report(label, input(k), observed, expected); } };
        let subscribed: Vec<usize> = (0..list.len()).filter(|j| venue_market(v, &list[*j]) == m.market).collect();
        let out = match out { Ok(o) => o, Err(e) => { fail(if subscribed.is_empty() { L_UNSUB } else { L_SUBSCRIBED }, format!("payload rejected by the connector's message type: {e}"), "deserialised".into()); continue; } };
        if subscribed.is_empty() {
            let ok = out.len() == 1 && matches!(&out[0], Err(DataError::Socket(e)) if e.contains("unidentifiable"));
            if !ok {
                fail(L_UNSUB, format!("{:?}", out.iter().map(|r| match r { Ok(ev) => format!("event for instrument {:?}", ev.instrument), Err(e) => format!("error {e:?}") }).collect::<Vec<_>>()), "one unidentifiable-subscription error, no event".into());
            }
            continue;
        }
        let want = stated(v, sk, m);
        if out.len() != want.len() || out.iter().any(|r| r.is_err()) {
            fail(L_SUBSCRIBED, format!("{} outputs: {:?}", out.len(), out.iter().map(|r| match r { Ok(ev) => format!("event for {:?}", ev.instrument), Err(e) => format!("error {e:?}") }).collect::<Vec<_>>()), format!("{} event(s) for instrument #{:?}", want.len(), subscribed));
            continue;
        }
        for (ev, (fields, time)) in out.into_iter().flatten().zip(want) {
            if !subscribed.iter().any(|j| keys[*j] == ev.instrument) {
                fail(L_KEY, format!("event carries instrument key {:?}", ev.instrument), format!("key of subscription #{:?}: {:?}", subscribed, subscribed.iter().map(|j| &keys[*j]).collect::<Vec<_>>()));
            }
            if ev.exchange != exchange_id(v) { fail(L_EXCHANGE, format!("{:?}", ev.exchange), format!("{:?}", exchange_id(v))); }
            if ev.kind.fields() != fields { fail(L_FIELDS, format!("{:?}", ev.kind.fields()), format!("{fields:?}")); }
            if let Some(ts) = time {
                // Kraken and Gateio spot state the time as a decimal fraction: allow the float rounding
                let tol = if matches!(v, V::Kraken | V::GateSpot) { 1 } else { 0 };
                if (ev.time_exchange.timestamp_millis() - ts).abs() > tol { fail(L_TIME, format!("time_exchange {} ms", ev.time_exchange.timestamp_millis()), format!("{ts} ms")); }
            }
        }
    }
}

const PRICES: [(&str, &str); 5] = [("60000.5", "0.25"), ("0.0125", "100000"), ("1287", "3"), ("24564.5", "200"), ("150.25", "12")];

/// messages for a subscription list: every subscribed market, every market of the universe that is not subscribed, and
/// near misses of the first subscribed market
fn messages(v: V, list: &[Inst], universe: &[Inst], salt: usize) -> Vec<Msg> {
    let mut markets: Vec<String> = vec![];
    for i in list.iter().chain(universe.iter()) { let m = venue_market(v, i); if !markets.contains(&m) { markets.push(m); } }
    let first = venue_market(v, &list[0]);
    for near in [first.to_lowercase(), format!("{first}X"), first[1..].to_string(), format!("{first}-C"), format!("{first}_USDT")] { if !markets.contains(&near) { markets.push(near); } }
    markets.into_iter().enumerate().map(|(k, market)| {
        let n = 1 + (k + salt) % 3;
        let trades = (0..n).map(|j| { let (price, amount) = PRICES[(k + j + salt) % PRICES.len()]; Tr { price, amount, buy: (k + j + salt) % 2 == 0, ts_ms: 1_669_843_487_724 + (k * 1000 + j * 7 + salt) as i64, id: (1000 + k * 10 + j) as u64 } }).collect();
        let (bp, ba) = PRICES[(k + salt) % PRICES.len()];
        let (ap, aa) = PRICES[(k + salt + 1) % PRICES.len()];
        Msg { market, trades, bid: (bp, ba), ask: (ap, aa), ts_ms: 1_669_843_487_724 + (k * 1000 + salt) as i64 }
    }).collect()
}

fn same<T>(_: PhantomData<T>, _: PhantomData<T>) {}
/// clauses that failed on the tree as found (Kraken lower-case computed pair, OKX ISO week-year expiry): both were repaired by `fix:` commits
/// (see /verif/KNOWN_FINDINGS) and are checked unconditionally - a regression is reported like any other violation
fn known() -> bool { true }

macro_rules! venue {
    ($st:expr, $lists:expr, $v:expr, $sk:expr, $Ex:ty, $K:ty, $kind:expr, $M:ty, $computed_markets:expr) => {{
        // the transformer driven below is the one the connector's StreamSelector uses
        same(PhantomData::<<$Ex as StreamSelector<MarketDataInstrument, $K>>::Stream>, PhantomData::<ExchangeWsStream<StatelessTransformer<$Ex, MarketDataInstrument, $K, $M>>>);
        let (v, sk) = ($v, $sk);
        let universe = universe(v);
        for (salt, list) in $lists(&universe).into_iter().enumerate() {
            let msgs = messages(v, &list, &universe, salt);
            let payloads: Vec<String> = msgs.iter().map(|m| payload(v, sk, m)).collect();
            if $computed_markets {
                let keys: Vec<MarketDataInstrument> = list.iter().map(|i| i.mdi()).collect();
                let subs: Vec<Subscription<$Ex, MarketDataInstrument, $K>> = keys.iter().map(|i| Subscription::new(<$Ex>::default(), i.clone(), $kind)).collect();
                judge($st, v, sk, "MarketDataInstrument (key = the instrument)", &list, &keys, &msgs, &payloads, drive::<$Ex, MarketDataInstrument, $K, $M>(&subs, &payloads));
                let keys: Vec<u32> = (0..list.len() as u32).collect();
                let subs: Vec<Subscription<$Ex, Keyed<u32, MarketDataInstrument>, $K>> = list.iter().zip(&keys).map(|(i, k)| Subscription::new(<$Ex>::default(), Keyed::new(*k, i.mdi()), $kind)).collect();
                judge($st, v, sk, "Keyed<#, MarketDataInstrument>", &list, &keys, &msgs, &payloads, drive::<$Ex, Keyed<u32, MarketDataInstrument>, $K, $M>(&subs, &payloads));
            }
            let keys: Vec<u32> = (0..list.len() as u32).collect();
            let subs: Vec<Subscription<$Ex, MarketInstrumentData<u32>, $K>> = list.iter().zip(&keys).map(|(i, k)| Subscription::new(<$Ex>::default(), MarketInstrumentData { key: *k, name_exchange: InstrumentNameExchange::new(venue_market(v, i)), kind: i.kind() }, $kind)).collect();
            judge($st, v, sk, "MarketInstrumentData<#> (name_exchange = venue market)", &list, &keys, &msgs, &payloads, drive::<$Ex, MarketInstrumentData<u32>, $K, $M>(&subs, &payloads));
        }
    }};
}

fn universe(v: V) -> Vec<Inst> {
    let pairs: [(&'static str, &'static str); 7] = [("btc", "usdt"), ("BtC", "usdt"), ("btcu", "sdt"), ("1000btc", "usdt"), ("btc", "usd"), ("eth", "usdt"), ("eth", "BTC")];
    let of = |kind: IK, n: usize| pairs.iter().take(n).map(|(base, quote)| Inst { base, quote, kind }).collect::<Vec<_>>();
    let opt = |base, call, strike, expiry| Inst { base, quote: "usdt", kind: IK::Opt { call, strike, expiry } };
    match v {
        V::BinanceSpot | V::Kraken | V::Coinbase | V::BybitSpot | V::GateSpot => of(IK::Spot, 7),
        V::BinanceFut | V::BybitPerp | V::GatePerpUsd | V::GatePerpBtc | V::Bitmex => of(IK::Perp, 7),
        V::GateFutUsd | V::GateFutBtc => { let mut u = of(IK::Fut(E1), 5); u.push(Inst { base: "btc", quote: "usdt", kind: IK::Fut(E2) }); u.push(Inst { base: "eth", quote: "usdt", kind: IK::Fut(E2) }); u }
        V::GateOpt => vec![opt("btc", true, 35000, E1), opt("BtC", true, 35000, E1), opt("btc", false, 35000, E1), opt("btc", true, 350000, E1), opt("btc", true, 3500, E1), opt("btc", true, 35000, E2), opt("eth", true, 35000, E1)],
        V::Okx => { let mut u = of(IK::Spot, 4); u.push(Inst { base: "btc", quote: "usdt", kind: IK::Perp }); u.push(Inst { base: "btc", quote: "usdt", kind: IK::Fut(E1) }); u.push(Inst { base: "btc", quote: "usdt", kind: IK::Fut(E2) }); 
            // FIXED DEFECT (was a finding on the tree as found; now always checked): okx_market formats a future's / option's expiry with
            // chrono "%g%m%d" (%g = ISO-8601 WEEK-year). For an expiry whose ISO week-year differs from its calendar year (Friday 2027-01-01:
            // ISO week 53 of 2026) the subscription is registered under "BTC-USDT-260101" while the venue names the market "BTC-USDT-270101":
            // every message for the subscribed contract is answered with Unidentifiable.
            if known() { u.push(Inst { base: "btc", quote: "usdt", kind: IK::Fut(E3) }); }
            u.push(opt("btc", true, 35000, E1)); u.push(opt("btc", false, 35000, E1)); u.push(opt("btc", true, 350000, E1)); u }
    }
}

pub fn run(seed: u64, thorough: bool) -> u64 {
    let mut st = St { seen: HashSet::new(), n: 0 };
    let max_len = if thorough { 4 } else { 3 };
    let mut rng = Rng::seeded(seed, 13);
    let mut lists = |u: &Vec<Inst>| -> Vec<Vec<Inst>> {
        let mut out = vec![];
        // every ordered list (repetitions allowed) up to a small length
        for len in 1..=max_len {
            let width = if len == 4 { u.len().min(6) } else { u.len() };
            for code in 0..width.pow(len as u32) { let mut c = code; out.push((0..len).map(|_| { let i = u[c % width]; c /= width; i }).collect()); }
        }
        // longer seeded random lists
        for _ in 0..if thorough { 2_000 } else { 40 } { let len = 4 + rng.below(6) as usize; out.push((0..len).map(|_| u[rng.below(u.len() as u64) as usize]).collect()); }
        out
    };
    let st = &mut st;
    venue!(st, lists, V::BinanceSpot, SK::Trades, BinanceSpot, PublicTrades, PublicTrades, BinanceTrade, true);
    venue!(st, lists, V::BinanceFut, SK::Trades, BinanceFuturesUsd, PublicTrades, PublicTrades, BinanceTrade, true);
    venue!(st, lists, V::BinanceSpot, SK::L1, BinanceSpot, OrderBooksL1, OrderBooksL1, BinanceOrderBookL1, true);
    venue!(st, lists, V::BinanceFut, SK::L1, BinanceFuturesUsd, OrderBooksL1, OrderBooksL1, BinanceOrderBookL1, true);
    venue!(st, lists, V::Okx, SK::Trades, Okx, PublicTrades, PublicTrades, OkxTrades, true);
    // FIXED DEFECT (was a finding on the tree as found; now always checked): kraken_market() lower-cases the computed market
    // ("btc/usdt") while Kraken names the pair in upper case in its messages ("XBT/USD", see the connector's own payload examples), and the
    // message side builds the SubscriptionId from the pair verbatim. With MarketDataInstrument / Keyed<_, MarketDataInstrument> subscriptions
    // a trade / spread message for the SUBSCRIBED pair [0,[[..]],"trade","BTC/USDT"] is answered with Unidentifiable("trade|BTC/USDT"), and only a
    // (never sent) lower-case pair would be attributed. Kraken is therefore driven with MarketInstrumentData (verbatim venue names) only.
    venue!(st, lists, V::Kraken, SK::Trades, Kraken, PublicTrades, PublicTrades, KrakenTrades, known());
    venue!(st, lists, V::Kraken, SK::L1, Kraken, OrderBooksL1, OrderBooksL1, KrakenOrderBookL1, known());
    venue!(st, lists, V::Coinbase, SK::Trades, Coinbase, PublicTrades, PublicTrades, CoinbaseTrade, true);
    venue!(st, lists, V::BybitSpot, SK::Trades, BybitSpot, PublicTrades, PublicTrades, BybitMessage, true);
    venue!(st, lists, V::BybitPerp, SK::Trades, BybitPerpetualsUsd, PublicTrades, PublicTrades, BybitMessage, true);
    venue!(st, lists, V::GateSpot, SK::Trades, GateioSpot, PublicTrades, PublicTrades, GateioSpotTrade, true);
    venue!(st, lists, V::GateFutUsd, SK::Trades, GateioFuturesUsd, PublicTrades, PublicTrades, GateioFuturesTrades, true);
    venue!(st, lists, V::GateFutBtc, SK::Trades, GateioFuturesBtc, PublicTrades, PublicTrades, GateioFuturesTrades, true);
    venue!(st, lists, V::GatePerpUsd, SK::Trades, GateioPerpetualsUsd, PublicTrades, PublicTrades, GateioFuturesTrades, true);
    venue!(st, lists, V::GatePerpBtc, SK::Trades, GateioPerpetualsBtc, PublicTrades, PublicTrades, GateioFuturesTrades, true);
    venue!(st, lists, V::GateOpt, SK::Trades, GateioOptions, PublicTrades, PublicTrades, GateioFuturesTrades, true);
    venue!(st, lists, V::Bitmex, SK::Trades, Bitmex, PublicTrades, PublicTrades, BitmexTrade, true);
    st.n
}
