//! C13 bounded checker: "a market-data message for a subscribed market is normalised into an event that carries the key of
//! exactly the instrument subscribed under that market and the exchange's id, with price, amount, side and exchange time
//! as stated in the message; a message for a market that was not subscribed yields an unidentifiable-subscription error".
//! Joins the subscription side (REAL `WebSocketSubMapper::map` -> `Map<InstrumentKey>`) with the message side (REAL serde
//! deserialisation of venue JSON payloads into the connector's message type, REAL `StatelessTransformer` =
//! `Identifier<Option<SubscriptionId>>` + `Map::find` + `MarketIter::from`) for every (connector, kind) pair below and
//! three instrument flavours (MarketDataInstrument, Keyed<_, MarketDataInstrument>, MarketInstrumentData<_>).
//! The venue side (how a venue names a market in its messages, payload layouts, exchange ids) is modelled HERE,
//! independently of the connector code.
use crate::{rng::Rng, report};
use barter_data::{
    ExchangeWsStream, Identifier,
    error::DataError,
    event::{MarketEvent, MarketIter},
    exchange::{
        Connector, StreamSelector,
        binance::{book::l1::BinanceOrderBookL1, futures::{BinanceFuturesUsd, liquidation::BinanceLiquidation}, spot::BinanceSpot, trade::BinanceTrade},
        bitfinex::message::BitfinexMessage,
        bitmex::{Bitmex, trade::BitmexTrade},
        bybit::{futures::BybitPerpetualsUsd, message::BybitMessage, spot::BybitSpot},
        coinbase::{Coinbase, trade::CoinbaseTrade},
        gateio::{
            future::{GateioFuturesBtc, GateioFuturesUsd},
            option::GateioOptions,
            perpetual::{GateioPerpetualsBtc, GateioPerpetualsUsd, trade::GateioFuturesTrades},
            spot::{GateioSpot, trade::GateioSpotTrade},
        },
        kraken::{Kraken, book::l1::KrakenOrderBookL1, trade::KrakenTrades},
        okx::{Okx, trade::OkxTrades},
    },
    instrument::{InstrumentData, MarketInstrumentData},
    streams::builder::dynamic::{
        indexed::{generate_indexed_market_data_subscription_batches, index_market_data_subscription_batches},
        validate_batches,
    },
    subscriber::mapper::{SubscriptionMapper, WebSocketSubMapper},
    subscription::{
        SubKind, Subscription, SubscriptionKind, SubscriptionMeta,
        book::{OrderBookL1, OrderBooksL1},
        liquidation::{Liquidation, Liquidations},
        trade::{PublicTrade, PublicTrades},
    },
    transformer::{ExchangeTransformer, stateless::StatelessTransformer},
};
use barter_instrument::{
    Keyed, Side, Underlying,
    asset::Asset,
    exchange::ExchangeId,
    index::IndexedInstruments,
    instrument::{
        Instrument, InstrumentIndex,
        kind::{
            InstrumentKind,
            future::FutureContract,
            option::{OptionContract, OptionExercise, OptionKind},
            perpetual::PerpetualContract,
        },
        quote::InstrumentQuoteAsset,
        market_data::{
            MarketDataInstrument,
            kind::{MarketDataFutureContract, MarketDataInstrumentKind, MarketDataOptionContract},
        },
        name::InstrumentNameExchange,
    },
};
use barter_integration::{Transformer, subscription::SubscriptionId};
use chrono::{DateTime, SecondsFormat, TimeZone, Utc};
use rust_decimal::Decimal;
use serde::Deserialize;
use std::{collections::HashSet, fmt::Debug, marker::PhantomData, str::FromStr};

const L_SUBSCRIBED: &str = "C13.bounded.subscribed_market_yields_event";
const L_KEY: &str = "C13.bounded.event_carries_subscribed_instrument_key";
const L_EXCHANGE: &str = "C13.bounded.event_carries_exchange_id";
const L_FIELDS: &str = "C13.bounded.price_amount_side_as_stated";
const L_TIME: &str = "C13.bounded.exchange_time_as_stated";
// the rest of the payload: trade id (where the message states one), L1 last update time, liquidation side / price / quantity / time, Bitfinex signed amounts
const L_PAYLOAD: &str = "C13.bounded.payload_as_stated_in_message";
// a book ticker with an empty side (the venue reports it as price 0): THAT side is None, the other side is the stated level
const L_ONE_SIDED: &str = "C13.bounded.l1_one_sided_book";
const L_UNSUB: &str = "C13.bounded.unsubscribed_market_is_unidentifiable";
const L_IDX_EVENT: &str = "C13.bounded.indexed_event_carries_index_of_its_instrument";
const L_IDX_DISTINCT: &str = "C13.bounded.indexed_distinct_instruments_distinct_indices";

// ------------------------------------------------------------------------------------------------- venue side model
#[derive(Clone, Copy, Debug, PartialEq, Eq)]
enum V { BinanceSpot, BinanceFut, Okx, Kraken, Coinbase, BybitSpot, BybitPerp, GateSpot, GateFutUsd, GateFutBtc, GatePerpUsd, GatePerpBtc, GateOpt, Bitmex }
#[derive(Clone, Copy, Debug, PartialEq, Eq)]
enum SK { Trades, L1, Liq }

#[derive(Clone, Copy, Debug, PartialEq, Eq)]
enum IK { Spot, Perp, Fut(i64), Opt { call: bool, strike: i64, expiry: i64, american: bool } }
/// a strike: whole when >= 0; a NEGATIVE value encodes tenths (-18505 is the strike 1850.5), printed by the venue as `1850.5`
fn strike_dec(s: i64) -> Decimal { if s >= 0 { Decimal::from(s) } else { Decimal::new(-s, 1) } }
#[derive(Clone, Copy, Debug, PartialEq, Eq)]
struct Inst { base: &'static str, quote: &'static str, kind: IK }

const E1: i64 = 1_735_286_400; // 2024-12-27 08:00:00 UTC (Friday)
const E2: i64 = 1_743_148_800; // 2025-03-28 08:00:00 UTC (Friday)
const E3: i64 = 1_798_790_400; // 2027-01-01 08:00:00 UTC (Friday; ISO week-year 2026)
fn date(ts: i64) -> DateTime<Utc> { Utc.timestamp_opt(ts, 0).unwrap() }

impl Inst {
    fn kind(&self) -> MarketDataInstrumentKind {
        match self.kind {
            IK::Spot => MarketDataInstrumentKind::Spot,
            IK::Perp => MarketDataInstrumentKind::Perpetual,
            IK::Fut(e) => MarketDataInstrumentKind::Future(MarketDataFutureContract { expiry: date(e) }),
            IK::Opt { call, strike, expiry, american } => MarketDataInstrumentKind::Option(MarketDataOptionContract {
                kind: if call { OptionKind::Call } else { OptionKind::Put }, exercise: if american { OptionExercise::American } else { OptionExercise::European }, expiry: date(expiry), strike: strike_dec(strike),
            }),
        }
    }
    fn mdi(&self) -> MarketDataInstrument { MarketDataInstrument::new(self.base, self.quote, self.kind()) }
}

fn exchange_id(v: V) -> ExchangeId {
    match v {
        V::BinanceSpot => ExchangeId::BinanceSpot, V::BinanceFut => ExchangeId::BinanceFuturesUsd, V::Okx => ExchangeId::Okx, V::Kraken => ExchangeId::Kraken,
        V::Coinbase => ExchangeId::Coinbase, V::BybitSpot => ExchangeId::BybitSpot, V::BybitPerp => ExchangeId::BybitPerpetualsUsd, V::GateSpot => ExchangeId::GateioSpot,
        V::GateFutUsd => ExchangeId::GateioFuturesUsd, V::GateFutBtc => ExchangeId::GateioFuturesBtc, V::GatePerpUsd => ExchangeId::GateioPerpetualsUsd,
        V::GatePerpBtc => ExchangeId::GateioPerpetualsBtc, V::GateOpt => ExchangeId::GateioOptions, V::Bitmex => ExchangeId::Bitmex,
    }
}

/// the name under which the venue reports the market of `i` in its messages
fn venue_market(v: V, i: &Inst) -> String {
    let (b, q) = (i.base.to_uppercase(), i.quote.to_uppercase());
    let cp = |call: bool| if call { "C" } else { "P" };
    match v {
        V::BinanceSpot | V::BinanceFut | V::BybitSpot | V::BybitPerp | V::Bitmex => format!("{b}{q}"),
        V::Kraken => format!("{b}/{q}"),
        V::Coinbase => format!("{b}-{q}"),
        V::Okx => match i.kind {
            IK::Spot => format!("{b}-{q}"),
            IK::Perp => format!("{b}-{q}-SWAP"),
            IK::Fut(e) => format!("{b}-{q}-{}", date(e).format("%y%m%d")),
            IK::Opt { call, strike, expiry, .. } => format!("{b}-{q}-{}-{}-{}", date(expiry).format("%y%m%d"), strike_dec(strike), cp(call)),
        },
        V::GateSpot | V::GateFutUsd | V::GateFutBtc | V::GatePerpUsd | V::GatePerpBtc | V::GateOpt => match i.kind {
            IK::Spot | IK::Perp => format!("{b}_{q}"),
            IK::Fut(e) => format!("{b}_{q}_QUARTERLY_{}", date(e).format("%Y%m%d")),
            IK::Opt { call, strike, expiry, .. } => format!("{b}_{q}-{}-{}-{}", date(expiry).format("%Y%m%d"), strike_dec(strike), cp(call)),
        },
    }
}

#[derive(Clone, Debug)]
struct Tr { price: &'static str, amount: &'static str, buy: bool, ts_ms: i64, id: u64 }
#[derive(Clone, Debug)]
struct Msg { market: String, trades: Vec<Tr>, bid: (&'static str, &'static str), ask: (&'static str, &'static str), ts_ms: i64 }

fn multi(v: V) -> bool { !matches!(v, V::BinanceSpot | V::BinanceFut | V::Coinbase | V::GateSpot) }
/// does the L1 message of the venue carry an exchange time?
fn l1_has_time(v: V) -> bool { v != V::BinanceSpot }
fn rfc(ts_ms: i64) -> String { Utc.timestamp_millis_opt(ts_ms).unwrap().to_rfc3339_opts(SecondsFormat::Millis, true) }

fn payload(v: V, sk: SK, m: &Msg) -> String {
    use serde_json::{Value, json};
    let mk = &m.market;
    let num = |s: &str| -> Value { serde_json::from_str(s).unwrap() };
    let side_lc = |t: &Tr| if t.buy { "buy" } else { "sell" };
    let side_uc = |t: &Tr| if t.buy { "Buy" } else { "Sell" };
    let t0 = &m.trades[0];
    match (v, sk) {
        (V::BinanceSpot, SK::Trades) => json!({"e":"trade","E":t0.ts_ms + 3,"s":mk,"t":t0.id,"p":t0.price,"q":t0.amount,"b":1,"a":2,"T":t0.ts_ms,"m":!t0.buy,"M":true}),
        (V::BinanceFut, SK::Trades) => json!({"e":"trade","E":t0.ts_ms + 3,"T":t0.ts_ms,"s":mk,"t":t0.id,"p":t0.price,"q":t0.amount,"X":"MARKET","m":!t0.buy}),
        (V::BinanceSpot, SK::L1) => json!({"u":22606535573u64,"s":mk,"b":m.bid.0,"B":m.bid.1,"a":m.ask.0,"A":m.ask.1}),
        (V::BinanceFut, SK::Liq) => json!({"e":"forceOrder","E":t0.ts_ms + 5,"o":{"s":mk,"S":if t0.buy { "BUY" } else { "SELL" },"o":"LIMIT","f":"IOC","q":t0.amount,"p":t0.price,"ap":"18990.00","X":"FILLED","l":"0.001","z":"0.002","T":t0.ts_ms}}),
        (V::BinanceFut, SK::L1) => json!({"e":"bookTicker","u":22606535573u64,"E":m.ts_ms + 2,"T":m.ts_ms,"s":mk,"b":m.bid.0,"B":m.bid.1,"a":m.ask.0,"A":m.ask.1}),
        (V::Okx, SK::Trades) => json!({"arg":{"channel":"trades","instId":mk},"data":m.trades.iter().map(|t| json!({"instId":mk,"tradeId":t.id.to_string(),"px":t.price,"sz":t.amount,"side":side_lc(t),"ts":t.ts_ms.to_string()})).collect::<Vec<_>>()}),
        (V::Kraken, SK::Trades) => json!([0, m.trades.iter().map(|t| json!([t.price, t.amount, format!("{}.{:03}000", t.ts_ms / 1000, t.ts_ms % 1000), if t.buy { "b" } else { "s" }, "l", ""])).collect::<Vec<_>>(), "trade", mk]),
        (V::Kraken, SK::L1) => json!([0, [m.bid.0, m.ask.0, format!("{}.{:03}000", m.ts_ms / 1000, m.ts_ms % 1000), m.bid.1, m.ask.1], "spread", mk]),
        (V::Coinbase, SK::Trades) => json!({"type":"match","trade_id":t0.id,"sequence":50,"maker_order_id":"ac928c66-ca53-498f-9c13-a110027a60e8","taker_order_id":"132fb6ae-456b-4654-b4e0-d681ac05cea1","time":rfc(t0.ts_ms),"product_id":mk,"size":t0.amount,"price":t0.price,"side":side_lc(t0)}),
        (V::BybitSpot | V::BybitPerp, SK::Trades) => json!({"topic":format!("publicTrade.{mk}"),"type":"snapshot","ts":t0.ts_ms + 1,"data":m.trades.iter().map(|t| json!({"T":t.ts_ms,"s":mk,"S":side_uc(t),"v":t.amount,"p":t.price,"L":"PlusTick","i":format!("id-{}", t.id),"BT":false})).collect::<Vec<_>>()}),
        (V::GateSpot, SK::Trades) => json!({"time":t0.ts_ms / 1000,"time_ms":t0.ts_ms + 9,"channel":"spot.trades","event":"update","result":{"id":t0.id,"create_time":t0.ts_ms / 1000,"create_time_ms":format!("{}.4578", t0.ts_ms),"side":side_lc(t0),"currency_pair":mk,"amount":t0.amount,"price":t0.price}}),
        (V::GateFutUsd | V::GateFutBtc | V::GatePerpUsd | V::GatePerpBtc | V::GateOpt, SK::Trades) => json!({"time":t0.ts_ms / 1000,"time_ms":t0.ts_ms + 9,"channel":if v == V::GateOpt { "options.trades" } else { "futures.trades" },"event":"update",
            "result":m.trades.iter().map(|t| json!({"contract":mk,"create_time":t.ts_ms / 1000,"create_time_ms":t.ts_ms,"id":t.id,"price":t.price,"size":num(&format!("{}{}", if t.buy { "" } else { "-" }, t.amount))})).collect::<Vec<_>>()}),
        (V::Bitmex, SK::Trades) => json!({"table":"trade","action":"insert","data":m.trades.iter().map(|t| json!({"timestamp":rfc(t.ts_ms),"symbol":mk,"side":side_uc(t),"size":num(t.amount),"price":num(t.price),"tickDirection":"MinusTick","trdMatchID":format!("id-{}", t.id),"grossValue":814184,"homeNotional":0.5,"foreignNotional":200,"trdType":"Regular"})).collect::<Vec<_>>()}),
        other => panic!("no payload layout for {other:?}"),
    }.to_string()
}

// ------------------------------------------------------------------------------------------------- observation
#[derive(Debug, PartialEq)]
enum Fields { Trade { price: f64, amount: f64, side: Side }, L1 { bid: Option<(Decimal, Decimal)>, ask: Option<(Decimal, Decimal)> }, Liq { side: Side, price: f64, quantity: f64 } }
trait Observe {
    fn fields(&self) -> Fields;
    /// the trade id carried by the event
    fn id(&self) -> Option<String> { None }
    /// a second time field of the event kind (L1: last update time, liquidation: time), in ms
    fn kind_time_ms(&self) -> Option<i64> { None }
}
impl Observe for PublicTrade {
    fn fields(&self) -> Fields { Fields::Trade { price: self.price, amount: self.amount, side: self.side } }
    fn id(&self) -> Option<String> { Some(self.id.clone()) }
}
impl Observe for OrderBookL1 {
    fn fields(&self) -> Fields { Fields::L1 { bid: self.best_bid.map(|l| (l.price, l.amount)), ask: self.best_ask.map(|l| (l.price, l.amount)) } }
    fn kind_time_ms(&self) -> Option<i64> { Some(self.last_update_time.timestamp_millis()) }
}
impl Observe for Liquidation {
    fn fields(&self) -> Fields { Fields::Liq { side: self.side, price: self.price, quantity: self.quantity } }
    fn kind_time_ms(&self) -> Option<i64> { Some(self.time.timestamp_millis()) }
}

/// what the venue states in one normalised event's worth of a message: the fields, the exchange time (if the message carries one), the
/// trade id (if the message states one), the event kind's own time field (L1 last update time / liquidation time), one-sided book?
struct Stated { fields: Fields, time: Option<i64>, id: Option<String>, kind_time: Option<i64>, one_sided: bool }

/// the trade id as the payload built by `payload` states it (Kraken trades carry none)
fn stated_id(v: V, t: &Tr) -> Option<String> {
    match v {
        V::Kraken => None,
        V::BybitSpot | V::BybitPerp | V::Bitmex => Some(format!("id-{}", t.id)),
        _ => Some(t.id.to_string()),
    }
}

/// what the venue states in message `m` (one entry per normalised event)
fn stated(v: V, sk: SK, m: &Msg) -> Vec<Stated> {
    let d = |s: &str| Decimal::from_str(s).unwrap();
    // a book side reported with price 0 is an empty side
    let level = |(price, amount): (&str, &str)| (!d(price).is_zero()).then(|| (d(price), d(amount)));
    match sk {
        SK::L1 => {
            let (bid, ask) = (level(m.bid), level(m.ask));
            let time = l1_has_time(v).then_some(m.ts_ms);
            vec![Stated { one_sided: bid.is_none() || ask.is_none(), fields: Fields::L1 { bid, ask }, time, id: None, kind_time: time }]
        }
        SK::Trades => m.trades.iter().take(if multi(v) { usize::MAX } else { 1 }).map(|t| {
            let amount: f64 = t.amount.parse().unwrap();
            // Gateio contract trades state a signed size: sign = taker side
            let signed = matches!(v, V::GateFutUsd | V::GateFutBtc | V::GatePerpUsd | V::GatePerpBtc | V::GateOpt) && !t.buy;
            Stated { fields: Fields::Trade { price: t.price.parse().unwrap(), amount: if signed { -amount } else { amount }, side: if t.buy { Side::Buy } else { Side::Sell } }, time: Some(t.ts_ms), id: stated_id(v, t), kind_time: None, one_sided: false }
        }).collect(),
        SK::Liq => {
            let t = &m.trades[0];
            vec![Stated { fields: Fields::Liq { side: if t.buy { Side::Buy } else { Side::Sell }, price: t.price.parse().unwrap(), quantity: t.amount.parse().unwrap() }, time: Some(t.ts_ms), id: None, kind_time: Some(t.ts_ms), one_sided: false }]
        }
    }
}

type Outs<K, E> = Vec<Result<Vec<Result<MarketEvent<K, E>, DataError>>, String>>;

/// subscription side + message side, all real code
fn drive<Ex, I, K, M>(subs: &[Subscription<Ex, I, K>], payloads: &[String]) -> Result<Outs<I::Key, K::Event>, String>
where
    Ex: Connector + Send,
    I: InstrumentData,
    K: SubscriptionKind + Send,
    Subscription<Ex, I, K>: Identifier<Ex::Channel> + Identifier<Ex::Market>,
    M: Identifier<Option<SubscriptionId>> + for<'de> Deserialize<'de> + Send,
    MarketIter<I::Key, K::Event>: From<(ExchangeId, I::Key, M)>,
{
    let SubscriptionMeta { instrument_map, .. } = WebSocketSubMapper::map::<Ex, I, K>(subs);
    let (tx, _rx) = tokio::sync::mpsc::unbounded_channel();
    let mut tf = futures::executor::block_on(<StatelessTransformer<Ex, I::Key, K, M> as ExchangeTransformer<Ex, I::Key, K>>::init(instrument_map, &[], tx)).map_err(|e| e.to_string())?;
    let outs: Outs<I::Key, K::Event> = payloads.iter().map(|p| serde_json::from_str::<M>(p).map(|m| tf.transform(m)).map_err(|e| e.to_string())).collect();
    // the same messages BUFFERED during subscription validation: ExchangeWsStream::init replays them through the real process_buffered_events;
    // whatever a parsable message yields on the live path - events of the subscribed instrument or the unidentifiable-subscription error - it
    // yields there too, in order (an unparsable one is dropped on that path)
    {
        use barter_integration::protocol::websocket::{WebSocketParser, WsMessage};
        let SubscriptionMeta { instrument_map, .. } = WebSocketSubMapper::map::<Ex, I, K>(subs);
        let (tx, _rx) = tokio::sync::mpsc::unbounded_channel();
        if let Ok(mut tf2) = futures::executor::block_on(<StatelessTransformer<Ex, I::Key, K, M> as ExchangeTransformer<Ex, I::Key, K>>::init(instrument_map, &[], tx)) {
            let show = |r: &Result<MarketEvent<I::Key, K::Event>, DataError>| match r { Ok(ev) => format!("event for instrument {:?}", ev.instrument), Err(e) => format!("error {e:?}") };
            let live: Vec<String> = outs.iter().filter_map(|o| o.as_ref().ok()).flatten().map(show).collect();
            let buffered = barter_data::process_buffered_events::<WebSocketParser, _>(&mut tf2, payloads.iter().map(|p| WsMessage::text(p.clone())).collect());
            let replayed: Vec<String> = buffered.iter().map(show).collect();
            if live != replayed && !BUFFERED_SEEN.swap(true, std::sync::atomic::Ordering::Relaxed) {
                report(L_BUFFERED, format!("{} subscription(s); messages buffered during subscription validation, in order: {payloads:?}", subs.len()), format!("process_buffered_events yields {replayed:?}"), format!("{live:?} (what the live path yields for the same messages)"));
            }
            // and the same messages through the real ExchangeStream (the routing layer between the socket and the transformer: every output of a
            // message is buffered and yielded, in order - a message that normalises into several events yields ALL of them)
            if outs.iter().all(|o| o.is_ok()) {
                let SubscriptionMeta { instrument_map, .. } = WebSocketSubMapper::map::<Ex, I, K>(subs);
                let (tx, _rx) = tokio::sync::mpsc::unbounded_channel();
                if let Ok(tf3) = futures::executor::block_on(<StatelessTransformer<Ex, I::Key, K, M> as ExchangeTransformer<Ex, I::Key, K>>::init(instrument_map, &[], tx)) {
                    let inner = futures::stream::iter(payloads.iter().map(|p| Ok::<WsMessage, barter_integration::protocol::websocket::WsError>(WsMessage::text(p.clone()))).collect::<Vec<_>>());
                    let stream = barter_integration::stream::ExchangeStream::<WebSocketParser, _, _>::new(inner, tf3, std::collections::VecDeque::new());
                    let streamed: Vec<String> = futures::executor::block_on(futures::StreamExt::collect::<Vec<_>>(stream)).iter().map(show).collect();
                    if live != streamed && !STREAMED_SEEN.swap(true, std::sync::atomic::Ordering::Relaxed) {
                        report(L_STREAMED, format!("{} subscription(s); messages read from the socket, in order: {payloads:?}", subs.len()), format!("ExchangeStream yields {streamed:?}"), format!("{live:?} (every output of every message, in order)"));
                    }
                }
            }
        }
    }
    Ok(outs)
}
const L_BUFFERED: &str = "C13.bounded.buffered_messages_are_attributed_like_live_ones";
static BUFFERED_SEEN: std::sync::atomic::AtomicBool = std::sync::atomic::AtomicBool::new(false);
const L_STREAMED: &str = "C13.bounded.every_event_of_a_message_leaves_the_exchange_stream";
static STREAMED_SEEN: std::sync::atomic::AtomicBool = std::sync::atomic::AtomicBool::new(false);

struct St { seen: HashSet<&'static str>, n: u64 }

fn judge<K: PartialEq + Debug, E: Observe>(st: &mut St, v: V, sk: SK, l_key: &'static str, flavour: &dyn Fn() -> String, list: &[Inst], keys: &[K], msgs: &[Msg], payloads: &[String], outs: Result<Outs<K, E>, String>) {
    let input = |k: usize| format!("{v:?} {sk:?}, instruments as {}; subscriptions (in order) [{}]; message for market {:?}: {}", flavour(), list.iter().enumerate().map(|(j, i)| format!("#{j} {}/{} {:?} (venue market {})", i.base, i.quote, i.kind, venue_market(v, i))).collect::<Vec<_>>().join(", "), msgs[k].market, payloads[k]);
    let outs = match outs { Ok(o) => o, Err(e) => { if st.seen.insert(L_SUBSCRIBED) { report(L_SUBSCRIBED, input(0), format!("transformer initialisation failed: {e}"), "transformer".into()); } return; } };
    for (k, (m, out)) in msgs.iter().zip(outs).enumerate() {
        st.n += 1;
        let mut fail = |label: &'static str, observed: String, expected: String| { if st.seen.insert(label) { report(label, input(k), observed, expected); } };
        let subscribed: Vec<usize> = (0..list.len()).filter(|j| venue_market(v, &list[*j]) == m.market).collect();
        let out = match out { Ok(o) => o, Err(e) => { fail(if subscribed.is_empty() { L_UNSUB } else { L_SUBSCRIBED }, format!("payload rejected by the connector's message type: {e}"), "deserialised".into()); continue; } };
        if subscribed.is_empty() {
            let ok = out.len() == 1 && matches!(&out[0], Err(DataError::Socket(e)) if e.contains("unidentifiable"));
            if !ok {
                fail(L_UNSUB, format!("{:?}", out.iter().map(|r| match r { Ok(ev) => format!("event for instrument {:?}", ev.instrument), Err(e) => format!("error {e:?}") }).collect::<Vec<_>>()), "one unidentifiable-subscription error, no event".into());
            }
            continue;
        }
        let want = stated(v, sk, m);
        if out.len() != want.len() || out.iter().any(|r| r.is_err()) {
            fail(L_SUBSCRIBED, format!("{} outputs: {:?}", out.len(), out.iter().map(|r| match r { Ok(ev) => format!("event for {:?}", ev.instrument), Err(e) => format!("error {e:?}") }).collect::<Vec<_>>()), format!("{} event(s) for instrument #{:?}", want.len(), subscribed));
            continue;
        }
        for (ev, Stated { fields, time, id, kind_time, one_sided }) in out.into_iter().flatten().zip(want) {
            if !subscribed.iter().any(|j| keys[*j] == ev.instrument) {
                fail(l_key, format!("event carries instrument key {:?}", ev.instrument), format!("key of subscription #{:?}: {:?}", subscribed, subscribed.iter().map(|j| &keys[*j]).collect::<Vec<_>>()));
            }
            if ev.exchange != exchange_id(v) { fail(L_EXCHANGE, format!("{:?}", ev.exchange), format!("{:?}", exchange_id(v))); }
            if ev.kind.fields() != fields {
                let label = if one_sided { L_ONE_SIDED } else if sk == SK::Liq { L_PAYLOAD } else { L_FIELDS };
                fail(label, format!("{:?}", ev.kind.fields()), format!("{fields:?}{}", if one_sided { " (a side stated with price 0 is empty: None for THAT side, the stated level for the other)" } else { "" }));
            }
            // Kraken and Gateio spot state the time as a decimal fraction: allow the float rounding
            let tol = if matches!(v, V::Kraken | V::GateSpot) { 1 } else { 0 };
            if let Some(ts) = time {
                if (ev.time_exchange.timestamp_millis() - ts).abs() > tol { fail(L_TIME, format!("time_exchange {} ms", ev.time_exchange.timestamp_millis()), format!("{ts} ms")); }
            }
            if let (Some(ts), Some(got)) = (kind_time, ev.kind.kind_time_ms()) {
                if (got - ts).abs() > tol { fail(L_PAYLOAD, format!("{} of the event kind: {got} ms", if sk == SK::L1 { "last_update_time" } else { "time" }), format!("{ts} ms (the time the message states)")); }
            }
            if let Some(id) = id {
                if ev.kind.id().as_deref() != Some(id.as_str()) { fail(L_PAYLOAD, format!("trade id {:?}", ev.kind.id()), format!("trade id {id:?} (as stated in the message)")); }
            }
        }
    }
}

const EMPTY_SIDE: (&str, &str) = ("0.00000000", "0.00000000");
const PRICES: [(&str, &str); 5] = [("60000.5", "0.25"), ("0.0125", "100000"), ("1287", "3"), ("24564.5", "200"), ("150.25", "12")];

/// messages for a subscription list: every subscribed market, every market of the universe that is not subscribed, and
/// near misses of the first subscribed market
fn messages(v: V, list: &[Inst], universe: &[Inst], salt: usize) -> Vec<Msg> {
    let mut markets: Vec<String> = vec![];
    for i in list.iter().chain(universe.iter()) { let m = venue_market(v, i); if !markets.contains(&m) { markets.push(m); } }
    let first = venue_market(v, &list[0]);
    for near in [first.to_lowercase(), format!("{first}X"), first[1..].to_string(), format!("{first}-C"), format!("{first}_USDT")] { if !markets.contains(&near) { markets.push(near); } }
    markets.into_iter().enumerate().map(|(k, market)| {
        let n = 1 + (k + salt) % 3;
        let trades = (0..n).map(|j| { let (price, amount) = PRICES[(k + j + salt) % PRICES.len()]; Tr { price, amount, buy: (k + j + salt) % 2 == 0, ts_ms: 1_669_843_487_724 + (k * 1000 + j * 7 + salt) as i64, id: (1000 + k * 10 + j) as u64 } }).collect();
        let (bp, ba) = PRICES[(k + salt) % PRICES.len()];
        let (ap, aa) = PRICES[(k + salt + 1) % PRICES.len()];
        // book shapes: both sides, no bids, no asks, both sides, empty book (an empty side is reported as price 0 / amount 0)
        let (bid, ask) = match (k + salt) % 5 { 1 => (EMPTY_SIDE, (ap, aa)), 2 => ((bp, ba), EMPTY_SIDE), 4 => (EMPTY_SIDE, EMPTY_SIDE), _ => ((bp, ba), (ap, aa)) };
        Msg { market, trades, bid, ask, ts_ms: 1_669_843_487_724 + (k * 1000 + salt) as i64 }
    }).collect()
}

/// Bitfinex trades `[CHANNEL_ID, "te", [ID, TIME, AMOUNT, PRICE]]`: the amount is signed (negative = sell); the subscription side is keyed by
/// the channel id the venue assigns in its subscription response (needs the socket), so only the MESSAGE side is driven here: real serde
/// deserialisation + real `MarketIter::from`, with the key and exchange id it is handed
fn bitfinex_payload(st: &mut St) {
    let (channel, key) = (420191u32, 7u32);
    for (k, (price, amount)) in PRICES.iter().enumerate() {
        for buy in [true, false] {
            st.n += 1;
            let (id, ts) = (1_225_484_398u64 + k as u64, 1_665_452_200_022i64 + 13 * k as i64);
            let payload = format!("[{channel},\"te\",[{id},{ts},{}{amount},{price}]]", if buy { "" } else { "-" });
            let input = || format!("Bitfinex trade message {payload} handed to MarketIter::from with exchange id Bitfinex and instrument key {key}");
            let msg = match serde_json::from_str::<BitfinexMessage>(&payload) {
                Ok(msg) => msg,
                Err(e) => { fail_once(st, L_PAYLOAD, &input, format!("payload rejected by the connector's message type: {e}"), "deserialised".into()); continue; }
            };
            if msg.id() != Some(SubscriptionId::from(channel.to_string())) { fail_once(st, L_SUBSCRIBED, &input, format!("message identified as {:?}", msg.id()), format!("the channel id {channel}")); }
            let out = MarketIter::<u32, PublicTrade>::from((ExchangeId::Bitfinex, key, msg)).0;
            let want = Fields::Trade { price: price.parse().unwrap(), amount: amount.parse().unwrap(), side: if buy { Side::Buy } else { Side::Sell } };
            match out.as_slice() {
                [Ok(ev)] => {
                    if ev.instrument != key { fail_once(st, L_KEY, &input, format!("event carries instrument key {:?}", ev.instrument), format!("{key}")); }
                    if ev.exchange != ExchangeId::Bitfinex { fail_once(st, L_EXCHANGE, &input, format!("{:?}", ev.exchange), "Bitfinex".into()); }
                    if ev.kind.fields() != want { fail_once(st, L_PAYLOAD, &input, format!("{:?}", ev.kind.fields()), format!("{want:?} (the sign of AMOUNT is the side, its magnitude the amount)")); }
                    if ev.time_exchange.timestamp_millis() != ts { fail_once(st, L_TIME, &input, format!("time_exchange {} ms", ev.time_exchange.timestamp_millis()), format!("{ts} ms")); }
                    if ev.kind.id != id.to_string() { fail_once(st, L_PAYLOAD, &input, format!("trade id {:?}", ev.kind.id), format!("trade id {:?}", id.to_string())); }
                }
                other => fail_once(st, L_SUBSCRIBED, &input, format!("{} outputs: {other:?}", other.len()), "one trade event".into()),
            }
        }
    }
    // a heartbeat carries no trade
    st.n += 1;
    let payload = format!("[{channel},\"hb\"]");
    let input = || format!("Bitfinex heartbeat {payload}");
    match serde_json::from_str::<BitfinexMessage>(&payload) {
        Ok(msg) => { let out = MarketIter::<u32, PublicTrade>::from((ExchangeId::Bitfinex, key, msg)).0; if !out.is_empty() { fail_once(st, L_PAYLOAD, &input, format!("{} outputs", out.len()), "no event".into()); } }
        Err(e) => fail_once(st, L_PAYLOAD, &input, format!("payload rejected by the connector's message type: {e}"), "deserialised".into()),
    }
}

fn same<T>(_: PhantomData<T>, _: PhantomData<T>) {}
/// clauses that failed on the tree as found (Kraken lower-case computed pair, OKX ISO week-year expiry): both were repaired by `fix:` commits
/// (see /verif/KNOWN_FINDINGS) and are checked unconditionally - a regression is reported like any other violation
fn known() -> bool { true }

macro_rules! venue {
    ($st:expr, $lists:expr, $v:expr, $sk:expr, $Ex:ty, $K:ty, $kind:expr, $M:ty, $computed_markets:expr) => {{
        // the transformer driven below is the one the connector's StreamSelector uses
        same(PhantomData::<<$Ex as StreamSelector<MarketDataInstrument, $K>>::Stream>, PhantomData::<ExchangeWsStream<StatelessTransformer<$Ex, MarketDataInstrument, $K, $M>>>);
        let (v, sk) = ($v, $sk);
        let universe = universe(v);
        for (salt, list) in $lists(&universe).into_iter().enumerate() {
            let msgs = messages(v, &list, &universe, salt);
            let payloads: Vec<String> = msgs.iter().map(|m| payload(v, sk, m)).collect();
            if $computed_markets {
                let keys: Vec<MarketDataInstrument> = list.iter().map(|i| i.mdi()).collect();
                let subs: Vec<Subscription<$Ex, MarketDataInstrument, $K>> = keys.iter().map(|i| Subscription::new(<$Ex>::default(), i.clone(), $kind)).collect();
                judge($st, v, sk, L_KEY, &|| "MarketDataInstrument (key = the instrument)".into(), &list, &keys, &msgs, &payloads, drive::<$Ex, MarketDataInstrument, $K, $M>(&subs, &payloads));
                let keys: Vec<u32> = (0..list.len() as u32).collect();
                let subs: Vec<Subscription<$Ex, Keyed<u32, MarketDataInstrument>, $K>> = list.iter().zip(&keys).map(|(i, k)| Subscription::new(<$Ex>::default(), Keyed::new(*k, i.mdi()), $kind)).collect();
                judge($st, v, sk, L_KEY, &|| "Keyed<#, MarketDataInstrument>".into(), &list, &keys, &msgs, &payloads, drive::<$Ex, Keyed<u32, MarketDataInstrument>, $K, $M>(&subs, &payloads));
            }
            let keys: Vec<u32> = (0..list.len() as u32).collect();
            let subs: Vec<Subscription<$Ex, MarketInstrumentData<u32>, $K>> = list.iter().zip(&keys).map(|(i, k)| Subscription::new(<$Ex>::default(), MarketInstrumentData { key: *k, name_exchange: InstrumentNameExchange::new(venue_market(v, i)), kind: i.kind() }, $kind)).collect();
            judge($st, v, sk, L_KEY, &|| "MarketInstrumentData<#> (name_exchange = venue market)".into(), &list, &keys, &msgs, &payloads, drive::<$Ex, MarketInstrumentData<u32>, $K, $M>(&subs, &payloads));
        }
    }};
}

fn universe(v: V) -> Vec<Inst> {
    let pairs: [(&'static str, &'static str); 7] = [("btc", "usdt"), ("BtC", "usdt"), ("btcu", "sdt"), ("1000btc", "usdt"), ("btc", "usd"), ("eth", "usdt"), ("eth", "BTC")];
    let of = |kind: IK, n: usize| pairs.iter().take(n).map(|(base, quote)| Inst { base, quote, kind }).collect::<Vec<_>>();
    let opt = |base, call, strike, expiry| Inst { base, quote: "usdt", kind: IK::Opt { call, strike, expiry, american: false } };
    match v {
        V::BinanceSpot | V::Kraken | V::Coinbase | V::BybitSpot | V::GateSpot => of(IK::Spot, 7),
        V::BinanceFut | V::BybitPerp | V::GatePerpUsd | V::GatePerpBtc | V::Bitmex => of(IK::Perp, 7),
        V::GateFutUsd | V::GateFutBtc => { let mut u = of(IK::Fut(E1), 5); u.push(Inst { base: "btc", quote: "usdt", kind: IK::Fut(E2) }); u.push(Inst { base: "eth", quote: "usdt", kind: IK::Fut(E2) }); u }
        V::GateOpt => vec![opt("btc", true, 35000, E1), opt("BtC", true, 35000, E1), opt("btc", false, 35000, E1), opt("btc", true, 350000, E1), opt("btc", true, 3500, E1), opt("btc", true, 35000, E2), opt("eth", true, 35000, E1), opt("btc", true, -350005, E1)],
        V::Okx => { let mut u = of(IK::Spot, 4); u.push(Inst { base: "btc", quote: "usdt", kind: IK::Perp }); u.push(Inst { base: "btc", quote: "usdt", kind: IK::Fut(E1) }); u.push(Inst { base: "btc", quote: "usdt", kind: IK::Fut(E2) }); 
            // FIXED DEFECT (was a finding on the tree as found; now always checked): okx_market formats a future's / option's expiry with
            // chrono "%g%m%d" (%g = ISO-8601 WEEK-year). For an expiry whose ISO week-year differs from its calendar year (Friday 2027-01-01:
            // ISO week 53 of 2026) the subscription is registered under "BTC-USDT-260101" while the venue names the market "BTC-USDT-270101":
            // every message for the subscribed contract is answered with Unidentifiable.
            if known() { u.push(Inst { base: "btc", quote: "usdt", kind: IK::Fut(E3) }); }
            u.push(opt("btc", true, 35000, E1)); u.push(opt("btc", false, 35000, E1)); u.push(opt("btc", true, 350000, E1));
            u.push(opt("btc", true, -350005, E1)); /* strike 35000.5: differs from 35000 only by its fraction */ u }
    }
}

// ------------------------------------------------------------------------------------------------- indexed dynamic path
// The INDEXED dynamic stream builder (barter-data/src/streams/builder/dynamic/{mod,indexed}.rs) goes from an `IndexedInstruments`
// collection to sockets in these steps, all driven here with the REAL code except the one that needs a network:
//   (A) user subscriptions `Subscription<ExchangeId, MarketDataInstrument, SubKind>` --REAL `index_market_data_subscription_batches`-->
//       `Subscription<ExchangeId, Keyed<InstrumentIndex, MarketDataInstrument>, SubKind>`, or
//   (B) the collection itself --REAL `generate_indexed_market_data_subscription_batches`--> `Subscription<ExchangeId,
//       MarketInstrumentData<InstrumentIndex>, SubKind>` (what `init_indexed_multi_exchange_market_stream` does);
//   then `DynamicStreams::init`: REAL `validate_batches`, per batch sort + group by (exchange, sub kind) [re-stated in `chunks`: the
//   original is inlined in `init`], per group re-typing to `Subscription<Connector, _, Kind>` [re-stated in `route!`: `init` opens the socket in
//   the same expression], then per group one socket = REAL `WebSocketSubMapper::map` + REAL transformer (`drive`).
// The oracle is independent of the matching code: the index an event must carry is looked up in `IndexedInstruments::instruments()` by the
// (unique) internal name this harness gave to the instrument whose venue market the message names.

const ALL_V: [V; 14] = [V::BinanceSpot, V::BinanceFut, V::Okx, V::Kraken, V::Coinbase, V::BybitSpot, V::BybitPerp, V::GateSpot, V::GateFutUsd, V::GateFutBtc, V::GatePerpUsd, V::GatePerpBtc, V::GateOpt, V::Bitmex];

/// an instrument of an indexed collection: venue + instrument
#[derive(Clone, Copy, Debug, PartialEq, Eq)]
struct XI { v: V, i: Inst }
/// a user subscription
#[derive(Clone, Copy, Debug, PartialEq, Eq)]
struct US { x: XI, sk: SK }

fn sub_kind(sk: SK) -> SubKind { match sk { SK::Trades => SubKind::PublicTrades, SK::L1 => SubKind::OrderBooksL1, SK::Liq => SubKind::Liquidations } }
/// subscription kinds of this module that the venue serves
fn sks(v: V) -> &'static [SK] { if matches!(v, V::BinanceSpot | V::BinanceFut | V::Kraken) { &[SK::Trades, SK::L1] } else { &[SK::Trades] } }

impl XI {
    fn market(&self) -> String { venue_market(self.v, &self.i) }
    /// unique per distinct (venue, instrument)
    fn name_internal(&self) -> String {
        let tag = match self.i.kind {
            IK::Spot => "spot".to_string(), IK::Perp => "perp".to_string(), IK::Fut(e) => format!("fut{e}"),
            IK::Opt { call, strike, expiry, american } => format!("opt{}{strike}x{expiry}{}", if call { "c" } else { "p" }, if american { "a" } else { "e" }),
        };
        format!("{}-{}_{}-{tag}", exchange_id(self.v).as_str(), self.i.base, self.i.quote)
    }
    fn instrument(&self) -> Instrument<ExchangeId, Asset> {
        let kind = match self.i.kind {
            IK::Spot => InstrumentKind::Spot,
            IK::Perp => InstrumentKind::Perpetual(PerpetualContract { contract_size: Decimal::ONE, settlement_asset: Asset::from(self.i.quote) }),
            IK::Fut(e) => InstrumentKind::Future(FutureContract { contract_size: Decimal::ONE, settlement_asset: Asset::from(self.i.quote), expiry: date(e) }),
            IK::Opt { call, strike, expiry, american } => InstrumentKind::Option(OptionContract {
                contract_size: Decimal::ONE, settlement_asset: Asset::from(self.i.base), kind: if call { OptionKind::Call } else { OptionKind::Put },
                exercise: if american { OptionExercise::American } else { OptionExercise::European }, expiry: date(expiry), strike: strike_dec(strike),
            }),
        };
        Instrument::new(exchange_id(self.v), self.name_internal(), self.market(), Underlying::new(self.i.base, self.i.quote), InstrumentQuoteAsset::UnderlyingQuote, kind, None)
    }
    fn describe(&self) -> String { format!("{:?} {}/{} {:?} (venue market {})", self.v, self.i.base, self.i.quote, self.i.kind, self.market()) }
}

/// two DIFFERENT instruments that the venue would report under one market name (options differing only in exercise style; "btc"+"usdt" vs
/// "btcu"+"sdt" on venues that concatenate): never subscribed over one socket here, so that "the instrument subscribed under that market" is unique
fn clash(a: &XI, b: &XI) -> bool { a.v == b.v && a.i != b.i && a.market() == b.market() }

/// the index the collection gave to `x` (independent of `eq_market_data_instrument_kind` / `find_instrument`)
fn index_of(ix: &IndexedInstruments, x: &XI) -> Option<InstrumentIndex> {
    let name = x.name_internal();
    ix.instruments().iter().find(|k| k.value.exchange.value == exchange_id(x.v) && k.value.name_internal.name().as_str() == name).map(|k| k.key)
}
fn holder(ix: &IndexedInstruments, world: &[XI], key: InstrumentIndex) -> String {
    world.iter().find(|x| index_of(ix, x) == Some(key)).map(|x| x.describe()).unwrap_or_else(|| "no instrument of the collection".into())
}
fn describe_world(ix: &IndexedInstruments, world: &[XI]) -> String {
    format!("IndexedInstruments of [{}]", world.iter().map(|x| format!("{} = {:?}", x.describe(), index_of(ix, x).map(|k| k.0))).collect::<Vec<_>>().join(", "))
}
fn describe_batches(batches: &[Vec<US>]) -> String {
    batches.iter().map(|b| format!("[{}]", b.iter().map(|u| format!("{:?} of {}", u.sk, u.x.describe())).collect::<Vec<_>>().join(", "))).collect::<Vec<_>>().join(" ")
}
fn fail_once(st: &mut St, label: &'static str, input: &dyn Fn() -> String, observed: String, expected: String) { if st.seen.insert(label) { report(label, input(), observed, expected); } }
fn clip(e: impl ToString) -> String { let s = e.to_string(); if s.len() > 400 { format!("{}...", s.chars().take(400).collect::<String>()) } else { s } }

/// the instruments all collections are drawn from: per venue every instrument kind it serves; same pair on several venues; same base / same
/// quote pairs; spot + perpetual + futures (different expiries) + options on one venue; options differing from the first one ONLY in Call/Put,
/// only in strike, only in expiry, only in exercise style, only in base, only in quote
fn indexed_universe() -> Vec<XI> {
    let pairs: [(&'static str, &'static str); 5] = [("btc", "usdt"), ("btcu", "sdt"), ("btc", "usd"), ("eth", "usdt"), ("eth", "btc")];
    let mut w = vec![];
    for v in ALL_V {
        let mut add = |(base, quote): (&'static str, &'static str), kind: IK| w.push(XI { v, i: Inst { base, quote, kind } });
        let (spot, perp, fut, opt) = match v {
            V::BinanceSpot | V::Kraken | V::Coinbase | V::BybitSpot | V::GateSpot => (true, false, false, false),
            V::BinanceFut | V::BybitPerp | V::GatePerpUsd | V::GatePerpBtc | V::Bitmex => (false, true, false, false),
            V::GateFutUsd | V::GateFutBtc => (false, false, true, false),
            V::GateOpt => (false, false, false, true),
            V::Okx => (true, true, true, true),
        };
        if spot { for p in pairs.iter().take(4) { add(*p, IK::Spot); } }
        if perp { for p in [pairs[0], pairs[2], pairs[3]] { add(p, IK::Perp); } }
        if fut {
            add(pairs[0], IK::Fut(E1)); add(pairs[0], IK::Fut(E2)); add(pairs[3], IK::Fut(E1)); add(pairs[2], IK::Fut(E1));
            if v == V::Okx { add(pairs[0], IK::Fut(E3)); }
        }
        if opt {
            let o = |call, strike, expiry, american| IK::Opt { call, strike, expiry, american };
            add(pairs[0], o(true, 35000, E1, false));
            add(pairs[0], o(false, 35000, E1, false)); // only Call/Put
            add(pairs[0], o(true, 350000, E1, false)); // only strike
            add(pairs[0], o(true, 3500, E1, false)); // only strike
            add(pairs[0], o(true, -350005, E1, false)); // a FRACTIONAL strike (35000.5) next to the whole one: only the fraction differs
            add(pairs[0], o(true, -35005, E1, false)); // 3500.5 next to 3500
            add(pairs[0], o(true, 35000, E2, false)); // only expiry
            add(pairs[0], o(true, 35000, E1, true)); // only exercise style
            add(pairs[0], o(false, 35000, E1, true)); // Call/Put + exercise style
            add(pairs[3], o(true, 35000, E1, false)); // only base
            add(pairs[2], o(true, 35000, E1, false)); // only quote
        }
    }
    w
}

/// what `DynamicStreams::init` does between the subscription batches and the sockets: REAL `validate_batches`, then per batch the sort +
/// grouping by (exchange, sub kind) of `init` (one socket per group)
fn chunks<I: InstrumentData + Ord>(batches: Vec<Vec<Subscription<ExchangeId, I, SubKind>>>) -> Result<Vec<Vec<(ExchangeId, SubKind, Vec<Subscription<ExchangeId, I, SubKind>>)>>, String> {
    let batches = validate_batches(batches).map_err(|e| e.to_string())?;
    Ok(batches.into_iter().map(|mut batch| {
        batch.sort_unstable_by_key(|sub| (sub.exchange, sub.kind));
        let mut groups: Vec<(ExchangeId, SubKind, Vec<Subscription<ExchangeId, I, SubKind>>)> = vec![];
        for sub in batch {
            match groups.last_mut() { Some((e, k, g)) if *e == sub.exchange && *k == sub.kind => g.push(sub), _ => groups.push((sub.exchange, sub.kind, vec![sub])) }
        }
        groups
    }).collect())
}
fn venue_of(exchange: ExchangeId, kind: SubKind) -> Option<(V, SK)> {
    let v = ALL_V.into_iter().find(|v| exchange_id(*v) == exchange)?;
    Some((v, match kind { SubKind::PublicTrades => SK::Trades, SubKind::OrderBooksL1 => SK::L1, _ => return None }))
}

/// one socket of the dynamic builder
struct Chunk<'a, I> { v: V, sk: SK, subs: Vec<Subscription<ExchangeId, I, SubKind>>, flavour: &'a dyn Fn() -> String, list: &'a [Inst], keys: &'a [InstrumentIndex], msgs: &'a [Msg], payloads: &'a [String] }

macro_rules! go {
    ($st:expr, $c:expr, $I:ty, $Ex:ty, $K:ident, $M:ty) => {{
        let c = $c;
        let typed: Vec<Subscription<$Ex, $I, $K>> = c.subs.into_iter().map(|sub| Subscription::new(<$Ex>::default(), sub.instrument, $K)).collect();
        judge($st, c.v, c.sk, L_IDX_EVENT, c.flavour, c.list, c.keys, c.msgs, c.payloads, drive::<$Ex, $I, $K, $M>(&typed, c.payloads))
    }};
}
/// the (exchange, sub kind) -> (connector, kind) table of `DynamicStreams::init` (trades and L1 rows), with the transformer of the connector's StreamSelector
macro_rules! route {
    ($st:expr, $c:expr, $I:ty) => {{
        let c: Chunk<$I> = $c;
        match (c.v, c.sk) {
            (V::BinanceSpot, SK::Trades) => go!($st, c, $I, BinanceSpot, PublicTrades, BinanceTrade),
            (V::BinanceSpot, SK::L1) => go!($st, c, $I, BinanceSpot, OrderBooksL1, BinanceOrderBookL1),
            (V::BinanceFut, SK::Trades) => go!($st, c, $I, BinanceFuturesUsd, PublicTrades, BinanceTrade),
            (V::BinanceFut, SK::L1) => go!($st, c, $I, BinanceFuturesUsd, OrderBooksL1, BinanceOrderBookL1),
            (V::Okx, SK::Trades) => go!($st, c, $I, Okx, PublicTrades, OkxTrades),
            (V::Kraken, SK::Trades) => go!($st, c, $I, Kraken, PublicTrades, KrakenTrades),
            (V::Kraken, SK::L1) => go!($st, c, $I, Kraken, OrderBooksL1, KrakenOrderBookL1),
            (V::Coinbase, SK::Trades) => go!($st, c, $I, Coinbase, PublicTrades, CoinbaseTrade),
            (V::BybitSpot, SK::Trades) => go!($st, c, $I, BybitSpot, PublicTrades, BybitMessage),
            (V::BybitPerp, SK::Trades) => go!($st, c, $I, BybitPerpetualsUsd, PublicTrades, BybitMessage),
            (V::GateSpot, SK::Trades) => go!($st, c, $I, GateioSpot, PublicTrades, GateioSpotTrade),
            (V::GateFutUsd, SK::Trades) => go!($st, c, $I, GateioFuturesUsd, PublicTrades, GateioFuturesTrades),
            (V::GateFutBtc, SK::Trades) => go!($st, c, $I, GateioFuturesBtc, PublicTrades, GateioFuturesTrades),
            (V::GatePerpUsd, SK::Trades) => go!($st, c, $I, GateioPerpetualsUsd, PublicTrades, GateioFuturesTrades),
            (V::GatePerpBtc, SK::Trades) => go!($st, c, $I, GateioPerpetualsBtc, PublicTrades, GateioFuturesTrades),
            (V::GateOpt, SK::Trades) => go!($st, c, $I, GateioOptions, PublicTrades, GateioFuturesTrades),
            (V::Bitmex, SK::Trades) => go!($st, c, $I, Bitmex, PublicTrades, BitmexTrade),
            other => panic!("no connector row for {other:?}"),
        }
    }};
}

/// path (A): user subscriptions for instruments of (or absent from) the collection
fn flow_indexed(st: &mut St, world: &[XI], ix: &IndexedInstruments, batches: &[Vec<US>], salt: usize, universe: &[XI]) {
    let input = || format!("{}; user subscription batches {}", describe_world(ix, world), describe_batches(batches));
    let user: Vec<Vec<Subscription<ExchangeId, MarketDataInstrument, SubKind>>> = batches.iter().map(|b| b.iter().map(|u| Subscription::new(exchange_id(u.x.v), u.x.i.mdi(), sub_kind(u.sk))).collect()).collect();
    let flat: Vec<&US> = batches.iter().flatten().collect();
    st.n += flat.len() as u64;
    let all_present = flat.iter().all(|u| world.contains(&u.x));
    let indexed = match index_market_data_subscription_batches(ix, user) {
        Ok(indexed) => indexed,
        Err(e) => {
            if all_present { fail_once(st, L_IDX_EVENT, &input, format!("index_market_data_subscription_batches failed: {}", clip(e)), "every subscription keyed with the index of its instrument (all of them are in the collection)".into()); }
            return;
        }
    };
    if indexed.len() != batches.len() || indexed.iter().zip(batches).any(|(a, b)| a.len() != b.len()) {
        fail_once(st, L_IDX_EVENT, &input, format!("batches of {:?} subscriptions", indexed.iter().map(Vec::len).collect::<Vec<_>>()), format!("batches of {:?} subscriptions", batches.iter().map(Vec::len).collect::<Vec<_>>()));
        return;
    }
    let keys: Vec<InstrumentIndex> = indexed.iter().flatten().map(|sub| sub.instrument.key).collect();
    // an instrument that is not in the collection has no index: it must never be given the index of another instrument
    if !all_present {
        for (u, key) in flat.iter().zip(&keys) {
            if !world.contains(&u.x) {
                fail_once(st, L_IDX_DISTINCT, &input, format!("the subscription for {} (NOT in the collection) was keyed {key:?}, the index of {}", u.x.describe(), holder(ix, world, *key)), "an index error: the instrument is not in the collection".into());
            }
        }
        return;
    }
    for a in 0..flat.len() {
        for b in a + 1..flat.len() {
            if flat[a].x != flat[b].x && keys[a] == keys[b] {
                fail_once(st, L_IDX_DISTINCT, &input, format!("subscriptions for {} and for {} are both keyed {:?}", flat[a].x.describe(), flat[b].x.describe(), keys[a]), format!("distinct indices {:?} and {:?}", index_of(ix, &flat[a].x), index_of(ix, &flat[b].x)));
            }
        }
    }
    let groups = match chunks(indexed) {
        Ok(groups) => groups,
        Err(e) => { fail_once(st, L_SUBSCRIBED, &input, format!("validate_batches rejected the indexed subscriptions: {}", clip(e)), "accepted: every (exchange, instrument kind, sub kind) is supported".into()); return; }
    };
    for (b, groups) in groups.into_iter().enumerate() {
        for (exchange, kind, subs) in groups {
            let Some((v, sk)) = venue_of(exchange, kind) else { fail_once(st, L_SUBSCRIBED, &input, format!("group ({exchange}, {kind})"), "a venue of the collection".into()); continue; };
            let model: Vec<&US> = batches[b].iter().filter(|u| u.x.v == v && u.sk == sk).collect();
            if model.is_empty() { fail_once(st, L_SUBSCRIBED, &input, format!("group ({exchange}, {kind}) of batch #{b} without user subscription"), "groups of user subscriptions".into()); continue; }
            let list: Vec<Inst> = model.iter().map(|u| u.x.i).collect();
            let keys: Vec<InstrumentIndex> = model.iter().map(|u| index_of(ix, &u.x).expect("instrument of the collection")).collect();
            let venue_universe: Vec<Inst> = universe.iter().filter(|x| x.v == v).map(|x| x.i).collect();
            let msgs = messages(v, &list, &venue_universe, salt + b);
            let payloads: Vec<String> = msgs.iter().map(|m| payload(v, sk, m)).collect();
            let flavour = || format!("Keyed<InstrumentIndex, MarketDataInstrument> from index_market_data_subscription_batches + DynamicStreams::init grouping (socket of batch #{b}) over {}; user subscription batches {}", describe_world(ix, world), describe_batches(batches));
            route!(st, Chunk { v, sk, subs, flavour: &flavour, list: &list, keys: &keys, msgs: &msgs, payloads: &payloads }, Keyed<InstrumentIndex, MarketDataInstrument>);
        }
    }
}

/// path (B): subscriptions generated from the collection itself (every instrument x every sub kind, one batch per exchange)
fn flow_generated(st: &mut St, world: &[XI], ix: &IndexedInstruments, kinds: &[SK], salt: usize, universe: &[XI]) {
    let input = || format!("{}; generate_indexed_market_data_subscription_batches for {kinds:?}", describe_world(ix, world));
    let generated = generate_indexed_market_data_subscription_batches(ix, &kinds.iter().map(|sk| sub_kind(*sk)).collect::<Vec<_>>());
    st.n += generated.iter().map(|b| b.len() as u64).sum::<u64>();
    for sk in kinds {
        let keys: Vec<InstrumentIndex> = generated.iter().flatten().filter(|sub| sub.kind == sub_kind(*sk)).map(|sub| sub.instrument.key).collect();
        let distinct: HashSet<InstrumentIndex> = keys.iter().copied().collect();
        if distinct.len() != keys.len() {
            fail_once(st, L_IDX_DISTINCT, &input, format!("{sk:?} subscriptions keyed {:?}", keys.iter().map(|k| k.0).collect::<Vec<_>>()), format!("{} distinct indices", world.len()));
        }
    }
    let groups = match chunks(generated) {
        Ok(groups) => groups,
        Err(e) => { fail_once(st, L_SUBSCRIBED, &input, format!("validate_batches rejected the generated subscriptions: {}", clip(e)), "accepted: every (exchange, instrument kind, sub kind) is supported".into()); return; }
    };
    for (b, groups) in groups.into_iter().enumerate() {
        for (exchange, kind, subs) in groups {
            let Some((v, sk)) = venue_of(exchange, kind) else { fail_once(st, L_SUBSCRIBED, &input, format!("group ({exchange}, {kind})"), "a venue of the collection".into()); continue; };
            let model: Vec<&XI> = world.iter().filter(|x| x.v == v).collect();
            let list: Vec<Inst> = model.iter().map(|x| x.i).collect();
            let keys: Vec<InstrumentIndex> = model.iter().map(|x| index_of(ix, x).expect("instrument of the collection")).collect();
            let venue_universe: Vec<Inst> = universe.iter().filter(|x| x.v == v).map(|x| x.i).collect();
            let msgs = messages(v, &list, &venue_universe, salt + b);
            let payloads: Vec<String> = msgs.iter().map(|m| payload(v, sk, m)).collect();
            let flavour = || format!("MarketInstrumentData<InstrumentIndex> from generate_indexed_market_data_subscription_batches for {kinds:?} + DynamicStreams::init grouping (socket of batch #{b}) over {}", describe_world(ix, world));
            route!(st, Chunk { v, sk, subs, flavour: &flavour, list: &list, keys: &keys, msgs: &msgs, payloads: &payloads }, MarketInstrumentData<InstrumentIndex>);
        }
    }
}

/// every instrument x every sub kind of its venue in one batch, skipping an instrument that clashes with one already taken
fn all_of(world: &[XI], rev: bool) -> Vec<US> {
    let order: Vec<&XI> = if rev { world.iter().rev().collect() } else { world.iter().collect() };
    let mut taken: Vec<(&XI, String)> = vec![];
    for x in order { let m = x.market(); if !taken.iter().any(|(t, tm)| t.v == x.v && t.i != x.i && *tm == m) { taken.push((x, m)); } }
    taken.iter().flat_map(|(x, _)| sks(x.v).iter().map(|sk| US { x: **x, sk: *sk })).collect()
}

/// one collection: path (A) with everything subscribed (both orders), with every instrument on a socket of its own, with `random` seeded random
/// batch sets, with every instrument of `absent` that is not in the collection (alone, and behind a present one); path (B)
fn explore(st: &mut St, rng: &mut Rng, salt: &mut usize, world: &[XI], random: usize, absent: &[XI], universe: &[XI]) {
    let ix = IndexedInstruments::new(world.iter().map(XI::instrument));
    let input = || describe_world(&ix, world);
    let own: Vec<Option<InstrumentIndex>> = world.iter().map(|x| index_of(&ix, x)).collect();
    st.n += world.len() as u64;
    if own.iter().any(Option::is_none) || own.iter().copied().collect::<HashSet<_>>().len() != world.len() {
        fail_once(st, L_IDX_DISTINCT, &input, format!("{} instruments indexed {:?}", ix.instruments().len(), own), format!("{} distinct indices", world.len()));
        return;
    }
    let mut sets: Vec<Vec<Vec<US>>> = vec![vec![all_of(world, false)], vec![all_of(world, true)], world.iter().map(|x| sks(x.v).iter().map(|sk| US { x: *x, sk: *sk }).collect()).collect()];
    for _ in 0..random {
        sets.push((0..1 + rng.below(3)).map(|_| {
            let mut batch: Vec<US> = vec![];
            for _ in 0..1 + rng.below(8) {
                let x = world[rng.below(world.len() as u64) as usize];
                if batch.iter().any(|u| clash(&u.x, &x)) { continue; }
                let kinds = sks(x.v);
                batch.push(US { x, sk: kinds[rng.below(kinds.len() as u64) as usize] });
            }
            batch
        }).collect());
    }
    for x in absent.iter().filter(|x| !world.contains(x)) {
        sets.push(vec![vec![US { x: *x, sk: SK::Trades }]]);
        sets.push(vec![vec![US { x: world[rng.below(world.len() as u64) as usize], sk: SK::Trades }, US { x: *x, sk: SK::Trades }]]);
    }
    for batches in &sets { *salt += 1; flow_indexed(st, world, &ix, batches, *salt, universe); }
    // path (B) names the markets by `name_exchange`: one instrument per venue market
    let mut single: Vec<XI> = vec![];
    for x in world { if !single.iter().any(|s| clash(s, x)) { single.push(*x); } }
    let ixb = if single.len() == world.len() { ix } else { IndexedInstruments::new(single.iter().map(XI::instrument)) };
    *salt += 1;
    flow_generated(st, &single, &ixb, &[SK::Trades], *salt, universe);
    if single.iter().all(|x| sks(x.v).contains(&SK::L1)) { *salt += 1; flow_generated(st, &single, &ixb, &[SK::Trades, SK::L1], *salt, universe); }
}

fn run_indexed(st: &mut St, seed: u64, thorough: bool) {
    let universe = indexed_universe();
    let mut rng = Rng::seeded(seed, 1313);
    let mut salt = 0usize;
    // per venue: every collection of one instrument (every other instrument of the venue is absent) and of two instruments (first: small witnesses)
    for v in ALL_V {
        let of_venue: Vec<XI> = universe.iter().filter(|x| x.v == v).copied().collect();
        for a in 0..of_venue.len() {
            explore(st, &mut rng, &mut salt, &[of_venue[a]], 0, &of_venue, &universe);
            for b in a + 1..of_venue.len() {
                explore(st, &mut rng, &mut salt, &[of_venue[a], of_venue[b]], 0, &[], &universe);
            }
        }
    }
    // the whole universe as one collection
    explore(st, &mut rng, &mut salt, &universe, if thorough { 400 } else { 20 }, &[], &universe);
    // seeded random collections over several venues; everything else of the universe is absent
    for _ in 0..if thorough { 600 } else { 12 } {
        let keep = 1 + rng.below(3);
        let mut world: Vec<XI> = universe.iter().filter(|_| rng.chance(keep, 4)).copied().collect();
        if world.is_empty() { world.push(universe[rng.below(universe.len() as u64) as usize]); }
        // collections are built from instruments in any order
        for k in (1..world.len()).rev() { world.swap(k, rng.below(k as u64 + 1) as usize); }
        // `index_market_data_subscription_batches` renders the whole collection (eager error text) per subscription: a few absent instruments only
        // (the one-instrument collections above cover every absent instrument of a venue)
        let mut absent: Vec<XI> = universe.iter().filter(|x| !world.contains(x)).copied().collect();
        for k in (1..absent.len()).rev() { absent.swap(k, rng.below(k as u64 + 1) as usize); }
        absent.truncate(6);
        explore(st, &mut rng, &mut salt, &world, 4, &absent, &universe);
    }
}

/// Bitfinex identifies the subscription of a market-data message by a numeric channel id that is only known once the venue has confirmed the
/// subscription: `BitfinexWebSocketSubValidator::validate` re-keys the instrument map from `trades|tBTCUSD` to the channel id. The REAL validator is
/// run against a scripted local WebSocket server (loopback): whatever the interleaving of confirmations, initial snapshots and live trades of the
/// already active subscriptions, after a successful validation a trade on the channel of a subscribed market is an event for exactly that market's
/// instrument (through the real StatelessTransformer initialised with the map the validator returns).
mod bitfinex_session {
    use super::*;
    use barter_data::{exchange::bitfinex::{Bitfinex, message::BitfinexMessage, validator::BitfinexWebSocketSubValidator}, subscriber::validator::SubscriptionValidator};
    use barter_instrument::instrument::market_data::MarketDataInstrument;
    use barter_integration::protocol::websocket::WsMessage;
    use barter_instrument::instrument::market_data::kind::MarketDataInstrumentKind;
    use futures::SinkExt;

    const PAIRS: [(&str, &str, &str, u32); 3] = [("btc", "usd", "tBTCUSD", 111), ("eth", "usd", "tETHUSD", 25612), ("ltc", "usd", "tLTCUSD", 7)];
    fn subscribed(k: usize) -> String { format!(r#"{{"event":"subscribed","channel":"trades","chanId":{},"symbol":"{}","pair":"{}"}}"#, PAIRS[k].3, PAIRS[k].2, &PAIRS[k].2[1..]) }
    fn snapshot(k: usize) -> String { format!("[{},[[401597393,1574694475039,0.005,7244.9],[401597394,1574694475040,-0.01,7245.0]]]", PAIRS[k].3) }
    fn live(k: usize) -> String { format!(r#"[{},"te",[401597395,1574694478808,0.005,7245.3]]"#, PAIRS[k].3) }

    async fn session(st: &mut St, n: usize, frames: Vec<String>, what: &str) {
        st.n += 1;
        let input = || format!("Bitfinex PublicTrades, {n} subscriptions {:?}; the venue sends during subscription validation, in order: {frames:?} [{what}]", &PAIRS[..n]);
        let Ok(listener) = tokio::net::TcpListener::bind("127.0.0.1:0").await else { return; };   // (no loopback in this environment: nothing to check)
        let Ok(addr) = listener.local_addr() else { return; };
        let script = frames.clone();
        let server = tokio::spawn(async move {
            let Ok((tcp, _)) = listener.accept().await else { return; };
            let Ok(mut ws) = tokio_tungstenite::accept_async(tcp).await else { return; };
            for f in script { if ws.send(WsMessage::text(f)).await.is_err() { return; } }
            tokio::time::sleep(std::time::Duration::from_secs(30)).await;
        });
        let subs: Vec<Subscription<Bitfinex, MarketDataInstrument, PublicTrades>> = PAIRS[..n].iter().map(|p| (Bitfinex, p.0, p.1, MarketDataInstrumentKind::Spot, PublicTrades).into()).collect();
        let keys: Vec<MarketDataInstrument> = subs.iter().map(|s| s.instrument.clone()).collect();
        let SubscriptionMeta { instrument_map, .. } = WebSocketSubMapper::map::<Bitfinex, MarketDataInstrument, PublicTrades>(&subs);
        let mut fail = |label: &'static str, observed: String, expected: String| { if st.seen.insert(label) { report(label, input(), observed, expected); } };
        let Ok(mut ws) = barter_integration::protocol::websocket::connect(format!("ws://{addr}")).await else { server.abort(); return; };
        let validated = tokio::time::timeout(std::time::Duration::from_secs(20), BitfinexWebSocketSubValidator::validate::<Bitfinex, MarketDataInstrument, PublicTrades>(instrument_map, &mut ws)).await;
        server.abort();
        let (map, _buffered) = match validated {
            Ok(Ok(x)) => x,
            // (a validation that fails or does not finish - its own 10 s time-out on a loaded machine, a refused loopback connection - decides nothing here)
            Ok(Err(_)) | Err(_) => return,
        };
        let (tx, _rx) = tokio::sync::mpsc::unbounded_channel();
        let Ok(mut tf) = <StatelessTransformer<Bitfinex, MarketDataInstrument, PublicTrades, BitfinexMessage> as ExchangeTransformer<Bitfinex, MarketDataInstrument, PublicTrades>>::init(map, &[], tx).await else { return; };
        for k in 0..n {
            let msg: BitfinexMessage = match serde_json::from_str(&live(k)) { Ok(m) => m, Err(_) => return };
            let out = tf.transform(msg);
            let ok = out.len() == 1 && matches!(&out[0], Ok(ev) if ev.instrument == keys[k] && ev.exchange == ExchangeId::Bitfinex);
            if !ok {
                fail(L_SUBSCRIBED, format!("after the validation, a trade on channel {} (subscribed market {}): {:?}", PAIRS[k].3, PAIRS[k].2, out.iter().map(|r| match r { Ok(ev) => format!("event for {:?}", ev.instrument), Err(e) => format!("error {e:?}") }).collect::<Vec<_>>()),
                     format!("one event for the instrument subscribed under that market: {:?}", keys[k]));
            }
        }
    }

    pub fn run(st: &mut St) {
        let Ok(rt) = tokio::runtime::Builder::new_current_thread().enable_all().build() else { return; };
        rt.block_on(async {
            session(st, 1, vec![subscribed(0), snapshot(0)], "one subscription").await;
            session(st, 2, vec![subscribed(0), subscribed(1), snapshot(0), snapshot(1)], "confirmations first").await;
            session(st, 2, vec![subscribed(0), snapshot(0), subscribed(1), snapshot(1)], "confirmation, snapshot, confirmation, snapshot").await;
            session(st, 2, vec![subscribed(0), snapshot(0), live(0), subscribed(1), snapshot(1)], "a live trade of the already active subscription arrives before the second confirmation").await;
            session(st, 3, vec![subscribed(2), snapshot(2), live(2), live(2), subscribed(0), subscribed(1), snapshot(0), snapshot(1)], "two live trades of the first subscription before the other two confirmations").await;
            session(st, 3, vec![subscribed(1), snapshot(1), subscribed(0), live(1), snapshot(0), subscribed(2), snapshot(2)], "interleaved").await;
        });
    }
}

pub fn run(seed: u64, thorough: bool) -> u64 {
    let mut st = St { seen: HashSet::new(), n: 0 };
    bitfinex_session::run(&mut st);
    let max_len = if thorough { 4 } else { 3 };
    let mut rng = Rng::seeded(seed, 13);
    let mut lists = |u: &Vec<Inst>| -> Vec<Vec<Inst>> {
        let mut out = vec![];
        // every ordered list (repetitions allowed) up to a small length
        for len in 1..=max_len {
            let width = if len == 4 { u.len().min(6) } else { u.len() };
            for code in 0..width.pow(len as u32) { let mut c = code; out.push((0..len).map(|_| { let i = u[c % width]; c /= width; i }).collect()); }
        }
        // longer seeded random lists
        for _ in 0..if thorough { 2_000 } else { 40 } { let len = 4 + rng.below(6) as usize; out.push((0..len).map(|_| u[rng.below(u.len() as u64) as usize]).collect()); }
        out
    };
    let st = &mut st;
    venue!(st, lists, V::BinanceSpot, SK::Trades, BinanceSpot, PublicTrades, PublicTrades, BinanceTrade, true);
    venue!(st, lists, V::BinanceFut, SK::Trades, BinanceFuturesUsd, PublicTrades, PublicTrades, BinanceTrade, true);
    venue!(st, lists, V::BinanceSpot, SK::L1, BinanceSpot, OrderBooksL1, OrderBooksL1, BinanceOrderBookL1, true);
    venue!(st, lists, V::BinanceFut, SK::L1, BinanceFuturesUsd, OrderBooksL1, OrderBooksL1, BinanceOrderBookL1, true);
    venue!(st, lists, V::BinanceFut, SK::Liq, BinanceFuturesUsd, Liquidations, Liquidations, BinanceLiquidation, true);
    venue!(st, lists, V::Okx, SK::Trades, Okx, PublicTrades, PublicTrades, OkxTrades, true);
    // FIXED DEFECT (was a finding on the tree as found; now always checked): kraken_market() lower-cases the computed market
    // ("btc/usdt") while Kraken names the pair in upper case in its messages ("XBT/USD", see the connector's own payload examples), and the
    // message side builds the SubscriptionId from the pair verbatim. With MarketDataInstrument / Keyed<_, MarketDataInstrument> subscriptions
    // a trade / spread message for the SUBSCRIBED pair [0,[[..]],"trade","BTC/USDT"] is answered with Unidentifiable("trade|BTC/USDT"), and only a
    // (never sent) lower-case pair would be attributed. Kraken is therefore driven with MarketInstrumentData (verbatim venue names) only.
    venue!(st, lists, V::Kraken, SK::Trades, Kraken, PublicTrades, PublicTrades, KrakenTrades, known());
    venue!(st, lists, V::Kraken, SK::L1, Kraken, OrderBooksL1, OrderBooksL1, KrakenOrderBookL1, known());
    venue!(st, lists, V::Coinbase, SK::Trades, Coinbase, PublicTrades, PublicTrades, CoinbaseTrade, true);
    venue!(st, lists, V::BybitSpot, SK::Trades, BybitSpot, PublicTrades, PublicTrades, BybitMessage, true);
    venue!(st, lists, V::BybitPerp, SK::Trades, BybitPerpetualsUsd, PublicTrades, PublicTrades, BybitMessage, true);
    venue!(st, lists, V::GateSpot, SK::Trades, GateioSpot, PublicTrades, PublicTrades, GateioSpotTrade, true);
    venue!(st, lists, V::GateFutUsd, SK::Trades, GateioFuturesUsd, PublicTrades, PublicTrades, GateioFuturesTrades, true);
    venue!(st, lists, V::GateFutBtc, SK::Trades, GateioFuturesBtc, PublicTrades, PublicTrades, GateioFuturesTrades, true);
    venue!(st, lists, V::GatePerpUsd, SK::Trades, GateioPerpetualsUsd, PublicTrades, PublicTrades, GateioFuturesTrades, true);
    venue!(st, lists, V::GatePerpBtc, SK::Trades, GateioPerpetualsBtc, PublicTrades, PublicTrades, GateioFuturesTrades, true);
    venue!(st, lists, V::GateOpt, SK::Trades, GateioOptions, PublicTrades, PublicTrades, GateioFuturesTrades, true);
    venue!(st, lists, V::Bitmex, SK::Trades, Bitmex, PublicTrades, PublicTrades, BitmexTrade, true);
    bitfinex_payload(st);
    run_indexed(st, seed, thorough);
    st.n
}
