//! C03 bounded checker: "Order requests: sent => delivered once and in flight; refused/failed => neither".
//! Drives the REAL `Engine::process` over scenarios (every link configuration x a crafted programme, the tx map produced
//! by the real ExecutionBuilder for every subset of linked exchanges, seeded random histories) and compares the audit,
//! the drained execution links and the order tables with the reference `eng::Model`.
use crate::{eng::*, report};
use barter::{
    engine::{Processor, state::{connectivity::Health, trading::TradingState}},
    execution::builder::ExecutionBuilder,
    risk::{DefaultRiskManager, RiskManager},
};
use barter::engine::clock::HistoricalClock;
use barter_execution::{UnindexedAccountSnapshot, client::mock::MockExecutionConfig, order::state::ActiveOrderState};
use barter_instrument::{Side, instrument::InstrumentIndex};
use rust_decimal::Decimal;
use std::{collections::HashSet, panic::{AssertUnwindSafe, catch_unwind}, sync::Arc};

const L_DELIVERED: &str = "C03.bounded.sent_delivered_once_to_named_exchange";
const L_INFLIGHT: &str = "C03.bounded.sent_is_in_flight";
const L_FAILED: &str = "C03.bounded.failed_reported_with_error_no_mark";
const L_BATCH: &str = "C03.bounded.failed_algo_batch_reported";
const L_REFUSED: &str = "C03.bounded.refused_never_delivered";
const L_DISABLED: &str = "C03.bounded.disabled_no_algo_orders";
const L_COMMANDS: &str = "C03.bounded.commands_actioned_when_disabled";
/// dispatch id C01D: the same histories, reported under C01's label and only as far as the TRACKED SET is concerned
/// ("an order becomes tracked when a request for it is SENT" - not when it failed to send, was refused or was merely asked for)
const L_C01_DISPATCH: &str = "C01.bounded.tracked_exactly_when_a_request_was_sent";
/// dispatch id C02P: the same histories, reported under C02's label: a position-closed record is on the audit of exactly the fills that take
/// the net quantity to or across zero - whatever else the same event triggers (a strategy tick that issues orders, say)
const L_C02_EXIT: &str = "C02.bounded.position_closed_record_emitted_on_the_audit_of_the_closing_fill";
/// 0: C03, 1: C01D, 2: C02P
static MODE: std::sync::atomic::AtomicU8 = std::sync::atomic::AtomicU8::new(0);
fn mode() -> u8 { MODE.load(std::sync::atomic::Ordering::Relaxed) }
fn own_label(label: &str) -> bool { match mode() { 1 => label == L_C01_DISPATCH, 2 => label == L_C02_EXIT, _ => label != L_C01_DISPATCH && label != L_C02_EXIT } }
pub fn run_dispatch_for_c01(seed: u64, thorough: bool) -> u64 { MODE.store(1, std::sync::atomic::Ordering::Relaxed); run(seed, thorough) }
pub fn run_process_for_c02(seed: u64, thorough: bool) -> u64 { MODE.store(2, std::sync::atomic::Ordering::Relaxed); run(seed, thorough) }
const L_HOOK: &str = "C03.bounded.on_disabled_hook_runs_on_the_transition_only";
const L_REENABLE: &str = "C03.bounded.reenable_generates_on_that_event";

fn count(v: &[Req], r: &Req) -> usize { v.iter().filter(|q| *q == r).count() }

/// engine price / position / connectivity / order tables against the model
pub fn sync_diff(lay: &Layout, m: &Model, s: &State) -> Option<String> {
    for i in 0..lay.n_inst {
        let is = s.instruments.instrument_index(&InstrumentIndex(i));
        let price = barter::engine::state::instrument::data::InstrumentDataState::price(&is.data);
        if price != m.price(i) { return Some(format!("instrument {i}: price {:?}, reference {:?}", price, m.price(i))); }
        let pos = is.position.current.as_ref().map(|p| if p.side == Side::Buy { p.quantity_abs } else { -p.quantity_abs }).unwrap_or(Decimal::ZERO);
        if pos != tenths(m.pos[i]) { return Some(format!("instrument {i}: position {pos}, reference {}", tenths(m.pos[i]))); }
        for (cid, o) in &m.orders[i] {
            let e = engine_order_state(s, i, cid);
            if !mstate_matches(cid, Some(&o.state), e.as_ref()) { return Some(format!("instrument {i} order {cid}: {:?}, reference {:?}", e, o.state)); }
        }
        for cid in is.orders.0.keys() { if !m.orders[i].contains_key(cid.0.as_str()) { return Some(format!("instrument {i}: order {cid} tracked, reference untracked")); } }
    }
    for x in 0..N_EX {
        let c = s.connectivity.connectivity_index(&barter_instrument::exchange::ExchangeIndex(x));
        if (c.market_data == Health::Healthy, c.account == Health::Healthy) != m.conn[x] { return Some(format!("exchange {x}: links {:?}, reference {:?}", c, m.conn[x])); }
    }
    None
}

struct Run<'a> { seen: &'a mut HashSet<&'static str>, desc: &'a dyn Fn(usize) -> String, failed: bool }
impl Run<'_> {
    fn fail(&mut self, label: &'static str, k: usize, observed: String, expected: String) {
        if !own_label(label) { return; }
        self.failed = true;
        if self.seen.insert(label) { report(label, (self.desc)(k), observed, expected); }
    }
}

fn label_of(exps: &[Exp], r: &Req) -> &'static str {
    let has = |o: Outcome| exps.iter().any(|e| e.req == *r && e.outcome == o);
    if has(Outcome::Sent) { L_DELIVERED } else if has(Outcome::Failed) { L_FAILED } else if has(Outcome::Refused) { L_REFUSED } else { L_DELIVERED }
}

pub fn run_scenario<R: RiskManager<State = State>>(rig: &mut Rig<R>, links: [Link; N_EX], trading0: bool, refused: &[String], steps: &[Step], seen: &mut HashSet<&'static str>) {
    let lay = rig.lay.clone();
    let lay = &*lay;
    let observable = rig.observable;
    let desc = |k: usize| format!("{}{} (at event #{k})", if observable { "" } else { "tx map from ExecutionBuilder; " }, describe(&links, trading0, refused, &steps[..=k.min(steps.len() - 1)]));
    let mut run = Run { seen, desc: &desc, failed: false };
    let mut model = Model::new(lay, links, trading0, refused);
    let debug = std::env::var("VX_DEBUG_MODEL").is_ok();
    for (k, (ev, script)) in steps.iter().enumerate() {
        let calls0 = rig.algo_calls();
        let (hook0, was_trading) = (lock(&rig.shared).disabled_calls, model.trading);
        rig.queue(script.as_ref());
        let real = ev.real(lay);
        let audit = match catch_unwind(AssertUnwindSafe(|| rig.engine.process(real))) {
            Ok(a) => a,
            Err(_) => { run.fail(L_DELIVERED, k, "panic while processing the event".into(), "no panic".into()); return; }
        };
        let consulted = rig.algo_calls() > calls0;
        // the strategy's on-disabled logic (it may cancel / close, i.e. issue requests) runs on the Enabled -> Disabled transition only
        let hook_runs = lock(&rig.shared).disabled_calls - hook0;
        let want_hook = if matches!(ev, Ev::Trading(false)) && was_trading { 1 } else { 0 };
        if hook_runs != want_hook {
            run.fail(L_HOOK, k, format!("on_trading_disabled ran {hook_runs}x on this event (trading before the event: {})", if was_trading { "Enabled" } else { "Disabled" }), format!("{want_hook}x"));
        }
        lock(&rig.shared).next = None;
        let delivered = delivered_reqs(&rig.drain());
        let rep = parse_audit(&audit);

        // (net position of the filled instrument before the event, in tenths; the reference model nets the fills)
        let closing_fill = match ev { Ev::Fill { i, buy, qty, .. } => { let before = model.pos[*i]; let signed = if *buy { *qty } else { -*qty }; Some(before != 0 && before.signum() != signed.signum() && signed.abs() >= before.abs()) } _ => None };
        let cmd_exps = model.apply_event(lay, ev);
        if let Some(closes) = closing_fill {
            let exits = rep.outputs.iter().filter(|o| **o == "position_exit").count();
            if exits != closes as usize {
                run.fail(L_C02_EXIT, k, format!("{exits} position-closed record(s) on the audit of this fill; outputs on the record: {:?}", rep.outputs), format!("{} (the fill {} the net quantity to or across zero)", closes as usize, if closes { "takes" } else { "does not take" }));
            }
        }
        let want_algo = model.expects_algo(ev, &cmd_exps);
        if !model.trading && (consulted || rep.outputs.contains(&"algo")) {
            run.fail(L_DISABLED, k, format!("generate_algo_orders consulted={consulted}, outputs={:?}", rep.outputs), "strategy not consulted while TradingState::Disabled".into());
        }
        if matches!(ev, Ev::Trading(true)) && want_algo && !consulted {
            run.fail(L_REENABLE, k, "generate_algo_orders not consulted on TradingStateUpdate(Enabled)".into(), "orders generated on that very event".into());
        }
        let algo_exps = if consulted { model.apply_algo(script.as_ref()) } else { vec![] };
        let algo_failed = algo_exps.iter().any(|e| e.outcome == Outcome::Failed);
        let mut exps = cmd_exps.clone();
        exps.extend(algo_exps.iter().cloned());
        if matches!(ev, Ev::Trading(true)) && consulted {
            // the queued requests have to be handled on that very event
            for e in algo_exps.iter().filter(|e| e.outcome == Outcome::Sent) {
                let x = e.req.key().exchange.index();
                if observable && count(&delivered[x], &e.req) == 0 { run.fail(L_REENABLE, k, format!("{} not delivered on the enabling event", e.req.short()), "delivered on that event".into()); }
            }
        }

        // A. everything reported as sent: delivered exactly once to the named exchange, in flight afterwards
        let mut uniq: Vec<&Req> = vec![];
        for r in &rep.sent { if !uniq.contains(&r) { uniq.push(r); } }
        for r in uniq {
            let n = count(&rep.sent, r);
            let x = r.key().exchange.index();
            if observable {
                for (y, d) in delivered.iter().enumerate() {
                    let c = count(d, r);
                    let want = if y == x { n } else { 0 };
                    // (a fatal strategy batch drops its outputs from the audit: the same request may then have gone out once more, see B/E)
                    let dropped_more = y == x && algo_failed && c > n && c == exps.iter().filter(|e| e.req == *r && e.outcome == Outcome::Sent).count();
                    if c != want && !dropped_more { run.fail(label_of(&exps, r), k, format!("{} reported sent {n}x; delivered {c}x to exchange {y}; all deliveries {:?}", r.short(), delivered.iter().map(|d| shorts(d)).collect::<Vec<_>>()), format!("delivered {want}x to exchange {y} (named exchange: {x})")); }
                }
                if x >= N_EX || rig.rxs[x].is_none() { run.fail(label_of(&exps, r), k, format!("{} reported sent but exchange {x} has no live link", r.short()), "failed with an unrecoverable error".into()); }
            }
            let (i, cid) = (r.key().instrument.index(), r.key().cid.0.as_str());
            let st = engine_order_state(&rig.engine.state, i, cid);
            let ok = match r {
                Req::Open(_) => matches!(st, Some(ActiveOrderState::OpenInFlight(_)) | Some(ActiveOrderState::CancelInFlight(_))),
                Req::Cancel(_) => {
                    let tracked = exps.iter().find(|e| e.req == *r).map(|e| e.before.is_some()).unwrap_or(st.is_some());
                    !tracked || matches!(st, Some(ActiveOrderState::CancelInFlight(_)))
                }
            };
            if !ok { run.fail(L_INFLIGHT, k, format!("{} reported sent; order state afterwards {:?}", r.short(), st), "OpenInFlight / CancelInFlight".into()); }
            if !ok { run.fail(L_C01_DISPATCH, k, format!("{} reported sent; order state afterwards {:?}", r.short(), st), "tracked as OpenInFlight / CancelInFlight".into()); }
            if !exps.iter().any(|e| e.req == *r && e.outcome == Outcome::Sent) {
                run.fail(label_of(&exps, r), k, format!("{} reported sent", r.short()), format!("reference outcome: {:?}", exps.iter().find(|e| e.req == *r).map(|e| e.outcome)));
            }
        }
        // B/C/D. every request the reference says is in play
        let n_failed = exps.iter().filter(|e| e.outcome == Outcome::Failed).count();
        for e in &exps {
            let r = &e.req;
            let x = r.key().exchange.index();
            let (i, cid) = (r.key().instrument.index(), r.key().cid.0.as_str());
            let st = engine_order_state(&rig.engine.state, i, cid);
            let mark_ok = mstate_matches(cid, model.orders[i].get(cid).map(|o| &o.state), st.as_ref());
            // (on the tree as found a fatal algo tick dropped its whole output from the audit - repaired by a fix: commit, see /verif/KNOWN_FINDINGS;
            // the report of a fatal tick is now checked like any other)
            let outputs_dropped = false; let _ = algo_failed;
            if !mark_ok { run.fail(L_C01_DISPATCH, k, format!("{} ({:?} by the reference: link {:?}): order state afterwards {:?}", r.short(), e.outcome, model.link(x), st), format!("{:?}", model.orders[i].get(cid).map(|o| &o.state))); }
            match e.outcome {
                Outcome::Sent => {
                    let n = exps.iter().filter(|f| f.req == *r && f.outcome == Outcome::Sent).count();
                    if observable && count(&delivered[x], r) != n { run.fail(L_DELIVERED, k, format!("{} (link healthy) delivered {}x to exchange {x}", r.short(), count(&delivered[x], r)), format!("delivered {n}x")); }
                    let n_rep = exps.iter().filter(|f| f.req == *r && f.outcome == Outcome::Sent).count();
                    if !outputs_dropped && count(&rep.sent, r) != n_rep { run.fail(L_DELIVERED, k, format!("{} (link healthy) reported sent {}x; errors {:?}", r.short(), count(&rep.sent, r), rep.errors.iter().filter(|(q, _)| q == r).map(|(_, er)| er.to_string()).collect::<Vec<_>>()), format!("reported sent {n_rep}x")); }
                    if !mark_ok { run.fail(L_INFLIGHT, k, format!("{}: order state afterwards {:?}", r.short(), st), format!("{:?}", model.orders[i].get(cid).map(|o| &o.state))); }
                }
                Outcome::Failed => {
                    let anywhere: usize = delivered.iter().map(|d| count(d, r)).sum();
                    let tuple = rep.errors.iter().find(|(q, _)| q == r);
                    let reported = match (e.via, tuple) {
                        (_, Some((_, err))) => matches!(err, barter::engine::error::EngineError::Unrecoverable(_)),
                        (Via::Cmd, None) => false,
                        (Via::Algo, None) => false,
                    };
                    if anywhere != 0 || count(&rep.sent, r) != 0 || !reported || rep.fatal != n_failed || !mark_ok {
                        run.fail(L_FAILED, k, format!("{} (link {:?}): delivered {anywhere}x, reported sent {}x, error tuple {:?}, fatal errors on the audit {}, order state {:?}", r.short(), model.link(x), count(&rep.sent, r), tuple.map(|(_, er)| er.to_string()), rep.fatal, st),
                                 format!("not delivered, not sent, reported with an UNRECOVERABLE error ({n_failed} fatal error(s) on the audit), order state {:?}", model.orders[i].get(cid).map(|o| &o.state)));
                    }
                }
                Outcome::Refused => {
                    // (the identical request may also have been issued by the command of this event, which bypasses the risk manager)
                    let by_cmd = exps.iter().filter(|f| f.req == *r && f.outcome == Outcome::Sent).count();
                    let anywhere: usize = delivered.iter().map(|d| count(d, r)).sum();
                    let listed = outputs_dropped || count(&rep.refused, r) >= 1;
                    if anywhere != by_cmd || count(&rep.sent, r) != by_cmd || rep.errors.iter().any(|(q, _)| q == r) || !listed || !mark_ok {
                        run.fail(L_REFUSED, k, format!("{}: delivered {anywhere}x, reported sent {}x, listed refused {}x, order state {:?}", r.short(), count(&rep.sent, r), count(&rep.refused, r), st), "refused: listed as refused, never delivered, no in-flight mark".into());
                    }
                }
            }
        }
        // an algo tick whose requests ALL failed must still surface the errors (terminal audit)
        if !algo_exps.is_empty() && algo_exps.iter().all(|e| e.outcome == Outcome::Failed) {
            use barter_integration::Terminal;
            if rep.fatal == 0 || !audit.is_terminal() {
                run.fail(L_BATCH, k, format!("all {} strategy requests failed delivery; audit carries {} error(s), terminal={}", algo_exps.len(), rep.fatal, audit.is_terminal()), "errors reported, audit terminal".into());
            }
        }
        // E. nothing else may have been delivered
        if observable {
            for (x, d) in delivered.iter().enumerate() {
                for r in d {
                    let want = exps.iter().filter(|e| e.req == *r && e.outcome == Outcome::Sent && e.req.key().exchange.index() == x).count();
                    if count(d, r) != want { run.fail(label_of(&exps, r), k, format!("{} delivered {}x to exchange {x}", r.short(), count(d, r)), format!("{want}x (reference outcome {:?})", exps.iter().find(|e| e.req == *r).map(|e| e.outcome))); }
                }
            }
        }
        for (r, err) in &rep.errors {
            if !exps.iter().any(|e| e.req == *r && e.outcome == Outcome::Failed) { run.fail(L_DELIVERED, k, format!("{} reported failed: {err}", r.short()), format!("reference outcome {:?}", exps.iter().find(|e| e.req == *r).map(|e| e.outcome))); }
        }
        // disabled: commands still actioned, state still updated
        if !model.trading {
            if ev.is_command() {
                let kind = match ev { Ev::CmdOpen(_) => "cmd_open", Ev::CmdCancel(_) | Ev::CmdCancelAll(_) => "cmd_cancel", _ => "cmd_close" };
                let missing: Vec<String> = cmd_exps.iter().filter(|e| e.outcome == Outcome::Sent && (count(&rep.sent, &e.req) == 0 || (observable && count(&delivered[e.req.key().exchange.index()], &e.req) == 0))).map(|e| e.req.short()).collect();
                if !rep.outputs.contains(&kind) || !missing.is_empty() { run.fail(L_COMMANDS, k, format!("outputs {:?}; not actioned: {missing:?}", rep.outputs), format!("command actioned while disabled ({kind})")); }
            }
            if !run.failed { if let Some(d) = sync_diff(lay, &model, &rig.engine.state) { run.fail(L_COMMANDS, k, d, "state keeps being updated while disabled".into()); } }
            if rig.engine.state.trading != TradingState::Disabled { run.fail(L_DISABLED, k, "engine trading state Enabled".into(), "Disabled".into()); }
        } else if debug {
            if let Some(d) = sync_diff(lay, &model, &rig.engine.state) { eprintln!("MODEL DRIFT at {}: {d}", (run.desc)(k)); }
        }
        // the reference and the engine have diverged: later steps of this scenario would only echo the first finding
        if run.failed { return; }
    }
}

/// crafted programme exercised under every link configuration
fn programme(lay: &Layout, variant: u64) -> Vec<Step> {
    let mut s: Vec<Step> = vec![];
    let mut ts = 0i64;
    let mut tick = || { ts += 1; ts };
    let first = |x: usize| lay.ex_insts[x][0];
    let last = |x: usize| *lay.ex_insts[x].last().unwrap();
    let noise = |tag: &str| Some(AlgoScript { cancels: vec![], opens: (0..N_EX).map(|x| OpenReq { x, i: first(x), cid: format!("n{tag}{x}") }).collect() });
    for i in 0..lay.n_inst { s.push((Ev::Trade { i, t: tick(), px: 100 + i as i64 }, noise(&format!("t{i}")))); }
    s.push((Ev::Fill { i: first(0), buy: true, px: 100, qty: 10, t: tick(), id: 1 }, noise("f1")));
    s.push((Ev::Fill { i: last(2), buy: false, px: 100, qty: 20, t: tick(), id: 2 }, None));
    s.push((Ev::Fill { i: first(1), buy: true, px: 100, qty: 5, t: tick(), id: 3 }, None));
    for x in 0..N_EX { s.push((Ev::CmdOpen(vec![OpenReq { x, i: first(x), cid: format!("a{x}") }]), noise(&format!("a{x}")))); }
    s.push((Ev::CmdOpen(vec![OpenReq { x: 0, i: last(0), cid: "b0".into() }, OpenReq { x: 1, i: last(1), cid: "b1".into() }, OpenReq { x: 2, i: last(2), cid: "b2".into() }]), None));
    s.push((Ev::CmdOpen(vec![OpenReq { x: 7, i: 0, cid: "b7".into() }]), None));
    for x in 0..N_EX { s.push((Ev::OrdOpen { i: first(x), cid: format!("a{x}"), t: tick(), filled: 5 }, noise(&format!("o{x}")))); }
    for x in 0..N_EX { s.push((Ev::CmdCancel(vec![CancelReq { x, i: first(x), cid: format!("a{x}"), id: Some(order_id_of(&format!("a{x}"))) }]), None)); }
    if variant % 2 == 0 {
        s.push((Ev::CmdCancelAll(Filt::None), noise("ca")));
        s.push((Ev::CmdClose(Filt::None), noise("cl")));
    } else {
        for x in 0..N_EX { s.push((Ev::CmdCancelAll(Filt::Ex(vec![x])), noise(&format!("ca{x}")))); }
        for x in (0..N_EX).rev() { s.push((Ev::CmdClose(Filt::Ex(vec![x])), None)); }
    }
    // enable: the queued orders go out on that very event
    s.push((Ev::Trading(true), Some(AlgoScript { cancels: vec![], opens: vec![OpenReq { x: 0, i: first(0), cid: "d0".into() }, OpenReq { x: 1, i: first(1), cid: "d1".into() }, OpenReq { x: 2, i: first(2), cid: "d2".into() }, OpenReq { x: 0, i: last(0), cid: "r3".into() }] })));
    // strategy batches addressed to a single exchange (all fail when its link is closed / missing)
    for x in 0..N_EX {
        s.push((Ev::Trade { i: first(x), t: tick(), px: 120 }, Some(AlgoScript { cancels: vec![], opens: vec![OpenReq { x, i: first(x), cid: format!("e{x}") }, OpenReq { x, i: last(x), cid: format!("g{x}") }] })));
        s.push((Ev::Bal { a: lay.ex_assets[x][0], t: tick(), total: 7 }, Some(AlgoScript { cancels: vec![CancelReq { x, i: first(x), cid: format!("e{x}"), id: None }], opens: vec![] })));
    }
    s.push((Ev::L1 { i: 0, t: tick(), bid: Some(99), ask: Some(101) }, Some(AlgoScript { cancels: vec![CancelReq { x: 0, i: last(0), cid: "r9".into(), id: None }], opens: vec![OpenReq { x: 1, i: first(1), cid: "r4".into() }] })));
    s.push((Ev::Trading(false), noise("off")));
    s.push((Ev::Trade { i: 1, t: tick(), px: 130 }, noise("late")));
    s.push((Ev::CmdOpen(vec![OpenReq { x: 2, i: last(2), cid: "z2".into() }]), noise("z")));
    s.push((Ev::Trading(true), Some(AlgoScript { cancels: vec![], opens: vec![OpenReq { x: 2, i: first(2), cid: "y2".into() }] })));
    // a request that REUSES the client order id of an order the exchange has confirmed open (and of one whose cancel is in flight): once
    // reported sent, 'the order it opens is from then on shown as in flight' - whatever was tracked under that id before
    for x in 0..N_EX {
        s.push((Ev::CmdOpen(vec![OpenReq { x, i: last(x), cid: format!("q{x}") }]), None));
        s.push((Ev::OrdOpen { i: last(x), cid: format!("q{x}"), t: tick(), filled: 3 }, None));
        s.push((Ev::CmdOpen(vec![OpenReq { x, i: last(x), cid: format!("q{x}") }]), None));
        s.push((Ev::OrdOpen { i: last(x), cid: format!("q{x}"), t: tick(), filled: 4 }, None));
        s.push((Ev::CmdCancel(vec![CancelReq { x, i: last(x), cid: format!("q{x}"), id: Some(order_id_of(&format!("q{x}"))) }]), None));
        s.push((Ev::Trade { i: last(x), t: tick(), px: 125 }, Some(AlgoScript { cancels: vec![], opens: vec![OpenReq { x, i: last(x), cid: format!("q{x}") }] })));
    }
    s
}

fn set_risk(refused: &[String]) -> SetRisk {
    let r = SetRisk::default();
    lock(&r.refuse).extend(refused.iter().map(|c| barter_execution::order::id::ClientOrderId::new(c)));
    r
}

/// tx map produced by the REAL ExecutionBuilder with mock links for the exchanges in `mask`
fn builder_rig(lay: &Arc<Layout>, mask: usize, trading: TradingState, refused: &[String]) -> Option<Rig<SetRisk>> {
    let mut b = ExecutionBuilder::new(&lay.indexed);
    for x in 0..N_EX {
        if mask >> x & 1 == 1 {
            let cfg = MockExecutionConfig { mocked_exchange: lay.ex_ids[x], initial_state: UnindexedAccountSnapshot { exchange: lay.ex_ids[x], balances: vec![], instruments: vec![] }, latency_ms: 0, fees_percent: Decimal::ZERO };
            b = b.add_mock(cfg, HistoricalClock::new(t(0))).ok()?;
        }
    }
    let built = b.build();
    // the receivers live inside the (never polled) init futures: keep them alive so that the links stay open
    let keep: Box<dyn std::any::Any> = Box::new((built.futures.mock_exchange_run_futures, built.futures.execution_init_futures, built.account_channel));
    Some(build_with_txs(lay, built.execution_tx_map, (0..N_EX).map(|_| None).collect(), trading, set_risk(refused), false, Some(keep)))
}

pub fn run(seed: u64, thorough: bool) -> u64 {
    let mut seen: HashSet<&'static str> = HashSet::new();
    let mut n = 0u64;
    let lay = layout();
    let refused: Vec<String> = vec!["r3".into(), "r4".into(), "r9".into()];
    // 1. seeded random histories (first: their inputs are the shortest)
    let mut rng = Rng::seeded(seed, 3);
    let rounds = if thorough { 200_000 } else { 10_000 };
    for round in 0..rounds {
        let mut links = [Link::Healthy; N_EX];
        for l in links.iter_mut() { *l = match rng.below(4) { 0 => Link::Closed, 1 => Link::Missing, _ => Link::Healthy }; }
        let trading0 = rng.chance(1, 2);
        let len = 3 + rng.below(10) as usize;
        let default_risk = round % 4 == 3;
        let (steps, refused) = {
            let mut g = Gen::new(&mut rng, &lay, GenCfg { monotone: true, odd_keys: true, shutdown: false, reconnects: true });
            let steps: Vec<Step> = (0..len).map(|_| { let e = g.event(); let a = g.script(); (e, a) }).collect();
            (steps, if default_risk { vec![] } else { g.refused.clone() })
        };
        let trading = if trading0 { TradingState::Enabled } else { TradingState::Disabled };
        if default_risk {
            let mut rig = build(&lay, links, trading, DefaultRiskManager::<State>::default());
            run_scenario(&mut rig, links, trading0, &refused, &steps, &mut seen);
        } else {
            let mut rig = build(&lay, links, trading, set_risk(&refused));
            run_scenario(&mut rig, links, trading0, &refused, &steps, &mut seen);
        }
        n += 1;
    }
    // 2. every link configuration x crafted programme (two variants, both initial trading states)
    for links in all_link_configs() {
        for variant in 0..4u64 {
            let steps = programme(&lay, variant);
            let trading0 = variant >= 2;
            let mut steps = steps;
            if trading0 { steps.insert(0, (Ev::Trading(false), None)); }
            let mut rig = build(&lay, links, if trading0 { TradingState::Enabled } else { TradingState::Disabled }, set_risk(&refused));
            run_scenario(&mut rig, links, trading0, &refused, &steps, &mut seen);
            n += 1;
        }
    }
    // 3. tx map built by the real ExecutionBuilder, for every subset of exchanges that have an execution link
    for mask in 0..(1usize << N_EX) {
        let mut links = [Link::Missing; N_EX];
        for x in 0..N_EX { if mask >> x & 1 == 1 { links[x] = Link::Healthy; } }
        for variant in 0..2u64 {
            let steps = programme(&lay, variant);
            match catch_unwind(AssertUnwindSafe(|| builder_rig(&lay, mask, TradingState::Disabled, &refused))) {
                Ok(Some(mut rig)) => run_scenario(&mut rig, links, false, &refused, &steps, &mut seen),
                _ => { if seen.insert(L_DELIVERED) { report(L_DELIVERED, format!("ExecutionBuilder with mock links for exchange mask {mask:#b}"), "builder failed / panicked".into(), "tx map".into()); } }
            }
            n += 1;
        }
    }
    n
}
