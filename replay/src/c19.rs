//! C19 bounded checker: "Cancel-orders and close-positions commands act on exactly the filtered scope".
//! Engine states are reached through REAL events (open commands, Open snapshots, cancel commands, fills, market data) so
//! that every instrument holds any mix of OpenInFlight / Open / CancelInFlight{None} / CancelInFlight{Some} orders, a
//! long / short / no position and a known (trade or L1) / unknown price; then Command::CancelOrders (twice) and
//! Command::ClosePositions are actioned for every InstrumentFilter shape and compared with the reference sets of `eng::Model`.
use crate::{eng::*, report};
use barter::{engine::{Processor, state::trading::TradingState}, risk::DefaultRiskManager};
use barter_instrument::instrument::InstrumentIndex;
use std::{collections::HashSet, panic::{AssertUnwindSafe, catch_unwind}};

const L_CANCEL: &str = "C19.bounded.cancel_exact_set";
const L_CLOSE: &str = "C19.bounded.close_exact_set";
const L_OUTSIDE: &str = "C19.bounded.outside_filter_untouched";
const L_REPEAT: &str = "C19.bounded.repeat_cancel_requests_nothing";
const L_SETUP: &str = "C19.bounded.setup_state_reached";

/// per-instrument configuration: bit0 OIF, bit1 OPEN, bit2 CIF{None}, bit3 CIF{Some}; position 0 none / 1 long / 2 short; price 0 unknown / 1 trade / 2 L1
#[derive(Debug, Copy, Clone)]
struct Cfg { orders: u8, pos: u8, price: u8 }
fn cfg_of(code: u64) -> Cfg { Cfg { orders: (code % 16) as u8, pos: (code / 16 % 3) as u8, price: (code / 48 % 3) as u8 } }
const N_CFG: u64 = 16 * 3 * 3;

fn filters(lay: &Layout) -> Vec<Filt> {
    let mut v = vec![Filt::None];
    for m in 1..(1usize << N_EX) { v.push(Filt::Ex((0..N_EX).filter(|x| m >> x & 1 == 1).collect())); }
    v.push(Filt::Ex(vec![2, 0]));
    for i in 0..lay.n_inst { v.push(Filt::Ins(vec![i])); }
    v.push(Filt::Ins(vec![0, lay.n_inst - 1]));
    v.push(Filt::Ins(vec![1, 2, 4]));
    v.push(Filt::Ins((0..lay.n_inst).collect()));
    for i in 0..lay.n_inst { v.push(Filt::Und(vec![i])); }
    v.push(Filt::Und(vec![0, 2]));
    v.push(Filt::Und(vec![1, 3, 5]));
    v
}

fn setup_events(lay: &Layout, cfgs: &[Cfg]) -> Vec<Ev> {
    let mut evs = vec![];
    let mut ts = 0i64;
    let mut tick = || { ts += 1; ts };
    let mut fill = 0u32;
    for (i, c) in cfgs.iter().enumerate() {
        let x = lay.inst_ex[i];
        let cid = |k: &str| format!("{k}{i}");
        let mut opens = vec![];
        for (bit, k) in [(0, "f"), (1, "o"), (2, "n"), (3, "s")] { if c.orders >> bit & 1 == 1 { opens.push(OpenReq { x, i, cid: cid(k) }); } }
        if !opens.is_empty() { evs.push(Ev::CmdOpen(opens)); }
        if c.orders >> 1 & 1 == 1 { evs.push(Ev::OrdOpen { i, cid: cid("o"), t: tick(), filled: if i % 2 == 0 { 0 } else { 5 } }); }
        if c.orders >> 3 & 1 == 1 { evs.push(Ev::OrdOpen { i, cid: cid("s"), t: tick(), filled: 5 }); }
        let mut cancels = vec![];
        if c.orders >> 2 & 1 == 1 { cancels.push(CancelReq { x, i, cid: cid("n"), id: None }); }
        if c.orders >> 3 & 1 == 1 { cancels.push(CancelReq { x, i, cid: cid("s"), id: Some(order_id_of(&cid("s"))) }); }
        if !cancels.is_empty() { evs.push(Ev::CmdCancel(cancels)); }
        match c.pos {
            1 => { fill += 1; evs.push(Ev::Fill { i, buy: true, px: 100, qty: 10 + 5 * (i as i64 % 3), t: tick(), id: fill }); }
            2 => { fill += 1; evs.push(Ev::Fill { i, buy: false, px: 100, qty: 20, t: tick(), id: fill }); fill += 1; evs.push(Ev::Fill { i, buy: true, px: 99, qty: 5, t: tick(), id: fill }); }
            _ => {}
        }
        match c.price {
            1 => evs.push(Ev::Trade { i, t: tick(), px: 100 + i as i64 }),
            2 => { evs.push(Ev::Trade { i, t: tick(), px: 50 }); evs.push(Ev::L1 { i, t: tick(), bid: Some(100 + i as i64), ask: Some(103 + i as i64) }); }
            _ => {}
        }
    }
    evs
}

fn same_multiset(a: &[Req], b: &[Req]) -> bool { a.len() == b.len() && a.iter().all(|r| a.iter().filter(|q| *q == r).count() == b.iter().filter(|q| *q == r).count()) }

struct Ctx { seen: HashSet<&'static str> }
impl Ctx { fn fail(&mut self, label: &'static str, input: &dyn Fn() -> String, obs: String, exp: String) { if self.seen.insert(label) { report(label, input(), obs, exp); } } }

/// action one command, compare the reported + delivered requests with the reference set; returns false on panic
fn action(ctx: &mut Ctx, rig: &mut Rig<DefaultRiskManager<State>>, model: &mut Model, cmd: &Ev, f: &Filt, label: &'static str, input: &dyn Fn() -> String) -> bool {
    let lay = rig.lay.clone();
    let before = rig.engine.state.clone();
    let real = cmd.real(&lay);
    let Ok(audit) = catch_unwind(AssertUnwindSafe(|| rig.engine.process(real))) else {
        ctx.fail(label, input, format!("panic while actioning {cmd:?}"), "no panic".into());
        return false;
    };
    let rep = parse_audit(&audit);
    let delivered = delivered_reqs(&rig.drain());
    let exps = model.apply_event(&lay, cmd);
    // the requested set is the reference set whatever happens to the delivery: requests addressed to an exchange whose link is gone are
    // reported with their error, every other request of the command is still sent
    let want: Vec<Req> = exps.iter().filter(|e| e.outcome == crate::eng::Outcome::Sent).map(|e| e.req.clone()).collect();
    let want_failed: Vec<Req> = exps.iter().filter(|e| e.outcome == crate::eng::Outcome::Failed).map(|e| e.req.clone()).collect();
    let got_failed: Vec<Req> = rep.errors.iter().map(|(r, _)| r.clone()).collect();
    let kind = if matches!(cmd, Ev::CmdClose(_)) { "cmd_close" } else { "cmd_cancel" };
    if !rep.outputs.contains(&kind) || !same_multiset(&rep.sent, &want) || !same_multiset(&got_failed, &want_failed) {
        ctx.fail(label, input, format!("{cmd:?}: outputs {:?}, requested {}, reported with an error {}", rep.outputs, shorts(&rep.sent), shorts(&got_failed)), format!("requested exactly {}, reported with an error exactly {}", shorts(&want), shorts(&want_failed)));
    }
    for x in 0..N_EX {
        let want_x: Vec<Req> = want.iter().filter(|r| r.key().exchange.index() == x).cloned().collect();
        if !same_multiset(&delivered[x], &want_x) { ctx.fail(label, input, format!("{cmd:?}: delivered to exchange {x}: {}", shorts(&delivered[x])), format!("exactly {}", shorts(&want_x))); }
    }
    // instruments outside the filter are untouched; inside: only the in-flight marks of the requested orders change
    for i in 0..lay.n_inst {
        let (b, a) = (before.instruments.instrument_index(&InstrumentIndex(i)), rig.engine.state.instruments.instrument_index(&InstrumentIndex(i)));
        if !f.matches(&lay, i) {
            if a != b { ctx.fail(L_OUTSIDE, input, format!("{cmd:?}: instrument {i} (outside the filter) changed: orders {:?}", a.orders.0.values().map(|o| (o.key.cid.to_string(), format!("{:?}", o.state))).collect::<Vec<_>>()), "unchanged".into()); }
        } else {
            if a.position != b.position || a.data != b.data || a.tear_sheet != b.tear_sheet { ctx.fail(label, input, format!("{cmd:?}: instrument {i} position / market data changed"), "only order marks change".into()); }
        }
    }
    if before.assets != rig.engine.state.assets || before.connectivity != rig.engine.state.connectivity || before.trading != rig.engine.state.trading { ctx.fail(L_OUTSIDE, input, format!("{cmd:?}: assets / connectivity / trading state changed"), "unchanged".into()); }
    if let Some(d) = crate::c03::sync_diff(&lay, model, &rig.engine.state) { ctx.fail(label, input, format!("after {cmd:?}: {d}"), "requested orders marked in flight, everything else as before".into()); }
    true
}

fn one_case(ctx: &mut Ctx, lay: &std::sync::Arc<Layout>, links: [Link; N_EX], dead_after_setup: Option<usize>, cfgs: &[Cfg], f_cancel: &Filt, f_close: &Filt, trading: TradingState, close_only: bool) {
    let mut rig = build(lay, links, trading, DefaultRiskManager::<State>::default());
    let mut model = Model::new(lay, links, trading == TradingState::Enabled, &[]);
    let setup = setup_events(lay, cfgs);
    let input = || format!("links {links:?} (Missing = an exchange that is tracked for market data only: no execution link, no orders, no position){}, trading {trading:?}; setup events={setup:?}; then {}", if let Some(x) = dead_after_setup { format!("; after the set-up the execution link of exchange {x} is closed (receiver dropped)") } else { String::new() }, if close_only { format!("ClosePositions({f_close:?})") } else { format!("CancelOrders({f_cancel:?}) twice") });
    for ev in &setup {
        let real = ev.real(lay);
        if catch_unwind(AssertUnwindSafe(|| { let _ = rig.engine.process(real); })).is_err() { ctx.fail(L_SETUP, &input, format!("panic in set-up at {ev:?}"), "no panic".into()); return; }
        model.apply_event(lay, ev);
    }
    rig.drain();
    if let Some(d) = crate::c03::sync_diff(lay, &model, &rig.engine.state) { ctx.fail(L_SETUP, &input, d, "set-up state reached".into()); return; }
    // intended configuration really reached (reference side)
    for (i, c) in cfgs.iter().enumerate() {
        let has = |k: &str| model.orders[i].get(&format!("{k}{i}")).map(|o| o.state.clone());
        let ok = (c.orders & 1 == 0 || has("f") == Some(MState::Oif)) && (c.orders >> 1 & 1 == 0 || matches!(has("o"), Some(MState::Open(_)))) && (c.orders >> 2 & 1 == 0 || has("n") == Some(MState::Cif(None))) && (c.orders >> 3 & 1 == 0 || matches!(has("s"), Some(MState::Cif(Some(_)))))
            && (c.pos == 0) == (model.pos[i] == 0) && (c.price == 0) == model.price(i).is_none();
        if !ok { ctx.fail(L_SETUP, &input, format!("instrument {i}: reference state {:?} pos {} price {:?}", model.orders[i], model.pos[i], model.price(i)), format!("{c:?}")); return; }
    }
    if let Some(x) = dead_after_setup {
        if links[x] == Link::Healthy { rig.rxs[x] = None; model.links[x] = Link::Closed; }     // the receiver of exchange x's execution link is dropped
    }
    if close_only {
        let close = Ev::CmdClose(f_close.clone());
        action(ctx, &mut rig, &mut model, &close, f_close, L_CLOSE, &input);
        return;
    }
    let cancel = Ev::CmdCancelAll(f_cancel.clone());
    if !action(ctx, &mut rig, &mut model, &cancel, f_cancel, L_CANCEL, &input) { return; }
    // the same command again: nothing new
    let before = rig.engine.state.clone();
    let real = cancel.real(lay);
    match catch_unwind(AssertUnwindSafe(|| rig.engine.process(real))) {
        Ok(audit) => {
            let rep = parse_audit(&audit);
            let delivered = delivered_reqs(&rig.drain());
            let again = model.apply_event(lay, &cancel);
            // (a request that could not be delivered the first time - dead link - left no in-flight mark and is, rightly, attempted and reported again)
            let again_failed: Vec<Req> = again.iter().filter(|e| e.outcome == crate::eng::Outcome::Failed).map(|e| e.req.clone()).collect();
            let got_failed: Vec<Req> = rep.errors.iter().map(|(r, _)| r.clone()).collect();
            if !rep.sent.is_empty() || !same_multiset(&got_failed, &again_failed) || delivered.iter().any(|d| !d.is_empty()) || before != rig.engine.state || again.iter().any(|e| e.outcome == crate::eng::Outcome::Sent) {
                ctx.fail(L_REPEAT, &input, format!("second CancelOrders({f_cancel:?}) requested {} delivered {:?}", shorts(&rep.sent), delivered.iter().map(|d| shorts(d)).collect::<Vec<_>>()), "nothing requested, state unchanged".into());
            }
        }
        Err(_) => { ctx.fail(L_REPEAT, &input, "panic".into(), "no panic".into()); return; }
    }
    // (orders being cancelled must not disturb closing: also close on this engine when the cancel part was clean)
    if ctx.seen.is_empty() {
        let close = Ev::CmdClose(f_close.clone());
        action(ctx, &mut rig, &mut model, &close, f_close, L_CLOSE, &|| format!("{} then ClosePositions({f_close:?})", input()));
    }
}

pub fn run(seed: u64, thorough: bool) -> u64 {
    let lay = layout();
    let mut ctx = Ctx { seen: HashSet::new() };
    let fs = filters(&lay);
    let mut rng = Rng::seeded(seed, 19);
    let mut n = 0u64;
    let rounds: u64 = if thorough { 60_000 } else { 6_000 };
    for k in 0..rounds {
        // instrument k%6 runs through all configurations, the filter list is cycled, everything else is seeded random
        let mut cfgs: Vec<Cfg> = (0..lay.n_inst).map(|_| cfg_of(rng.below(N_CFG))).collect();
        let focus = (k % lay.n_inst as u64) as usize;
        cfgs[focus] = cfg_of(k / lay.n_inst as u64 % N_CFG);
        if k % 7 == 0 { for c in cfgs.iter_mut() { c.orders |= 0b1010; c.pos = 1 + (c.pos % 2); c.price = 1 + (c.price % 2); } }
        let f_cancel = fs[(k % fs.len() as u64) as usize].clone();
        let f_close = if k % 3 == 0 { fs[rng.below(fs.len() as u64) as usize].clone() } else { f_cancel.clone() };
        let trading = if k % 5 == 4 { TradingState::Enabled } else { TradingState::Disabled };
        // every fourth round the FIRST exchange is tracked for market data only (no execution link; its instruments hold no orders and no
        // position): requests for the traded exchanges must still reach THEIR links (the table of links is positional by exchange index)
        let mut links = [Link::Healthy; N_EX];
        if k % 4 == 1 {
            links[0] = Link::Missing;
            for (i, c) in cfgs.iter_mut().enumerate() { if lay.inst_ex[i] == 0 { c.orders = 0; c.pos = 0; } }
        }
        // every eighth round the link of one exchange that DOES hold orders / positions goes away just before the command: its requests are
        // reported with their (fatal) error, the requests for the other exchanges are still made
        let dead_after_setup = if k % 8 == 3 { Some((k / 8 % N_EX as u64) as usize) } else { None };
        one_case(&mut ctx, &lay, links, dead_after_setup, &cfgs, &f_cancel, &f_close, trading, false);
        one_case(&mut ctx, &lay, links, dead_after_setup, &cfgs, &f_cancel, &f_close, trading, true);
        n += 1;
    }
    n
}
