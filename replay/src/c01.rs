use crate::report;
use barter::engine::state::order::{Orders, in_flight_recorder::InFlightRequestRecorder, manager::OrderManager};
use barter_execution::{
    error::{ConnectivityError, OrderError},
    order::{
        Order, OrderEvent, OrderKey, OrderKind, TimeInForce,
        id::{ClientOrderId, OrderId, StrategyId},
        request::{RequestCancel, RequestOpen},
        state::{ActiveOrderState, CancelInFlight, Cancelled, InactiveOrderState, Open, OpenInFlight, OrderState},
    },
};
use barter_instrument::{Side, exchange::ExchangeIndex, instrument::InstrumentIndex};
use barter_integration::snapshot::Snapshot;
use chrono::{DateTime, Utc};
use rust_decimal::Decimal;
use rust_decimal_macros::dec;
use std::collections::HashSet;

type AOrder = Order<ExchangeIndex, InstrumentIndex, ActiveOrderState>;
type SOrder = Order<ExchangeIndex, InstrumentIndex, OrderState>;

fn t(s: i64) -> DateTime<Utc> {
    DateTime::<Utc>::from_timestamp(1_700_000_000 + s, 0).unwrap()
}
fn key(cid: &str) -> OrderKey {
    OrderKey { exchange: ExchangeIndex(0), instrument: InstrumentIndex(0), strategy: StrategyId::new("s"), cid: ClientOrderId::new(cid) }
}
fn order<S>(cid: &str, state: S) -> Order<ExchangeIndex, InstrumentIndex, S> {
    Order { key: key(cid), side: Side::Buy, price: dec!(10), quantity: dec!(1), kind: OrderKind::Limit,
            time_in_force: TimeInForce::GoodUntilCancelled { post_only: false }, state }
}
fn open(ts: i64, filled: Decimal) -> Open {
    Open { id: OrderId::new(format!("x{ts}{filled}")), time_exchange: t(ts), filled_quantity: filled }
}
fn open_of(s: &ActiveOrderState) -> Option<Open> {
    match s {
        ActiveOrderState::OpenInFlight(_) => None,
        ActiveOrderState::Open(o) => Some(o.clone()),
        ActiveOrderState::CancelInFlight(c) => c.order.clone(),
    }
}

fn opens() -> Vec<Open> {
    let mut v = vec![];
    for ts in [0, 1, 2] {
        for f in [dec!(0), dec!(0.5), dec!(1)] {
            v.push(open(ts, f));
        }
    }
    v
}
fn active_states() -> Vec<ActiveOrderState> {
    let mut v = vec![ActiveOrderState::OpenInFlight(OpenInFlight), ActiveOrderState::CancelInFlight(CancelInFlight { order: None })];
    for o in opens() {
        v.push(ActiveOrderState::Open(o.clone()));
        v.push(ActiveOrderState::CancelInFlight(CancelInFlight { order: Some(o) }));
    }
    v
}

#[derive(Debug, Clone)]
enum Input {
    Snapshot(SOrder),
    CancelResp(bool),
    RecordCancel,
    RecordOpen,
}

fn inputs() -> Vec<Input> {
    let mut v = vec![];
    for a in active_states() {
        v.push(Input::Snapshot(order("A", OrderState::Active(a))));
    }
    for i in [
        InactiveOrderState::Cancelled(Cancelled { id: OrderId::new("x"), time_exchange: t(1) }),
        InactiveOrderState::FullyFilled,
        InactiveOrderState::Expired,
        InactiveOrderState::OpenFailed(OrderError::Connectivity(ConnectivityError::Timeout)),
    ] {
        v.push(Input::Snapshot(order("A", OrderState::Inactive(i))));
    }
    v.extend([Input::CancelResp(true), Input::CancelResp(false), Input::RecordCancel, Input::RecordOpen]);
    v
}

fn apply(orders: &mut Orders, input: &Input) {
    match input {
        Input::Snapshot(s) => orders.update_from_order_snapshot(Snapshot(s)),
        Input::CancelResp(ok) => {
            let state: Result<Cancelled, OrderError> = if *ok {
                Ok(Cancelled { id: OrderId::new("x"), time_exchange: t(1) })
            } else {
                Err(OrderError::Connectivity(ConnectivityError::Timeout))
            };
            orders.update_from_cancel_response(&OrderEvent { key: key("A"), state })
        }
        Input::RecordCancel => orders.record_in_flight_cancel(&OrderEvent { key: key("A"), state: RequestCancel { id: None } }),
        Input::RecordOpen => orders.record_in_flight_open(&OrderEvent {
            key: key("A"),
            state: RequestOpen { side: Side::Buy, price: dec!(10), quantity: dec!(1), kind: OrderKind::Limit,
                                 time_in_force: TimeInForce::GoodUntilCancelled { post_only: false } },
        }),
    }
}

/// executable rendering of the C01 post-conditions; returns failed obligation labels
fn check(before: &Orders, input: &Input, after: &Orders) -> Vec<(&'static str, String)> {
    let a = ClientOrderId::new("A");
    let b = ClientOrderId::new("B");
    let m0 = before.0.get(&a);
    let m1 = after.0.get(&a);
    let h0 = m0.and_then(|o| open_of(&o.state));
    let h1 = m1.and_then(|o| open_of(&o.state));
    let mut f = vec![];
    let pre = match input { Input::Snapshot(_) => "snapshot", Input::CancelResp(_) => "cancel_response", Input::RecordCancel => "record_cancel", Input::RecordOpen => "record_open" };
    let lab = |s: &str| -> &'static str { Box::leak(format!("C01.{pre}.{s}").into_boxed_str()) };
    if before.0.get(&b) != after.0.get(&b) || after.0.len() > before.0.len() + 1 {
        f.push((lab("frame"), "bystander order B changed".into()));
    }
    if let (Some(h0), Some(_), false) = (&h0, m1, matches!(input, Input::RecordOpen)) {
        match &h1 {
            Some(h1) if h0.time_exchange <= h1.time_exchange => {}
            other => f.push((lab("ts_monotone"), format!("held {:?} -> {:?}", h0.time_exchange, other.as_ref().map(|o| o.time_exchange)))),
        }
    }
    match input {
        Input::Snapshot(s) => {
            match &s.state {
                OrderState::Inactive(_) => {
                    if m1.is_some() { f.push((lab("inactive_untracked"), "still tracked".into())); }
                }
                OrderState::Active(ActiveOrderState::Open(o)) => {
                    let nothing_left = (s.quantity - o.filled_quantity).is_zero();
                    let stale = h0.as_ref().is_some_and(|h| h.time_exchange > o.time_exchange);
                    if nothing_left {
                        let arm = match m0.map(|o| &o.state) {
                            None => Some("open_nothing_left.untracked_stays_untracked"),
                            Some(ActiveOrderState::OpenInFlight(_)) => Some("open_nothing_left.in_flight_untracked"),
                            Some(ActiveOrderState::Open(_)) if !stale => Some("open_nothing_left.open_untracked"),
                            Some(ActiveOrderState::CancelInFlight(_)) if !stale => Some("open_nothing_left.cancel_in_flight_untracked"),
                            _ => None,
                        };
                        if let (Some(arm), true) = (arm, m1.is_some()) {
                            f.push((lab(arm), "order with nothing left to fill is still tracked".into()));
                        }
                    } else {
                        let want = if stale { h0.clone() } else { Some(o.clone()) };
                        if m1.is_none() || h1 != want {
                            f.push((lab("open_tracked_latest"), format!("held {:?}, want {:?}", h1, want)));
                        }
                    }
                    if let Some(n) = m1 {
                        let was_cif = matches!(m0.map(|o| &o.state), Some(ActiveOrderState::CancelInFlight(_)));
                        if matches!(n.state, ActiveOrderState::CancelInFlight(_)) != was_cif { f.push((lab("cancel_marker_kept"), format!("{:?}", n.state))); }
                        if matches!(n.state, ActiveOrderState::OpenInFlight(_)) { f.push((lab("open_confirms"), "still OpenInFlight".into())); }
                    }
                }
                OrderState::Active(other) => {
                    if m1.is_none() { f.push((lab("in_flight_report_tracked"), "untracked".into())); }
                    if matches!(other, ActiveOrderState::OpenInFlight(_)) && m0.is_some() && m0 != m1 { f.push((lab("open_in_flight_report_no_change"), "changed".into())); }
                    if matches!(other, ActiveOrderState::CancelInFlight(_)) && !matches!(m1.map(|o| &o.state), Some(ActiveOrderState::CancelInFlight(_))) {
                        f.push((lab("cancel_in_flight_report_marks"), format!("{:?}", m1.map(|o| &o.state))));
                    }
                }
            }
            if let Some(n) = m1 {
                let rep = match &s.state { OrderState::Active(a) => open_of(a), _ => None };
                if !(h1 == h0 || (matches!(s.state, OrderState::Active(_)) && h1 == rep)) { f.push((lab("held_is_delivered"), format!("{:?}", h1))); }
                if m0.is_none() && Some(n.clone()) != s.to_active() { f.push((lab("new_order_is_reported"), format!("{:?}", n))); }
                if let Some(o) = m0 { if o.key != n.key { f.push((lab("tracked_key_kept"), format!("{:?}", n.key))); } }
            }
        }
        Input::CancelResp(ok) => {
            if *ok && m1.is_some() { f.push((lab("ok_untracked"), "still tracked".into())); }
            if !*ok {
                match m0 {
                    Some(o) => match &o.state {
                        ActiveOrderState::CancelInFlight(CancelInFlight { order: Some(op) }) => {
                            let want = Order { state: ActiveOrderState::Open(op.clone()), ..o.clone() };
                            if m1 != Some(&want) { f.push((lab("err_restores_open"), format!("{:?}", m1))); }
                        }
                        ActiveOrderState::CancelInFlight(_) => {}
                        _ => if before != after { f.push((lab("err_not_cancelling_no_change"), format!("{:?}", m1))); },
                    },
                    None => if before != after { f.push((lab("untracked_no_change"), format!("{:?}", m1))); },
                }
            }
        }
        Input::RecordCancel => match m0 {
            Some(o) => {
                let want = Order { state: ActiveOrderState::CancelInFlight(CancelInFlight { order: open_of(&o.state) }), ..o.clone() };
                if m1 != Some(&want) { f.push((lab("marks_cancel_in_flight"), format!("{:?}", m1))); }
            }
            None => if before != after { f.push((lab("untracked_no_change"), format!("{:?}", m1))); },
        },
        Input::RecordOpen => {
            let want: AOrder = order("A", ActiveOrderState::OpenInFlight(OpenInFlight));
            if m1 != Some(&want) { f.push((lab("tracked_in_flight"), format!("{:?}", m1))); }
        }
    }
    if after.0.iter().any(|(c, o)| &o.key.cid != c) { f.push((lab("wf"), "order stored under a foreign cid".into())); }
    f
}

pub fn run(_seed: u64) -> u64 {
    let mut n = 0;
    let mut seen: HashSet<&'static str> = HashSet::new();
    let mut starts: Vec<Option<ActiveOrderState>> = vec![None];
    starts.extend(active_states().into_iter().map(Some));
    for st in &starts {
        for input in inputs() {
            let mut orders: Orders = Orders::default();
            orders.0.insert(ClientOrderId::new("B"), order("B", ActiveOrderState::Open(open(1, dec!(0)))));
            if let Some(s) = st { orders.0.insert(ClientOrderId::new("A"), order("A", s.clone())); }
            let before = orders.clone();
            apply(&mut orders, &input);
            n += 1;
            for (label, observed) in check(&before, &input, &orders) {
                if seen.insert(label) {
                    report(label, format!("tracked(A)={:?}; input={:?}", st, input), observed, "post-condition of the label".into());
                }
            }
        }
    }
    n
}
