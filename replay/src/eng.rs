//! Shared engine rig for the engine-scenario bounded checkers (C03 / C10 / C14 / C19).
//!
//! * a REAL `Engine` over three exchanges / six spot instruments, every execution link independently
//!   healthy (receiver kept, drainable), closed (receiver dropped) or missing (`None` slot);
//! * a scriptable strategy (algo orders queued per tick, disconnect / trading-disabled invocations recorded) and a
//!   risk manager that refuses exactly a scenario-provided set of ClientOrderIds;
//! * a symbolic event vocabulary (`Ev`) with a short Debug rendering (used as the reproduction input in reports);
//! * a reference `Model` written from the property statements (NOT calling the code under test) that says, for every
//!   processed event, which order requests have to be sent / failed / refused and what is tracked afterwards.
#![allow(dead_code)]
use barter::{
    EngineEvent,
    engine::{
        Engine, EngineOutput,
        action::{ActionOutput, generate_algo_orders::GenerateAlgoOrdersOutput, send_requests::{SendCancelsAndOpensOutput, SendRequestsOutput}},
        audit::EngineAudit,
        clock::HistoricalClock,
        command::Command,
        error::EngineError,
        execution_tx::MultiExchangeTxMap,
        state::{
            EngineState,
            global::DefaultGlobalData,
            instrument::{data::DefaultInstrumentMarketData, filter::InstrumentFilter},
            trading::TradingState,
        },
    },
    execution::{AccountStreamEvent, request::ExecutionRequest},
    risk::{RiskApproved, RiskManager, RiskRefused},
    strategy::{
        algo::AlgoStrategy,
        close_positions::{ClosePositionsStrategy, close_open_positions_with_market_orders},
        on_disconnect::OnDisconnectStrategy,
        on_trading_disabled::OnTradingDisabled,
    },
};
use barter_data::{
    books::Level,
    event::{DataKind, MarketEvent},
    streams::consumer::MarketStreamEvent,
    subscription::{book::OrderBookL1, trade::PublicTrade},
};
use barter_execution::{
    AccountEvent, AccountEventKind, AccountSnapshot, InstrumentAccountSnapshot,
    balance::{AssetBalance, Balance},
    error::{ApiError, ConnectivityError, OrderError},
    order::{
        Order, OrderKey, OrderKind, TimeInForce,
        id::{ClientOrderId, OrderId, StrategyId},
        request::{OrderRequestCancel, OrderRequestOpen, RequestCancel, RequestOpen},
        state::{ActiveOrderState, Cancelled, InactiveOrderState, Open, OrderState},
    },
    trade::{AssetFees, Trade, TradeId},
};
use barter_instrument::{
    Side, Underlying,
    asset::{Asset, AssetIndex},
    exchange::{ExchangeId, ExchangeIndex},
    index::IndexedInstruments,
    instrument::{Instrument, InstrumentIndex},
};
use barter_integration::{
    channel::{UnboundedRx, UnboundedTx, mpsc_unbounded},
    collection::one_or_many::OneOrMany,
    snapshot::Snapshot,
};
use chrono::{DateTime, Utc};
use rust_decimal::Decimal;
use std::{
    any::Any,
    collections::{BTreeMap, HashSet},
    sync::{Arc, Mutex},
};

pub type State = EngineState<DefaultGlobalData, DefaultInstrumentMarketData>;
pub type Txs = MultiExchangeTxMap<UnboundedTx<ExecutionRequest>>;
pub type Eng<R> = Engine<HistoricalClock, State, Txs, Script, R>;
pub type Event = EngineEvent<DataKind>;
pub type Audit = EngineAudit<Event, EngineOutput<DisabledOut, DiscOut>>;

pub use crate::rng::Rng;

pub const N_EX: usize = 3;
pub const EXCHANGES: [ExchangeId; N_EX] = [ExchangeId::BinanceSpot, ExchangeId::Coinbase, ExchangeId::Kraken];

pub fn t(s: i64) -> DateTime<Utc> { DateTime::<Utc>::from_timestamp(1_700_000_000 + s, 0).unwrap() }
pub fn strategy_id() -> StrategyId { StrategyId::new("scripted") }
pub fn tenths(q: i64) -> Decimal { Decimal::new(q, 1) }
/// every order of the scenarios has quantity 1 (= 10 tenths); `filled` is given in tenths
pub const ORDER_QTY_TENTHS: i64 = 10;

// ------------------------------------------------------------------------------------------------- layout
#[derive(Debug)]
pub struct Layout {
    pub indexed: IndexedInstruments,
    pub ex_ids: Vec<ExchangeId>,
    pub inst_ex: Vec<usize>,
    pub inst_und: Vec<Underlying<AssetIndex>>,
    pub ex_insts: Vec<Vec<usize>>,
    pub ex_assets: Vec<Vec<usize>>,
    pub n_inst: usize,
    pub n_asset: usize,
}

fn spot(ex: ExchangeId, name: &str, base: &str, quote: &str) -> Instrument<ExchangeId, Asset> {
    Instrument::spot(ex, format!("{}-{name}", ex.as_str()), name.to_uppercase(), Underlying::new(Asset::from(base), Asset::from(quote)), None)
}

pub fn layout() -> Arc<Layout> {
    // definition order deliberately differs from the index order (indices are sorted by exchange)
    let defs = vec![
        spot(ExchangeId::Kraken, "btc_usdt", "btc", "usdt"),
        spot(ExchangeId::BinanceSpot, "btc_usdt", "btc", "usdt"),
        spot(ExchangeId::Coinbase, "btc_usd", "btc", "usd"),
        spot(ExchangeId::Kraken, "eth_usdt", "eth", "usdt"),
        spot(ExchangeId::BinanceSpot, "eth_usdt", "eth", "usdt"),
        spot(ExchangeId::Kraken, "btc_usdt_b", "btc", "usdt"),
    ];
    let indexed = IndexedInstruments::new(defs.clone());
    let ex_ids: Vec<ExchangeId> = indexed.exchanges().iter().map(|k| k.value).collect();
    assert_eq!(ex_ids, EXCHANGES.to_vec(), "exchange index order");
    let inst_ex: Vec<usize> = indexed.instruments().iter().map(|k| k.value.exchange.key.index()).collect();
    // the underlying of instrument i as its DEFINITION states it: the exchange's own base / quote asset, looked up by (exchange, name) - not read back
    // from the built instrument (a builder that resolves a shared asset name to another exchange's entry must not go unnoticed)
    let inst_und: Vec<Underlying<AssetIndex>> = indexed.instruments().iter().map(|k| {
        let def = defs.iter().find(|d| d.exchange == k.value.exchange.value && d.name_internal == k.value.name_internal).expect("definition of an indexed instrument");
        let ix = |a: &Asset| indexed.find_asset_index(def.exchange, &a.name_internal).expect("asset of a definition is indexed");
        Underlying::new(ix(&def.underlying.base), ix(&def.underlying.quote))
    }).collect();
    let mut ex_insts = vec![vec![]; ex_ids.len()];
    for (i, x) in inst_ex.iter().enumerate() { ex_insts[*x].push(i); }
    let mut ex_assets = vec![vec![]; ex_ids.len()];
    for (a, k) in indexed.assets().iter().enumerate() {
        let x = ex_ids.iter().position(|e| *e == k.value.exchange).unwrap();
        ex_assets[x].push(a);
    }
    let (n_inst, n_asset) = (inst_ex.len(), indexed.assets().len());
    Arc::new(Layout { indexed, ex_ids, inst_ex, inst_und, ex_insts, ex_assets, n_inst, n_asset })
}

// ------------------------------------------------------------------------------------------------- strategy / risk
#[derive(Debug, Default)]
pub struct Shared {
    /// cancels / opens the scenario queued for the next algo tick
    pub next: Option<(Vec<OrderRequestCancel>, Vec<OrderRequestOpen>)>,
    pub algo_calls: u64,
    /// (running count, exchange) of every on_disconnect invocation
    pub disconnects: Vec<(u64, ExchangeId)>,
    pub disabled_calls: u64,
}

#[derive(Debug, Clone)]
pub struct Script {
    pub id: StrategyId,
    pub shared: Arc<Mutex<Shared>>,
}

pub fn lock<T>(m: &Mutex<T>) -> std::sync::MutexGuard<'_, T> { m.lock().unwrap_or_else(|e| e.into_inner()) }

impl AlgoStrategy for Script {
    type State = State;
    fn generate_algo_orders(
        &self,
        _: &Self::State,
    ) -> (
        impl IntoIterator<Item = OrderRequestCancel<ExchangeIndex, InstrumentIndex>>,
        impl IntoIterator<Item = OrderRequestOpen<ExchangeIndex, InstrumentIndex>>,
    ) {
        let mut s = lock(&self.shared);
        s.algo_calls += 1;
        s.next.take().unwrap_or_default()
    }
}

pub fn close_cid(i: usize) -> String { format!("close-{i}") }

impl ClosePositionsStrategy for Script {
    type State = State;
    fn close_positions_requests<'a>(
        &'a self,
        state: &'a Self::State,
        filter: &'a InstrumentFilter<ExchangeIndex, AssetIndex, InstrumentIndex>,
    ) -> (
        impl IntoIterator<Item = OrderRequestCancel<ExchangeIndex, InstrumentIndex>> + 'a,
        impl IntoIterator<Item = OrderRequestOpen<ExchangeIndex, InstrumentIndex>> + 'a,
    )
    where
        ExchangeIndex: 'a,
        AssetIndex: 'a,
        InstrumentIndex: 'a,
    {
        close_open_positions_with_market_orders(&self.id, state, filter, |state| ClientOrderId::new(close_cid(state.key.index())))
    }
}

#[derive(Debug, Clone, PartialEq)]
pub struct DiscOut(pub ExchangeId);
impl<R> OnDisconnectStrategy<HistoricalClock, State, Txs, R> for Script {
    type OnDisconnect = DiscOut;
    fn on_disconnect(engine: &mut Engine<HistoricalClock, State, Txs, Self, R>, exchange: ExchangeId) -> Self::OnDisconnect {
        let mut s = lock(&engine.strategy.shared);
        let n = s.disconnects.len() as u64 + 1;
        s.disconnects.push((n, exchange));
        DiscOut(exchange)
    }
}

#[derive(Debug, Clone, PartialEq)]
pub struct DisabledOut;
impl<R> OnTradingDisabled<HistoricalClock, State, Txs, R> for Script {
    type OnTradingDisabled = DisabledOut;
    fn on_trading_disabled(engine: &mut Engine<HistoricalClock, State, Txs, Self, R>) -> Self::OnTradingDisabled {
        lock(&engine.strategy.shared).disabled_calls += 1;
        DisabledOut
    }
}

/// refuses exactly the requests whose ClientOrderId is in the scenario-provided set, approves the rest
#[derive(Debug, Clone, Default)]
pub struct SetRisk {
    pub refuse: Arc<Mutex<HashSet<ClientOrderId>>>,
}
impl RiskManager for SetRisk {
    type State = State;
    fn check(
        &self,
        _: &Self::State,
        cancels: impl IntoIterator<Item = OrderRequestCancel<ExchangeIndex, InstrumentIndex>>,
        opens: impl IntoIterator<Item = OrderRequestOpen<ExchangeIndex, InstrumentIndex>>,
    ) -> (
        impl IntoIterator<Item = RiskApproved<OrderRequestCancel<ExchangeIndex, InstrumentIndex>>>,
        impl IntoIterator<Item = RiskApproved<OrderRequestOpen<ExchangeIndex, InstrumentIndex>>>,
        impl IntoIterator<Item = RiskRefused<OrderRequestCancel<ExchangeIndex, InstrumentIndex>>>,
        impl IntoIterator<Item = RiskRefused<OrderRequestOpen<ExchangeIndex, InstrumentIndex>>>,
    ) {
        let refuse = lock(&self.refuse);
        let (mut ac, mut ao, mut rc, mut ro) = (vec![], vec![], vec![], vec![]);
        for c in cancels { if refuse.contains(&c.key.cid) { rc.push(RiskRefused::new(c, "scenario")); } else { ac.push(RiskApproved::new(c)); } }
        for o in opens { if refuse.contains(&o.key.cid) { ro.push(RiskRefused::new(o, "scenario")); } else { ao.push(RiskApproved::new(o)); } }
        (ac, ao, rc, ro)
    }
}

// ------------------------------------------------------------------------------------------------- rig
#[derive(Debug, Copy, Clone, PartialEq, Eq)]
pub enum Link { Healthy, Closed, Missing }
pub const LINKS: [Link; 3] = [Link::Healthy, Link::Closed, Link::Missing];
pub fn all_link_configs() -> Vec<[Link; N_EX]> {
    let mut v = vec![];
    for a in LINKS { for b in LINKS { for c in LINKS { v.push([a, b, c]); } } }
    v
}

pub struct Rig<R> {
    pub engine: Eng<R>,
    /// kept receivers of healthy links, by exchange index
    pub rxs: Vec<Option<UnboundedRx<ExecutionRequest>>>,
    pub shared: Arc<Mutex<Shared>>,
    pub lay: Arc<Layout>,
    /// false when the execution links are not observable (tx map produced by the ExecutionBuilder)
    pub observable: bool,
    pub keep: Option<Box<dyn Any>>,
}

pub fn fresh_state(lay: &Layout, trading: TradingState) -> State {
    EngineState::builder(&lay.indexed, DefaultGlobalData, DefaultInstrumentMarketData::default)
        .time_engine_start(t(0))
        .trading_state(trading)
        .balances([
            (ExchangeId::BinanceSpot, "usdt", Balance::new(Decimal::from(1000), Decimal::from(1000))),
            (ExchangeId::Kraken, "btc", Balance::new(Decimal::from(2), Decimal::from(2))),
        ])
        .build()
}

pub fn build<R>(lay: &Arc<Layout>, links: [Link; N_EX], trading: TradingState, risk: R) -> Rig<R> {
    let mut rxs = vec![];
    let mut slots = vec![];
    for (x, link) in links.iter().enumerate() {
        match link {
            Link::Healthy => { let (tx, rx) = mpsc_unbounded(); rxs.push(Some(rx)); slots.push((lay.ex_ids[x], Some(tx))); }
            Link::Closed => { let (tx, rx) = mpsc_unbounded::<ExecutionRequest>(); drop(rx); rxs.push(None); slots.push((lay.ex_ids[x], Some(tx))); }
            Link::Missing => { rxs.push(None); slots.push((lay.ex_ids[x], None)); }
        }
    }
    build_with_txs(lay, Txs::from_iter(slots), rxs, trading, risk, true, None)
}

pub fn build_with_txs<R>(lay: &Arc<Layout>, txs: Txs, rxs: Vec<Option<UnboundedRx<ExecutionRequest>>>, trading: TradingState, risk: R, observable: bool, keep: Option<Box<dyn Any>>) -> Rig<R> {
    let shared = Arc::new(Mutex::new(Shared::default()));
    let engine = Engine::new(HistoricalClock::new(t(0)), fresh_state(lay, trading), txs, Script { id: strategy_id(), shared: shared.clone() }, risk);
    Rig { engine, rxs, shared, lay: lay.clone(), observable, keep }
}

impl<R> Rig<R> {
    /// everything delivered since the last drain, by exchange index (never blocks)
    pub fn drain(&mut self) -> Vec<Vec<ExecutionRequest>> {
        self.rxs.iter_mut().map(|rx| {
            let mut got = vec![];
            if let Some(rx) = rx { while let Ok(r) = rx.rx.try_recv() { got.push(r); } }
            got
        }).collect()
    }
    pub fn queue(&self, script: Option<&AlgoScript>) {
        lock(&self.shared).next = script.map(|s| (s.cancels.iter().map(CancelReq::real).collect(), s.opens.iter().map(OpenReq::real).collect()));
    }
    pub fn algo_calls(&self) -> u64 { lock(&self.shared).algo_calls }
}

// ------------------------------------------------------------------------------------------------- symbolic events
#[derive(Clone, PartialEq, Eq, Hash, PartialOrd, Ord)]
pub struct OpenReq { pub x: usize, pub i: usize, pub cid: String }
#[derive(Clone, PartialEq, Eq, Hash, PartialOrd, Ord)]
pub struct CancelReq { pub x: usize, pub i: usize, pub cid: String, pub id: Option<String> }
impl std::fmt::Debug for OpenReq { fn fmt(&self, f: &mut std::fmt::Formatter<'_>) -> std::fmt::Result { write!(f, "open(x{} i{} {})", self.x, self.i, self.cid) } }
impl std::fmt::Debug for CancelReq { fn fmt(&self, f: &mut std::fmt::Formatter<'_>) -> std::fmt::Result { write!(f, "cancel(x{} i{} {} id={:?})", self.x, self.i, self.cid, self.id) } }

pub fn order_id_of(cid: &str) -> String { format!("o-{cid}") }
pub fn side_of(cid: &str) -> Side { if cid.bytes().map(|b| b as u32).sum::<u32>() % 2 == 0 { Side::Buy } else { Side::Sell } }
pub fn key(x: usize, i: usize, cid: &str) -> OrderKey { OrderKey { exchange: ExchangeIndex(x), instrument: InstrumentIndex(i), strategy: strategy_id(), cid: ClientOrderId::new(cid) } }

impl OpenReq {
    pub fn real(&self) -> OrderRequestOpen {
        OrderRequestOpen { key: key(self.x, self.i, &self.cid), state: RequestOpen { side: side_of(&self.cid), price: Decimal::from(100), quantity: tenths(ORDER_QTY_TENTHS), kind: OrderKind::Limit, time_in_force: TimeInForce::GoodUntilCancelled { post_only: false } } }
    }
}
impl CancelReq {
    pub fn real(&self) -> OrderRequestCancel {
        OrderRequestCancel { key: key(self.x, self.i, &self.cid), state: RequestCancel { id: self.id.as_ref().map(OrderId::new) } }
    }
}

#[derive(Debug, Clone, Default, PartialEq)]
pub struct AlgoScript { pub cancels: Vec<CancelReq>, pub opens: Vec<OpenReq> }

#[derive(Debug, Clone, PartialEq, Eq)]
pub enum Filt { None, Ex(Vec<usize>), Ins(Vec<usize>), Und(Vec<usize>) }
impl Filt {
    /// `Und(v)`: underlyings of the listed instruments
    pub fn real(&self, lay: &Layout) -> InstrumentFilter {
        match self {
            Filt::None => InstrumentFilter::None,
            Filt::Ex(v) => InstrumentFilter::exchanges(v.iter().map(|x| ExchangeIndex(*x))),
            Filt::Ins(v) => InstrumentFilter::instruments(v.iter().map(|i| InstrumentIndex(*i))),
            Filt::Und(v) => InstrumentFilter::underlyings(v.iter().map(|i| lay.inst_und[*i])),
        }
    }
    /// reference semantics: the instruments named by the filter
    pub fn matches(&self, lay: &Layout, i: usize) -> bool {
        match self {
            Filt::None => true,
            Filt::Ex(v) => v.contains(&lay.inst_ex[i]),
            Filt::Ins(v) => v.contains(&i),
            Filt::Und(v) => v.iter().any(|j| lay.inst_und[*j] == lay.inst_und[i]),
        }
    }
}

#[derive(Debug, Clone, PartialEq)]
pub enum Ev {
    Trade { i: usize, t: i64, px: i64 },
    L1 { i: usize, t: i64, bid: Option<i64>, ask: Option<i64> },
    Bal { a: usize, t: i64, total: i64 },
    /// full account snapshot of exchange x: balances of all its assets + Open orders (i, cid, t, filled tenths)
    AcctSnap { x: usize, t: i64, orders: Vec<(usize, String, i64, i64)> },
    OrdOpen { i: usize, cid: String, t: i64, filled: i64 },
    /// kind: 0 cancelled, 1 fully filled, 2 expired, 3 open failed
    OrdInactive { i: usize, cid: String, kind: u8, t: i64 },
    CancelResp { i: usize, cid: String, ok: bool, t: i64 },
    Fill { i: usize, buy: bool, px: i64, qty: i64, t: i64, id: u32 },
    MktReconn { x: usize },
    AcctReconn { x: usize },
    Trading(bool),
    CmdOpen(Vec<OpenReq>),
    CmdCancel(Vec<CancelReq>),
    CmdClose(Filt),
    CmdCancelAll(Filt),
    Shutdown,
}

fn open_state(cid: &str, ts: i64, filled: i64) -> Open { Open { id: OrderId::new(order_id_of(cid)), time_exchange: t(ts), filled_quantity: tenths(filled) } }
fn snapshot_order(lay: &Layout, i: usize, cid: &str, state: OrderState) -> Order<ExchangeIndex, InstrumentIndex, OrderState> {
    Order { key: key(lay.inst_ex[i], i, cid), side: side_of(cid), price: Decimal::from(100), quantity: tenths(ORDER_QTY_TENTHS), kind: OrderKind::Limit, time_in_force: TimeInForce::GoodUntilCancelled { post_only: false }, state }
}
fn account(x: usize, kind: AccountEventKind<ExchangeIndex, AssetIndex, InstrumentIndex>) -> Event {
    EngineEvent::Account(AccountStreamEvent::Item(AccountEvent { exchange: ExchangeIndex(x), kind }))
}

impl Ev {
    pub fn real(&self, lay: &Layout) -> Event {
        match self {
            Ev::Trade { i, t: ts, px } => EngineEvent::Market(MarketStreamEvent::Item(MarketEvent {
                time_exchange: t(*ts), time_received: t(*ts), exchange: lay.ex_ids[lay.inst_ex[*i]], instrument: InstrumentIndex(*i),
                kind: DataKind::Trade(PublicTrade { id: format!("{ts}"), price: *px as f64, amount: 1.0, side: Side::Buy }),
            })),
            Ev::L1 { i, t: ts, bid, ask } => EngineEvent::Market(MarketStreamEvent::Item(MarketEvent {
                time_exchange: t(*ts), time_received: t(*ts), exchange: lay.ex_ids[lay.inst_ex[*i]], instrument: InstrumentIndex(*i),
                kind: DataKind::OrderBookL1(OrderBookL1 {
                    last_update_time: t(*ts),
                    best_bid: bid.map(|p| Level::new(Decimal::from(p), Decimal::ONE)),
                    best_ask: ask.map(|p| Level::new(Decimal::from(p), Decimal::ONE)),
                }),
            })),
            Ev::Bal { a, t: ts, total } => {
                let x = lay.ex_assets.iter().position(|v| v.contains(a)).unwrap();
                account(x, AccountEventKind::BalanceSnapshot(Snapshot(AssetBalance { asset: AssetIndex(*a), balance: Balance::new(Decimal::from(*total), Decimal::from(*total)), time_exchange: t(*ts) })))
            }
            Ev::AcctSnap { x, t: ts, orders } => {
                let balances = lay.ex_assets[*x].iter().map(|a| AssetBalance { asset: AssetIndex(*a), balance: Balance::new(Decimal::from(10 + *ts), Decimal::from(5)), time_exchange: t(*ts) }).collect();
                let mut by_inst: BTreeMap<usize, Vec<_>> = BTreeMap::new();
                for (i, cid, ot, filled) in orders { by_inst.entry(*i).or_default().push(snapshot_order(lay, *i, cid, OrderState::active(open_state(cid, *ot, *filled)))); }
                let instruments = by_inst.into_iter().map(|(i, orders)| InstrumentAccountSnapshot { instrument: InstrumentIndex(i), orders }).collect();
                account(*x, AccountEventKind::Snapshot(AccountSnapshot { exchange: ExchangeIndex(*x), balances, instruments }))
            }
            Ev::OrdOpen { i, cid, t: ts, filled } => account(lay.inst_ex[*i], AccountEventKind::OrderSnapshot(Snapshot(snapshot_order(lay, *i, cid, OrderState::active(open_state(cid, *ts, *filled)))))),
            Ev::OrdInactive { i, cid, kind, t: ts } => {
                let state = match kind {
                    0 => InactiveOrderState::Cancelled(Cancelled { id: OrderId::new(order_id_of(cid)), time_exchange: t(*ts) }),
                    1 => InactiveOrderState::FullyFilled,
                    2 => InactiveOrderState::Expired,
                    _ => InactiveOrderState::OpenFailed(OrderError::Connectivity(ConnectivityError::Timeout)),
                };
                account(lay.inst_ex[*i], AccountEventKind::OrderSnapshot(Snapshot(snapshot_order(lay, *i, cid, OrderState::Inactive(state)))))
            }
            Ev::CancelResp { i, cid, ok, t: ts } => {
                // (the kind of failure varies with the timestamp: whatever the error says, a failed cancel leaves the order as it was last confirmed)
                let err = || match ts.rem_euclid(4) {
                    0 => OrderError::Connectivity(ConnectivityError::Timeout),
                    1 => OrderError::Rejected(ApiError::OrderAlreadyCancelled),
                    2 => OrderError::Rejected(ApiError::OrderAlreadyFullyFilled),
                    _ => OrderError::Rejected(ApiError::RateLimit),
                };
                let state = if *ok { Ok(Cancelled { id: OrderId::new(order_id_of(cid)), time_exchange: t(*ts) }) } else { Err(err()) };
                account(lay.inst_ex[*i], AccountEventKind::OrderCancelled(barter_execution::order::OrderEvent { key: key(lay.inst_ex[*i], *i, cid), state }))
            }
            Ev::Fill { i, buy, px, qty, t: ts, id } => account(lay.inst_ex[*i], AccountEventKind::Trade(Trade {
                id: TradeId::new(format!("t{id}")), order_id: OrderId::new(format!("of{id}")), instrument: InstrumentIndex(*i), strategy: strategy_id(), time_exchange: t(*ts),
                side: if *buy { Side::Buy } else { Side::Sell }, price: Decimal::from(*px), quantity: tenths(*qty), fees: AssetFees::quote_fees(Decimal::new(*qty, 2)),
            })),
            Ev::MktReconn { x } => EngineEvent::Market(MarketStreamEvent::Reconnecting(lay.ex_ids[*x])),
            Ev::AcctReconn { x } => EngineEvent::Account(AccountStreamEvent::Reconnecting(lay.ex_ids[*x])),
            Ev::Trading(on) => EngineEvent::TradingStateUpdate(if *on { TradingState::Enabled } else { TradingState::Disabled }),
            Ev::CmdOpen(v) => EngineEvent::Command(Command::SendOpenRequests(OneOrMany::from(v.iter().map(OpenReq::real).collect::<Vec<_>>()))),
            Ev::CmdCancel(v) => EngineEvent::Command(Command::SendCancelRequests(OneOrMany::from(v.iter().map(CancelReq::real).collect::<Vec<_>>()))),
            Ev::CmdClose(f) => EngineEvent::Command(Command::ClosePositions(f.real(lay))),
            Ev::CmdCancelAll(f) => EngineEvent::Command(Command::CancelOrders(f.real(lay))),
            Ev::Shutdown => EngineEvent::shutdown(),
        }
    }
    pub fn is_command(&self) -> bool { matches!(self, Ev::CmdOpen(_) | Ev::CmdCancel(_) | Ev::CmdClose(_) | Ev::CmdCancelAll(_)) }
}

pub type Step = (Ev, Option<AlgoScript>);
pub fn describe(links: &[Link; N_EX], trading0: bool, refused: &[String], steps: &[Step]) -> String {
    let s: Vec<String> = steps.iter().map(|(e, a)| match a { Some(a) => format!("{e:?} +algo{{{:?} {:?}}}", a.cancels, a.opens), None => format!("{e:?}") }).collect();
    format!("links={links:?} trading0={trading0} refused={refused:?} events=[{}]", s.join(" ; "))
}

// ------------------------------------------------------------------------------------------------- requests / audits
#[derive(Debug, Clone, PartialEq, Eq, Hash, PartialOrd, Ord)]
pub enum Req { Open(OrderRequestOpen), Cancel(OrderRequestCancel) }
impl Req {
    pub fn key(&self) -> &OrderKey { match self { Req::Open(o) => &o.key, Req::Cancel(c) => &c.key } }
    pub fn short(&self) -> String {
        let k = self.key();
        match self { Req::Open(o) => format!("open(x{} i{} {} {:?} {} @{})", k.exchange.index(), k.instrument.index(), k.cid, o.state.side, o.state.quantity, o.state.price), Req::Cancel(c) => format!("cancel(x{} i{} {} id={:?})", k.exchange.index(), k.instrument.index(), k.cid, c.state.id.as_ref().map(|i| i.0.to_string())) }
    }
}
pub fn shorts(v: &[Req]) -> String { format!("[{}]", v.iter().map(Req::short).collect::<Vec<_>>().join(", ")) }

/// what the engine says it did for one processed event
#[derive(Debug, Default)]
pub struct Reported {
    pub sent: Vec<Req>,
    pub errors: Vec<(Req, EngineError)>,
    pub refused: Vec<Req>,
    /// number of unrecoverable errors attached to the audit record
    pub fatal: usize,
    /// kinds of the outputs carried ("cmd_cancel", "cmd_open", "cmd_close", "algo", ...)
    pub outputs: Vec<&'static str>,
    pub is_process: bool,
}

fn take_opens(r: &mut Reported, o: &SendRequestsOutput<RequestOpen>) {
    r.sent.extend(o.sent.iter().cloned().map(Req::Open));
    r.errors.extend(o.errors.iter().cloned().map(|(q, e)| (Req::Open(q), e)));
}
fn take_cancels(r: &mut Reported, o: &SendRequestsOutput<RequestCancel>) {
    r.sent.extend(o.sent.iter().cloned().map(Req::Cancel));
    r.errors.extend(o.errors.iter().cloned().map(|(q, e)| (Req::Cancel(q), e)));
}
fn take_both(r: &mut Reported, o: &SendCancelsAndOpensOutput) { take_cancels(r, &o.cancels); take_opens(r, &o.opens); }
fn take_algo(r: &mut Reported, g: &GenerateAlgoOrdersOutput) {
    take_both(r, &g.cancels_and_opens);
    r.refused.extend(g.cancels_refused.iter().map(|x| Req::Cancel(x.item.clone())));
    r.refused.extend(g.opens_refused.iter().map(|x| Req::Open(x.item.clone())));
}

pub fn parse_audit(a: &Audit) -> Reported {
    let mut r = Reported::default();
    let EngineAudit::Process(p) = a else { return r; };
    r.is_process = true;
    r.fatal = p.errors.len();
    for out in p.outputs.iter() {
        match out {
            EngineOutput::Commanded(ActionOutput::CancelOrders(o)) => { r.outputs.push("cmd_cancel"); take_cancels(&mut r, o); }
            EngineOutput::Commanded(ActionOutput::OpenOrders(o)) => { r.outputs.push("cmd_open"); take_opens(&mut r, o); }
            EngineOutput::Commanded(ActionOutput::ClosePositions(o)) => { r.outputs.push("cmd_close"); take_both(&mut r, o); }
            EngineOutput::Commanded(ActionOutput::GenerateAlgoOrders(g)) => { r.outputs.push("cmd_algo"); take_algo(&mut r, g); }
            EngineOutput::AlgoOrders(g) => { r.outputs.push("algo"); take_algo(&mut r, g); }
            EngineOutput::OnTradingDisabled(_) => r.outputs.push("on_trading_disabled"),
            EngineOutput::AccountDisconnect(_) => r.outputs.push("account_disconnect"),
            EngineOutput::MarketDisconnect(_) => r.outputs.push("market_disconnect"),
            EngineOutput::PositionExit(_) => r.outputs.push("position_exit"),
        }
    }
    r
}

pub fn delivered_reqs(d: &[Vec<ExecutionRequest>]) -> Vec<Vec<Req>> {
    d.iter().map(|v| v.iter().filter_map(|r| match r { ExecutionRequest::Open(o) => Some(Req::Open(o.clone())), ExecutionRequest::Cancel(c) => Some(Req::Cancel(c.clone())), ExecutionRequest::Shutdown => None }).collect()).collect()
}

// ------------------------------------------------------------------------------------------------- reference model
#[derive(Debug, Clone, PartialEq, Eq)]
pub struct MOpen { pub t: i64, pub filled: i64 }
#[derive(Debug, Clone, PartialEq, Eq)]
pub enum MState { Oif, Open(MOpen), Cif(Option<MOpen>) }
#[derive(Debug, Clone, PartialEq, Eq)]
pub struct MOrder { pub x: usize, pub state: MState }

#[derive(Debug, Copy, Clone, PartialEq, Eq)]
pub enum Via { Cmd, Algo }
#[derive(Debug, Copy, Clone, PartialEq, Eq)]
pub enum Outcome { Sent, Failed, Refused }
#[derive(Debug, Clone)]
pub struct Exp { pub req: Req, pub via: Via, pub outcome: Outcome, /// for a cancel: the state the order was tracked in before (None: untracked)
    pub before: Option<MState> }

/// Reference oracle written from the property statements: link table, trading state, tracked orders, positions, prices.
#[derive(Debug, Clone)]
pub struct Model {
    pub links: [Link; N_EX],
    pub trading: bool,
    pub refused: HashSet<String>,
    pub orders: Vec<BTreeMap<String, MOrder>>,
    /// signed position in tenths
    pub pos: Vec<i64>,
    pub trade_px: Vec<Option<(i64, i64)>>,
    pub l1: Vec<Option<(i64, Option<i64>, Option<i64>)>>,
    /// per exchange: (market data healthy, account healthy)
    pub conn: Vec<(bool, bool)>,
    pub disconnects: Vec<(u64, ExchangeId)>,
}

impl Model {
    pub fn new(lay: &Layout, links: [Link; N_EX], trading: bool, refused: &[String]) -> Self {
        Model { links, trading, refused: refused.iter().cloned().collect(), orders: vec![BTreeMap::new(); lay.n_inst], pos: vec![0; lay.n_inst], trade_px: vec![None; lay.n_inst], l1: vec![None; lay.n_inst], conn: vec![(false, false); N_EX], disconnects: vec![] }
    }
    pub fn link(&self, x: usize) -> Link { if x < N_EX { self.links[x] } else { Link::Missing } }
    pub fn price(&self, i: usize) -> Option<Decimal> {
        if let Some((_, Some(b), Some(a))) = self.l1[i] { return Some((Decimal::from(b) + Decimal::from(a)) / Decimal::TWO); }
        self.trade_px[i].map(|(_, p)| Decimal::from(p))
    }
    pub fn global_healthy(&self) -> bool { self.conn.iter().all(|(m, a)| *m && *a) }

    fn order_open(&mut self, lay: &Layout, i: usize, cid: &str, ts: i64, filled: i64) {
        let new = MOpen { t: ts, filled };
        let full = filled >= ORDER_QTY_TENTHS;
        let cur = self.orders[i].get(cid).cloned();
        match cur {
            None => { if !full { self.orders[i].insert(cid.to_string(), MOrder { x: lay.inst_ex[i], state: MState::Open(new) }); } }
            Some(o) => match o.state {
                MState::Oif => { if full { self.orders[i].remove(cid); } else { self.orders[i].get_mut(cid).unwrap().state = MState::Open(new); } }
                MState::Open(c) => if c.t <= ts { if full { self.orders[i].remove(cid); } else { self.orders[i].get_mut(cid).unwrap().state = MState::Open(new); } },
                MState::Cif(c) => if c.is_none_or(|c| c.t <= ts) { if full { self.orders[i].remove(cid); } else { self.orders[i].get_mut(cid).unwrap().state = MState::Cif(Some(new)); } },
            },
        }
    }

    fn send(&mut self, req_open: Option<&OpenReq>, req_cancel: Option<&CancelReq>, via: Via, out: &mut Vec<Exp>) {
        if let Some(o) = req_open {
            let outcome = if via == Via::Algo && self.refused.contains(&o.cid) { Outcome::Refused } else if self.link(o.x) == Link::Healthy { Outcome::Sent } else { Outcome::Failed };
            if outcome == Outcome::Sent { self.orders[o.i].insert(o.cid.clone(), MOrder { x: o.x, state: MState::Oif }); }
            out.push(Exp { req: Req::Open(o.real()), via, outcome, before: None });
        }
        if let Some(c) = req_cancel {
            let outcome = if via == Via::Algo && self.refused.contains(&c.cid) { Outcome::Refused } else if self.link(c.x) == Link::Healthy { Outcome::Sent } else { Outcome::Failed };
            let before = self.orders[c.i].get(&c.cid).map(|o| o.state.clone());
            if outcome == Outcome::Sent {
                if let Some(o) = self.orders[c.i].get_mut(&c.cid) {
                    o.state = MState::Cif(match &o.state { MState::Oif => None, MState::Open(m) => Some(m.clone()), MState::Cif(m) => m.clone() });
                }
            }
            out.push(Exp { req: Req::Cancel(c.real()), via, outcome, before });
        }
    }

    /// reference: the cancel requests Command::CancelOrders(filter) has to issue
    pub fn cancel_set(&self, lay: &Layout, f: &Filt) -> Vec<CancelReq> {
        let mut v = vec![];
        for i in 0..lay.n_inst {
            if !f.matches(lay, i) { continue; }
            for (cid, o) in &self.orders[i] {
                match &o.state {
                    MState::Oif => v.push(CancelReq { x: o.x, i, cid: cid.clone(), id: None }),
                    MState::Open(_) => v.push(CancelReq { x: o.x, i, cid: cid.clone(), id: Some(order_id_of(cid)) }),
                    MState::Cif(_) => {}
                }
            }
        }
        v
    }
    /// reference: the market orders Command::ClosePositions(filter) has to issue (default strategy)
    pub fn close_set(&self, lay: &Layout, f: &Filt) -> Vec<OrderRequestOpen> {
        let mut v = vec![];
        for i in 0..lay.n_inst {
            if !f.matches(lay, i) || self.pos[i] == 0 { continue; }
            let Some(price) = self.price(i) else { continue; };
            v.push(OrderRequestOpen { key: key(lay.inst_ex[i], i, &close_cid(i)), state: RequestOpen { side: if self.pos[i] > 0 { Side::Sell } else { Side::Buy }, price, quantity: tenths(self.pos[i].abs()), kind: OrderKind::Market, time_in_force: TimeInForce::ImmediateOrCancel } });
        }
        v
    }

    /// state update + command actioning of one event; returns the expected requests of the command (if any)
    pub fn apply_event(&mut self, lay: &Layout, ev: &Ev) -> Vec<Exp> {
        let mut out = vec![];
        match ev {
            Ev::Trade { i, t, px } => { self.conn[lay.inst_ex[*i]].0 = true; if self.trade_px[*i].is_none_or(|(pt, _)| pt < *t) { self.trade_px[*i] = Some((*t, *px)); } }
            Ev::L1 { i, t, bid, ask } => { self.conn[lay.inst_ex[*i]].0 = true; if self.l1[*i].is_none_or(|(pt, _, _)| pt < *t) { self.l1[*i] = Some((*t, *bid, *ask)); } }
            Ev::Bal { a, .. } => { let x = lay.ex_assets.iter().position(|v| v.contains(a)).unwrap(); self.conn[x].1 = true; }
            Ev::AcctSnap { x, orders, .. } => { self.conn[*x].1 = true; for (i, cid, ot, filled) in orders { self.order_open(lay, *i, cid, *ot, *filled); } }
            Ev::OrdOpen { i, cid, t, filled } => { self.conn[lay.inst_ex[*i]].1 = true; self.order_open(lay, *i, cid, *t, *filled); }
            Ev::OrdInactive { i, cid, .. } => { self.conn[lay.inst_ex[*i]].1 = true; self.orders[*i].remove(cid); }
            Ev::CancelResp { i, cid, ok, .. } => {
                self.conn[lay.inst_ex[*i]].1 = true;
                if *ok { self.orders[*i].remove(cid); } else if let Some(o) = self.orders[*i].get(cid).cloned() {
                    match o.state { MState::Cif(Some(m)) => { self.orders[*i].get_mut(cid).unwrap().state = MState::Open(m); } MState::Cif(None) => { self.orders[*i].remove(cid); } _ => {} }
                }
            }
            Ev::Fill { i, buy, qty, .. } => { self.conn[lay.inst_ex[*i]].1 = true; self.pos[*i] += if *buy { *qty } else { -*qty }; }
            Ev::MktReconn { x } => { self.conn[*x].0 = false; let n = self.disconnects.len() as u64 + 1; self.disconnects.push((n, lay.ex_ids[*x])); }
            Ev::AcctReconn { x } => { self.conn[*x].1 = false; let n = self.disconnects.len() as u64 + 1; self.disconnects.push((n, lay.ex_ids[*x])); }
            Ev::Trading(on) => self.trading = *on,
            Ev::CmdOpen(v) => for o in v { self.send(Some(o), None, Via::Cmd, &mut out); },
            Ev::CmdCancel(v) => for c in v { self.send(None, Some(c), Via::Cmd, &mut out); },
            Ev::CmdCancelAll(f) => for c in self.cancel_set(lay, f) { self.send(None, Some(&c), Via::Cmd, &mut out); },
            Ev::CmdClose(f) => for o in self.close_set(lay, f) {
                let outcome = if self.link(o.key.exchange.index()) == Link::Healthy { Outcome::Sent } else { Outcome::Failed };
                if outcome == Outcome::Sent { self.orders[o.key.instrument.index()].insert(o.key.cid.to_string(), MOrder { x: o.key.exchange.index(), state: MState::Oif }); }
                out.push(Exp { req: Req::Open(o), via: Via::Cmd, outcome, before: None });
            },
            Ev::Shutdown => {}
        }
        out
    }
    /// the strategy was consulted with this script: expected handling of its requests
    pub fn apply_algo(&mut self, script: Option<&AlgoScript>) -> Vec<Exp> {
        let mut out = vec![];
        if let Some(s) = script {
            for c in &s.cancels { self.send(None, Some(c), Via::Algo, &mut out); }
            for o in &s.opens { self.send(Some(o), None, Via::Algo, &mut out); }
        }
        out
    }
    /// should the strategy be consulted after this event? (trading enabled afterwards, event not Shutdown, command not fatal)
    pub fn expects_algo(&self, ev: &Ev, cmd_exps: &[Exp]) -> bool {
        self.trading && !matches!(ev, Ev::Shutdown) && !cmd_exps.iter().any(|e| e.outcome == Outcome::Failed)
    }
}

/// does the engine's order table entry agree with the model's state?
pub fn engine_order_state(state: &State, i: usize, cid: &str) -> Option<ActiveOrderState> {
    state.instruments.instrument_index(&InstrumentIndex(i)).orders.0.get(&ClientOrderId::new(cid)).map(|o| o.state.clone())
}
pub fn mstate_matches(cid: &str, m: Option<&MState>, e: Option<&ActiveOrderState>) -> bool {
    let mo = |m: &MOpen| open_state(cid, m.t, m.filled);
    match (m, e) {
        (None, None) => true,
        (Some(MState::Oif), Some(ActiveOrderState::OpenInFlight(_))) => true,
        (Some(MState::Open(m)), Some(ActiveOrderState::Open(o))) => mo(m) == *o,
        (Some(MState::Cif(m)), Some(ActiveOrderState::CancelInFlight(c))) => m.as_ref().map(mo) == c.order,
        _ => false,
    }
}

// ------------------------------------------------------------------------------------------------- scenario generator
#[derive(Debug, Clone)]
pub struct GenCfg {
    /// strictly increasing timestamps (one per step) instead of a tiny domain with ties
    pub monotone: bool,
    /// allow request keys whose exchange is not the instrument's exchange / unknown exchange indices
    pub odd_keys: bool,
    pub shutdown: bool,
    pub reconnects: bool,
}

pub struct Gen<'a> {
    pub rng: &'a mut Rng,
    pub lay: &'a Layout,
    pub cfg: GenCfg,
    pub n_cid: u32,
    pub n_fill: u32,
    pub step: i64,
    /// (i, x, cid) of every cid ever requested / reported
    pub known: Vec<(usize, usize, String)>,
    pub refused: Vec<String>,
}

impl<'a> Gen<'a> {
    pub fn new(rng: &'a mut Rng, lay: &'a Layout, cfg: GenCfg) -> Self { Gen { rng, lay, cfg, n_cid: 0, n_fill: 0, step: 0, known: vec![], refused: vec![] } }
    fn time(&mut self) -> i64 { if self.cfg.monotone { self.step } else { self.rng.below(4) as i64 } }
    fn inst(&mut self) -> usize { self.rng.below(self.lay.n_inst as u64) as usize }
    fn fresh_open(&mut self, x_force: Option<usize>, algo: bool) -> OpenReq {
        self.n_cid += 1;
        let (i, x) = match x_force {
            Some(x) if x < N_EX => { let v = &self.lay.ex_insts[x]; (v[self.rng.below(v.len() as u64) as usize], x) }
            Some(x) => (self.inst(), x),
            None => { let i = self.inst(); (i, self.lay.inst_ex[i]) }
        };
        let x = if self.cfg.odd_keys && self.rng.chance(1, 12) { self.rng.below(N_EX as u64 + 1) as usize + if self.rng.chance(1, 3) { 4 } else { 0 } } else { x };
        let refused = algo && self.rng.chance(1, 5);
        let cid = format!("{}{}", if refused { "r" } else { "c" }, self.n_cid);
        if refused { self.refused.push(cid.clone()); }
        self.known.push((i, x, cid.clone()));
        OpenReq { x, i, cid }
    }
    fn known_cancel(&mut self, algo: bool) -> CancelReq {
        if self.known.is_empty() || self.rng.chance(1, 8) {
            self.n_cid += 1;
            let i = self.inst();
            return CancelReq { x: self.lay.inst_ex[i], i, cid: format!("u{}", self.n_cid), id: None };
        }
        let (i, x, cid) = self.known[self.rng.below(self.known.len() as u64) as usize].clone();
        let id = if self.rng.chance(1, 2) { Some(order_id_of(&cid)) } else { None };
        // a refused-prefixed cid is refused again when the strategy tries to cancel it
        let _ = algo;
        CancelReq { x, i, cid, id }
    }
    fn known_cid(&mut self) -> (usize, String) {
        if self.known.is_empty() || self.rng.chance(1, 6) { self.n_cid += 1; let i = self.inst(); let cid = format!("e{}", self.n_cid); self.known.push((i, self.lay.inst_ex[i], cid.clone())); return (i, cid); }
        let (i, _, cid) = self.known[self.rng.below(self.known.len() as u64) as usize].clone();
        (i, cid)
    }
    fn filt(&mut self) -> Filt {
        match self.rng.below(6) {
            0 | 1 => Filt::None,
            2 | 3 => { let m = 1 + self.rng.below(7) as usize; Filt::Ex((0..N_EX).filter(|x| m >> x & 1 == 1).collect()) }
            4 => { let m = 1 + self.rng.below((1 << self.lay.n_inst) - 1) as usize; Filt::Ins((0..self.lay.n_inst).filter(|i| m >> i & 1 == 1).collect()) }
            _ => { let a = self.inst(); let b = self.inst(); Filt::Und(if a == b { vec![a] } else { vec![a, b] }) }
        }
    }
    pub fn script(&mut self) -> Option<AlgoScript> {
        if !self.rng.chance(1, 2) { return None; }
        let single = if self.rng.chance(1, 3) { Some(self.rng.below(N_EX as u64) as usize) } else { None };
        let n_open = if single.is_some() { 1 + self.rng.below(2) } else { self.rng.below(3) };
        let opens = (0..n_open).map(|_| self.fresh_open(single, true)).collect();
        let cancels = if single.is_none() { (0..self.rng.below(2)).map(|_| self.known_cancel(true)).collect() } else { vec![] };
        Some(AlgoScript { cancels, opens })
    }
    pub fn event(&mut self) -> Ev {
        self.step += 1;
        loop {
            let ts = self.time();
            let ev = match self.rng.below(30) {
                0..=2 => Ev::Trade { i: self.inst(), t: ts, px: 90 + self.rng.below(20) as i64 },
                3..=4 => { let b = 90 + self.rng.below(10) as i64; Ev::L1 { i: self.inst(), t: ts, bid: if self.rng.chance(1, 6) { None } else { Some(b) }, ask: if self.rng.chance(1, 6) { None } else { Some(b + 2) } } }
                5 => Ev::Bal { a: self.rng.below(self.lay.n_asset as u64) as usize, t: ts, total: self.rng.below(50) as i64 },
                6 => { let x = self.rng.below(N_EX as u64) as usize; let mut orders = vec![]; for _ in 0..self.rng.below(3) { let (i, cid) = self.known_cid(); if self.lay.inst_ex[i] == x && !orders.iter().any(|(_, c, _, _): &(usize, String, i64, i64)| *c == cid) { let ot = self.time(); orders.push((i, cid, ot, [0, 5, 10][self.rng.below(3) as usize])); } } Ev::AcctSnap { x, t: ts, orders } }
                7..=10 => { let (i, cid) = self.known_cid(); Ev::OrdOpen { i, cid, t: ts, filled: [0, 0, 5, 5, 10][self.rng.below(5) as usize] } }
                11 => { let (i, cid) = self.known_cid(); Ev::OrdInactive { i, cid, kind: self.rng.below(4) as u8, t: ts } }
                12..=13 => { let (i, cid) = self.known_cid(); Ev::CancelResp { i, cid, ok: self.rng.chance(1, 2), t: ts } }
                14..=15 => { self.n_fill += 1; Ev::Fill { i: self.inst(), buy: self.rng.chance(1, 2), px: 95 + self.rng.below(10) as i64, qty: [5, 10, 10, 20][self.rng.below(4) as usize], t: ts, id: self.n_fill } }
                16 if self.cfg.reconnects => Ev::MktReconn { x: self.rng.below(N_EX as u64) as usize },
                17 if self.cfg.reconnects => Ev::AcctReconn { x: self.rng.below(N_EX as u64) as usize },
                18..=19 => Ev::Trading(self.rng.chance(2, 3)),
                20..=22 => { let single = if self.rng.chance(1, 2) { Some(self.rng.below(N_EX as u64) as usize) } else { None }; Ev::CmdOpen((0..1 + self.rng.below(3)).map(|_| self.fresh_open(single, false)).collect()) }
                23..=24 => Ev::CmdCancel((0..1 + self.rng.below(2)).map(|_| self.known_cancel(false)).collect()),
                25 => Ev::CmdClose(self.filt()),
                26..=27 => Ev::CmdCancelAll(self.filt()),
                28 if self.cfg.shutdown && self.rng.chance(1, 3) => Ev::Shutdown,
                _ => continue,
            };
            return ev;
        }
    }
}
