//! C14 bounded checker: "Global connectivity is healthy exactly when every exchange link is".
//! ALL sequences over {market item, account item, market reconnecting, account reconnecting} x two exchanges up to
//! length 5 (quick) / 6 (thorough) through the REAL `Engine::process` (depth-first, engine state saved / restored per node),
//! for every pair of exchanges, with the third exchange pre-healed or left reconnecting; plus seeded random longer
//! sequences over all three exchanges with varied item kinds.
use crate::{eng::*, report};
use barter::{engine::{Processor, state::{connectivity::Health, trading::TradingState}}, risk::DefaultRiskManager};
use barter_instrument::exchange::{ExchangeId, ExchangeIndex};
use std::{collections::HashSet, panic::{AssertUnwindSafe, catch_unwind}};

const L_GLOBAL: &str = "C14.bounded.global_iff_all_links";
const L_EXACT: &str = "C14.bounded.exact_link_effect";
const L_DISC: &str = "C14.bounded.on_disconnect_once_right_exchange";

#[derive(Debug, Copy, Clone, PartialEq)]
enum Sym { MktItem(usize), AcctItem(usize), MktReconn(usize), AcctReconn(usize) }

/// reference: per exchange (market data healthy, account healthy), on_disconnect log
#[derive(Clone)]
struct Ref { conn: [(bool, bool); N_EX], disc: Vec<(u64, ExchangeId)> }
impl Ref {
    fn apply(&mut self, lay: &Layout, s: Sym) {
        match s {
            Sym::MktItem(x) => self.conn[x].0 = true,
            Sym::AcctItem(x) => self.conn[x].1 = true,
            Sym::MktReconn(x) => { self.conn[x].0 = false; self.disc.push((self.disc.len() as u64 + 1, lay.ex_ids[x])); }
            Sym::AcctReconn(x) => { self.conn[x].1 = false; self.disc.push((self.disc.len() as u64 + 1, lay.ex_ids[x])); }
        }
    }
}
fn sym_of(lay: &Layout, ev: &Ev) -> Option<Sym> {
    Some(match ev {
        Ev::Trade { i, .. } | Ev::L1 { i, .. } => Sym::MktItem(lay.inst_ex[*i]),
        Ev::Bal { a, .. } => Sym::AcctItem(lay.ex_assets.iter().position(|v| v.contains(a)).unwrap()),
        Ev::AcctSnap { x, .. } => Sym::AcctItem(*x),
        Ev::OrdOpen { i, .. } | Ev::OrdInactive { i, .. } | Ev::CancelResp { i, .. } | Ev::Fill { i, .. } => Sym::AcctItem(lay.inst_ex[*i]),
        Ev::MktReconn { x } => Sym::MktReconn(*x),
        Ev::AcctReconn { x } => Sym::AcctReconn(*x),
        _ => return None,
    })
}

struct Ctx { seen: HashSet<&'static str>, n: u64 }
impl Ctx { fn fail(&mut self, label: &'static str, input: String, obs: String, exp: String) { if self.seen.insert(label) { report(label, input, obs, exp); } } }

fn links_of(s: &State) -> [(bool, bool); N_EX] {
    let mut v = [(false, false); N_EX];
    for (x, l) in v.iter_mut().enumerate() {
        let c = s.connectivity.connectivity_index(&ExchangeIndex(x));
        *l = (c.market_data == Health::Healthy, c.account == Health::Healthy);
    }
    v
}

fn check(ctx: &mut Ctx, rig: &Rig<DefaultRiskManager<State>>, r: &Ref, input: &dyn Fn() -> String) {
    ctx.n += 1;
    let links = links_of(&rig.engine.state);
    let global = rig.engine.state.connectivity.global == Health::Healthy;
    if links != r.conn { ctx.fail(L_EXACT, input(), format!("links (market, account) per exchange {links:?}"), format!("{:?}", r.conn)); }
    let all = links.iter().all(|(m, a)| *m && *a);
    if global != all || global != r.conn.iter().all(|(m, a)| *m && *a) {
        ctx.fail(L_GLOBAL, input(), format!("global healthy={global}, links {links:?}"), format!("global healthy={} (reference links {:?})", r.conn.iter().all(|(m, a)| *m && *a), r.conn));
    }
    let disc = lock(&rig.shared).disconnects.clone();
    if disc != r.disc { ctx.fail(L_DISC, input(), format!("on_disconnect invocations {disc:?}"), format!("{:?}", r.disc)); }
}

fn ev_of(lay: &Layout, s: Sym, ts: i64) -> Ev {
    match s {
        Sym::MktItem(x) => Ev::Trade { i: lay.ex_insts[x][0], t: ts, px: 100 },
        Sym::AcctItem(x) => Ev::Bal { a: lay.ex_assets[x][0], t: ts, total: ts },
        Sym::MktReconn(x) => Ev::MktReconn { x },
        Sym::AcctReconn(x) => Ev::AcctReconn { x },
    }
}

fn process(rig: &mut Rig<DefaultRiskManager<State>>, ev: &Ev) -> bool {
    let real = ev.real(&rig.lay);
    catch_unwind(AssertUnwindSafe(|| { let _ = rig.engine.process(real); })).is_ok()
}

fn dfs(ctx: &mut Ctx, rig: &mut Rig<DefaultRiskManager<State>>, r: &Ref, prefix: &[Ev], path: &mut Vec<Ev>, alphabet: &[Sym], left: usize) {
    let lay = rig.lay.clone();
    for s in alphabet {
        let ev = ev_of(&lay, *s, 10 + path.len() as i64);
        let saved = rig.engine.state.clone();
        let saved_disc = lock(&rig.shared).disconnects.len();
        let mut r2 = r.clone();
        r2.apply(&lay, *s);
        path.push(ev.clone());
        let input = || format!("events={:?}", prefix.iter().chain(path.iter()).collect::<Vec<_>>());
        if process(rig, &ev) {
            check(ctx, rig, &r2, &input);
            if left > 1 { dfs(ctx, rig, &r2, prefix, path, alphabet, left - 1); }
        } else {
            ctx.n += 1;
            ctx.fail(L_EXACT, input(), "panic while processing".into(), "no panic".into());
        }
        path.pop();
        rig.engine.state = saved;
        lock(&rig.shared).disconnects.truncate(saved_disc);
    }
}

pub fn run(seed: u64, thorough: bool) -> u64 {
    let lay = layout();
    let mut ctx = Ctx { seen: HashSet::new(), n: 0 };
    // exhaustive part
    for (a, b) in [(0usize, 1usize), (0, 2), (1, 2)] {
        let other = 3 - a - b;
        for preheal in [true, false] {
            let depth = if thorough { 6 } else { 5 };
            let trading = if (a + b + preheal as usize) % 2 == 0 { TradingState::Disabled } else { TradingState::Enabled };
            let mut rig = build(&lay, [Link::Healthy; N_EX], trading, DefaultRiskManager::<State>::default());
            let mut r = Ref { conn: [(false, false); N_EX], disc: vec![] };
            let mut prefix = vec![];
            if preheal {
                for s in [Sym::MktItem(other), Sym::AcctItem(other)] {
                    let ev = ev_of(&lay, s, 1 + prefix.len() as i64);
                    r.apply(&lay, s);
                    process(&mut rig, &ev);
                    prefix.push(ev);
                }
                check(&mut ctx, &rig, &r, &|| format!("events={prefix:?}"));
            }
            let alphabet: Vec<Sym> = [a, b].iter().flat_map(|x| [Sym::MktItem(*x), Sym::AcctItem(*x), Sym::MktReconn(*x), Sym::AcctReconn(*x)]).collect();
            dfs(&mut ctx, &mut rig, &r, &prefix, &mut vec![], &alphabet, depth);
        }
    }
    // seeded random longer sequences over all three exchanges, varied item kinds
    let mut rng = Rng::seeded(seed, 14);
    let rounds = if thorough { 40_000 } else { 3_000 };
    for round in 0..rounds {
        let trading = if round % 2 == 0 { TradingState::Disabled } else { TradingState::Enabled };
        let mut rig = build(&lay, [Link::Healthy; N_EX], trading, DefaultRiskManager::<State>::default());
        let mut r = Ref { conn: [(false, false); N_EX], disc: vec![] };
        let len = 6 + rng.below(30) as usize;
        let mut path: Vec<Ev> = vec![];
        let mut g = Gen::new(&mut rng, &lay, GenCfg { monotone: false, odd_keys: false, shutdown: false, reconnects: true });
        for _ in 0..len {
            // bias towards connectivity-relevant events; skip commands / trading updates half of the time
            let ev = loop {
                let e = if g.rng.chance(1, 3) { let x = g.rng.below(N_EX as u64) as usize; if g.rng.chance(1, 2) { Ev::MktReconn { x } } else { Ev::AcctReconn { x } } } else { g.event() };
                if sym_of(&lay, &e).is_some() || (matches!(e, Ev::Trading(_)) && g.rng.chance(1, 2)) { break e; }
            };
            if let Some(s) = sym_of(&lay, &ev) { r.apply(&lay, s); }
            path.push(ev.clone());
            let input = || format!("events={path:?}");
            if !process(&mut rig, &ev) { ctx.fail(L_EXACT, input(), "panic while processing".into(), "no panic".into()); break; }
            check(&mut ctx, &rig, &r, &input);
        }
    }
    ctx.n
}
