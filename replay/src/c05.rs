//! C05 witness search / bounded stand-in: event sequences on the REAL OrderBook against a BTreeMap price->amount model.
use crate::report;
use barter_data::{books::{Level, OrderBook}, subscription::book::OrderBookEvent};
use rust_decimal::Decimal;
use std::collections::{BTreeMap, HashSet};

struct Rng(u64);
impl Rng { fn next(&mut self) -> u64 { self.0 ^= self.0 << 13; self.0 ^= self.0 >> 7; self.0 ^= self.0 << 17; self.0 } fn below(&mut self, n: u64) -> u64 { self.next() % n } }

type Model = (BTreeMap<Decimal, Decimal>, BTreeMap<Decimal, Decimal>, u64);

fn apply_model(m: &mut Model, snapshot: bool, seq: u64, bids: &[(i64, i64)], asks: &[(i64, i64)]) {
    if snapshot { m.0.clear(); m.1.clear(); }
    for (side, ls) in [(&mut m.0, bids), (&mut m.1, asks)] {
        for (p, a) in ls {
            if *a == 0 { side.remove(&Decimal::from(*p)); } else { side.insert(Decimal::from(*p), Decimal::from(*a)); }
        }
    }
    m.2 = seq;
}
fn check(book: &OrderBook, m: &Model) -> Option<(&'static str, String, String)> {
    let bids: Vec<(Decimal, Decimal)> = book.bids().levels().iter().map(|l| (l.price, l.amount)).collect();
    let asks: Vec<(Decimal, Decimal)> = book.asks().levels().iter().map(|l| (l.price, l.amount)).collect();
    let mb: Vec<_> = m.0.iter().rev().map(|(p, a)| (*p, *a)).collect();
    let ma: Vec<_> = m.1.iter().map(|(p, a)| (*p, *a)).collect();
    if bids != mb { return Some(("C05.bounded.bids_equal_map", format!("{bids:?}"), format!("{mb:?}"))); }
    if asks != ma { return Some(("C05.bounded.asks_equal_map", format!("{asks:?}"), format!("{ma:?}"))); }
    if book.sequence != m.2 { return Some(("C05.bounded.sequence_of_last_event", format!("{}", book.sequence), format!("{}", m.2))); }
    let mid = match (mb.first(), ma.first()) {
        (Some(b), Some(a)) => Some((b.0 + a.0) / Decimal::TWO), (Some(b), None) => Some(b.0), (None, Some(a)) => Some(a.0), (None, None) => None };
    if book.mid_price() != mid { return Some(("C05.bounded.mid_price", format!("{:?}", book.mid_price()), format!("{mid:?}"))); }
    None
}
fn levels(ls: &[(i64, i64)]) -> Vec<Level> { ls.iter().map(|(p, a)| Level::new(Decimal::from(*p), Decimal::from(*a))).collect() }

fn run_seq(events: &[(bool, Vec<(i64, i64)>, Vec<(i64, i64)>)], seen: &mut HashSet<&'static str>) {
    let mut book = OrderBook::default();
    let mut m: Model = (BTreeMap::new(), BTreeMap::new(), 0);
    let mut trace = vec![];
    for (k, (snapshot, bids, asks)) in events.iter().enumerate() {
        let seq = (k + 1) as u64;
        // a snapshot event is built from distinct prices only (the constructor does not dedupe: stated precondition)
        let ob = OrderBook::new(seq, None, levels(bids), levels(asks));
        let ev = if *snapshot { OrderBookEvent::Snapshot(ob) } else { OrderBookEvent::Update(ob) };
        trace.push(format!("{}(seq={seq}, bids={bids:?}, asks={asks:?})", if *snapshot { "Snapshot" } else { "Update" }));
        book.update(ev);
        apply_model(&mut m, *snapshot, seq, bids, asks);
        if let Some((label, obs, exp)) = check(&book, &m) {
            if seen.insert(label) { report(label, format!("events: {}", trace.join(" ; ")), obs, exp); }
            return;
        }
    }
}

pub fn run(seed: u64, thorough: bool) -> u64 {
    let mut seen = HashSet::new();
    let mut n = 0u64;
    let prices = [1i64, 2, 3, 4];
    let amounts = [0i64, 1, 2];
    // exhaustive: two updates of up to 2 levels on bids after a one/two-level snapshot
    let mut lists: Vec<Vec<(i64, i64)>> = vec![vec![]];
    for p in prices { for a in amounts { lists.push(vec![(p, a)]); } }
    for p in prices { for a in amounts { for p2 in prices { for a2 in amounts { lists.push(vec![(p, a), (p2, a2)]); } } } }
    let snaps: Vec<Vec<(i64, i64)>> = vec![vec![], vec![(2, 1)], vec![(1, 1), (3, 2)], vec![(1, 1), (2, 1), (4, 1)]];
    for s in &snaps {
        for l1 in &lists {
            for l2 in &lists {
                run_seq(&[(true, s.clone(), s.clone()), (false, l1.clone(), l2.clone()), (false, l2.clone(), l1.clone())], &mut seen);
                n += 1;
            }
        }
    }
    // seeded random longer histories with re-snapshots
    let mut rng = Rng(0x9E3779B97F4A7C15 ^ seed.wrapping_mul(0xD1B54A32D192ED03) | 1);
    let rounds = if thorough { 200_000 } else { 20_000 };
    for _ in 0..rounds {
        let len = 2 + rng.below(6) as usize;
        let mut evs = vec![];
        for k in 0..len {
            let snapshot = k == 0 || rng.below(5) == 0;
            let mut mk = |rng: &mut Rng, distinct: bool| {
                let cnt = rng.below(4) as usize;
                let mut v: Vec<(i64, i64)> = vec![];
                for _ in 0..cnt {
                    let p = 1 + rng.below(6) as i64;
                    let a = if distinct { 1 + rng.below(3) as i64 } else { rng.below(3) as i64 };
                    if distinct && v.iter().any(|(q, _)| *q == p) { continue; }
                    v.push((p, a));
                }
                v
            };
            let b = mk(&mut rng, snapshot); let a = mk(&mut rng, snapshot);
            evs.push((snapshot, b, a));
        }
        run_seq(&evs, &mut seen);
        n += 1;
    }
    n
}
