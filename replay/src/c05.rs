//! C05 witness search / bounded stand-in: event sequences on the REAL OrderBook against a BTreeMap price->amount model.
//! After EVERY event: both sides equal the map (best-first, no duplicate prices), sequence, mid / volume-weighted mid price, and
//! `snapshot(depth)` for every depth 0..=len+2 returns the best N levels of each side (the books are asymmetric in general).
use crate::report;
use barter_data::{books::{Level, OrderBook, manager::OrderBookL2Manager, map::{OrderBookMap, OrderBookMapMulti, OrderBookMapSingle}}, event::MarketEvent, streams::reconnect::Event, subscription::book::OrderBookEvent};
use barter_instrument::exchange::ExchangeId;
use futures::StreamExt;
use std::{cell::RefCell, rc::Rc, sync::Arc};
use rust_decimal::Decimal;
use std::collections::{BTreeMap, HashSet};

struct Rng(u64);
impl Rng { fn next(&mut self) -> u64 { self.0 ^= self.0 << 13; self.0 ^= self.0 >> 7; self.0 ^= self.0 << 17; self.0 } fn below(&mut self, n: u64) -> u64 { self.next() % n } }

type Model = (BTreeMap<Decimal, Decimal>, BTreeMap<Decimal, Decimal>, u64);

fn apply_model(m: &mut Model, snapshot: bool, seq: u64, bids: &[(i64, i64)], asks: &[(i64, i64)]) {
    if snapshot { m.0.clear(); m.1.clear(); }
    for (side, ls) in [(&mut m.0, bids), (&mut m.1, asks)] {
        for (p, a) in ls {
            if *a == 0 { side.remove(&Decimal::from(*p)); } else { side.insert(Decimal::from(*p), Decimal::from(*a)); }
        }
    }
    m.2 = seq;
}
type Fail = (&'static str, String, String);
const L_SNAP: &str = "C05.bounded.snapshot_depth_best_n_of_each_side";
const L_DUP: &str = "C05.bounded.no_duplicate_prices";
fn pairs(ls: &[Level]) -> Vec<(Decimal, Decimal)> { ls.iter().map(|l| (l.price, l.amount)).collect() }
/// every clause that fails on this book (one entry per label at most)
fn check(book: &OrderBook, m: &Model) -> Vec<Fail> {
    let mut out: Vec<Fail> = vec![];
    let bids = pairs(book.bids().levels());
    let asks = pairs(book.asks().levels());
    let mb: Vec<_> = m.0.iter().rev().map(|(p, a)| (*p, *a)).collect();
    let ma: Vec<_> = m.1.iter().map(|(p, a)| (*p, *a)).collect();
    // a price->amount map holds every price once: strictly descending bids / strictly ascending asks
    for (name, side, desc) in [("bids", &bids, true), ("asks", &asks, false)] {
        if let Some(w) = side.windows(2).find(|w| w[0].0 == w[1].0) {
            out.push((L_DUP, format!("{name} hold price {} twice: {side:?}", w[0].0), format!("every price at most once, {}: {:?}", if desc { "descending" } else { "ascending" }, if desc { &mb } else { &ma })));
            break;
        }
    }
    if bids != mb { out.push(("C05.bounded.bids_equal_map", format!("{bids:?}"), format!("{mb:?}"))); }
    if asks != ma { out.push(("C05.bounded.asks_equal_map", format!("{asks:?}"), format!("{ma:?}"))); }
    if book.sequence != m.2 { out.push(("C05.bounded.sequence_of_last_event", format!("{}", book.sequence), format!("{}", m.2))); }
    let mid = match (mb.first(), ma.first()) {
        (Some(b), Some(a)) => Some((b.0 + a.0) / Decimal::TWO), (Some(b), None) => Some(b.0), (None, Some(a)) => Some(a.0), (None, None) => None };
    if book.mid_price() != mid { out.push(("C05.bounded.mid_price", format!("{:?}", book.mid_price()), format!("{mid:?}"))); }
    let vw = match (mb.first(), ma.first()) {
        (Some(b), Some(a)) => Some((b.0 * a.1 + a.0 * b.1) / (b.1 + a.1)), (Some(b), None) => Some(b.0), (None, Some(a)) => Some(a.0), (None, None) => None };
    if book.volume_weighed_mid_price() != vw { out.push(("C05.bounded.volume_weighted_mid_price", format!("{:?}", book.volume_weighed_mid_price()), format!("{vw:?}"))); }
    // depth-limited snapshot: the best N levels of EACH side (the sides are clamped independently), same sequence / time
    for depth in 0..=mb.len().max(ma.len()) + 2 {
        let snap = book.snapshot(depth);
        let (sb, sa) = (pairs(snap.bids().levels()), pairs(snap.asks().levels()));
        let (eb, ea): (Vec<_>, Vec<_>) = (mb.iter().take(depth).copied().collect(), ma.iter().take(depth).copied().collect());
        if sb != eb || sa != ea || snap.sequence != m.2 || snap.time_engine != book.time_engine {
            out.push((L_SNAP, format!("snapshot(depth={depth}) of a book with {} bid / {} ask levels -> sequence={} bids={sb:?} asks={sa:?}", mb.len(), ma.len(), snap.sequence),
                format!("sequence={} bids={eb:?} asks={ea:?}", m.2)));
            break;
        }
    }
    out
}
fn levels(ls: &[(i64, i64)]) -> Vec<Level> { ls.iter().map(|(p, a)| Level::new(Decimal::from(*p), Decimal::from(*a))).collect() }

fn run_seq(events: &[(bool, Vec<(i64, i64)>, Vec<(i64, i64)>)], seen: &mut HashSet<&'static str>) {
    let mut book = OrderBook::default();
    let mut m: Model = (BTreeMap::new(), BTreeMap::new(), 0);
    let mut trace = vec![];
    for (k, (snapshot, bids, asks)) in events.iter().enumerate() {
        let seq = (k + 1) as u64;
        // a snapshot event is built from distinct prices only (the constructor does not dedupe: stated precondition)
        let ob = OrderBook::new(seq, None, levels(bids), levels(asks));
        let ev = if *snapshot { OrderBookEvent::Snapshot(ob) } else { OrderBookEvent::Update(ob) };
        trace.push(format!("{}(seq={seq}, bids={bids:?}, asks={asks:?})", if *snapshot { "Snapshot" } else { "Update" }));
        book.update(ev);
        apply_model(&mut m, *snapshot, seq, bids, asks);
        let fails = check(&book, &m);
        for (label, obs, exp) in &fails {
            if seen.insert(*label) { report(label, format!("events: {}", trace.join(" ; ")), obs.clone(), exp.clone()); }
        }
        if !fails.is_empty() { return; }
    }
}

/// The consumer loop: events for two configured instruments (and one that is not configured), with ARBITRARY sequence numbers (increasing,
/// repeated, restarting below the book's), interleaved with Reconnecting notices, go through the REAL `OrderBookL2Manager::run`. Before the
/// manager pulls the next item - i.e. after it has applied the previous one - each managed book must equal its instrument's map, and its
/// sequence must be that of the last event applied to it (every event is applied: 'after ANY sequence of snapshots and updates').
type MEv = (usize, bool, u64, Vec<(i64, i64)>, Vec<(i64, i64)>);   // (instrument 0/1 | 2 = not configured | 9 = Reconnecting notice, snapshot?, sequence, bids, asks)
fn run_manager_seq(events: &[MEv], seen: &mut HashSet<&'static str>) {
    let keys = [11u32, 22u32];
    let books = OrderBookMapMulti::new(keys.iter().map(|k| (*k, Arc::new(Default::default()))).collect::<fnv::FnvHashMap<u32, _>>());
    let models: Rc<RefCell<[Model; 2]>> = Rc::new(RefCell::new([(BTreeMap::new(), BTreeMap::new(), 0), (BTreeMap::new(), BTreeMap::new(), 0)]));
    let fails: Rc<RefCell<Vec<(usize, Fail)>>> = Rc::new(RefCell::new(vec![]));
    let settle = { let (books, models, fails) = (books.clone(), models.clone(), fails.clone()); move |upto: usize| {
        if !fails.borrow().is_empty() { return; }
        for (j, k) in keys.iter().enumerate() {
            let book = books.find(k).unwrap().read().clone();
            for f in check(&book, &models.borrow()[j]) { fails.borrow_mut().push((upto, f)); }
        }
    } };
    let items: Vec<(usize, Event<ExchangeId, MarketEvent<u32, OrderBookEvent>>)> = events.iter().enumerate().map(|(n, (inst, snapshot, seq, bids, asks))| {
        if *inst == 9 { return (n, Event::Reconnecting(ExchangeId::BinanceSpot)); }
        let ob = OrderBook::new(*seq, None, levels(bids), levels(asks));
        let kind = if *snapshot { OrderBookEvent::Snapshot(ob) } else { OrderBookEvent::Update(ob) };
        let t = chrono::DateTime::<chrono::Utc>::from_timestamp(1_700_000_000 + n as i64, 0).unwrap();
        (n, Event::Item(MarketEvent { time_exchange: t, time_received: t, exchange: ExchangeId::BinanceSpot, instrument: match inst { 0 => 11u32, 1 => 22, _ => 33 }, kind }))
    }).collect();
    let stream = futures::stream::iter(items).map({ let (models, settle, evs) = (models.clone(), settle.clone(), events.to_vec()); move |(n, item)| {
        settle(n);
        let (inst, snapshot, seq, bids, asks) = &evs[n];
        if *inst < 2 { apply_model(&mut models.borrow_mut()[*inst], *snapshot, *seq, bids, asks); }
        item
    } });
    futures::executor::block_on(OrderBookL2Manager { stream: Box::pin(stream), books: books.clone() }.run());
    settle(events.len());
    if let Some((upto, (label, obs, exp))) = fails.borrow().first().cloned() {
        let label: &'static str = match label { "C05.bounded.bids_equal_map" | "C05.bounded.asks_equal_map" | "C05.bounded.sequence_of_last_event" => "C05.bounded.managed_book_equals_map_after_every_event", l => l };
        if seen.insert(label) {
            let show = |e: &MEv| if e.0 == 9 { "Reconnecting".to_string() } else { format!("{}(instrument {}, seq={}, bids={:?}, asks={:?})", if e.1 { "Snapshot" } else { "Update" }, ["A", "B", "not-configured"][e.0.min(2)], e.2, e.3, e.4) };
            report(label, format!("through OrderBookL2Manager::run, two managed books A, B; stream: {}; checked after {} item(s)", events.iter().map(show).collect::<Vec<_>>().join(" ; "), upto), obs, exp);
        }
    }
}

fn run_manager_single_seq(events: &[MEv], seen: &mut HashSet<&'static str>) {
    let keys = [11u32];
    let books = OrderBookMapSingle::new(11u32, Arc::new(Default::default()));
    let models: Rc<RefCell<[Model; 2]>> = Rc::new(RefCell::new([(BTreeMap::new(), BTreeMap::new(), 0), (BTreeMap::new(), BTreeMap::new(), 0)]));
    let fails: Rc<RefCell<Vec<(usize, Fail)>>> = Rc::new(RefCell::new(vec![]));
    let settle = { let (books, models, fails) = (books.clone(), models.clone(), fails.clone()); move |upto: usize| {
        if !fails.borrow().is_empty() { return; }
        for (j, k) in keys.iter().enumerate() {
            let book = books.find(k).unwrap().read().clone();
            for f in check(&book, &models.borrow()[j]) { fails.borrow_mut().push((upto, f)); }
        }
    } };
    let items: Vec<(usize, Event<ExchangeId, MarketEvent<u32, OrderBookEvent>>)> = events.iter().enumerate().map(|(n, (inst, snapshot, seq, bids, asks))| {
        if *inst == 9 { return (n, Event::Reconnecting(ExchangeId::BinanceSpot)); }
        let ob = OrderBook::new(*seq, None, levels(bids), levels(asks));
        let kind = if *snapshot { OrderBookEvent::Snapshot(ob) } else { OrderBookEvent::Update(ob) };
        let t = chrono::DateTime::<chrono::Utc>::from_timestamp(1_700_000_000 + n as i64, 0).unwrap();
        (n, Event::Item(MarketEvent { time_exchange: t, time_received: t, exchange: ExchangeId::BinanceSpot, instrument: match inst { 0 => 11u32, 1 => 22, _ => 33 }, kind }))
    }).collect();
    let stream = futures::stream::iter(items).map({ let (models, settle, evs) = (models.clone(), settle.clone(), events.to_vec()); move |(n, item)| {
        settle(n);
        let (inst, snapshot, seq, bids, asks) = &evs[n];
        if *inst < 1 { apply_model(&mut models.borrow_mut()[*inst], *snapshot, *seq, bids, asks); }
        item
    } });
    futures::executor::block_on(OrderBookL2Manager { stream: Box::pin(stream), books: books.clone() }.run());
    settle(events.len());
    if let Some((upto, (label, obs, exp))) = fails.borrow().first().cloned() {
        let label: &'static str = match label { "C05.bounded.bids_equal_map" | "C05.bounded.asks_equal_map" | "C05.bounded.sequence_of_last_event" => "C05.bounded.managed_book_equals_map_after_every_event", l => l };
        if seen.insert(label) {
            let show = |e: &MEv| if e.0 == 9 { "Reconnecting".to_string() } else { format!("{}(instrument {}, seq={}, bids={:?}, asks={:?})", if e.1 { "Snapshot" } else { "Update" }, ["A", "B", "not-configured"][e.0.min(2)], e.2, e.3, e.4) };
            report(label, format!("through OrderBookL2Manager::run over an OrderBookMapSingle for instrument A only (B and the third instrument are NOT configured); stream: {}; checked after {} item(s)", events.iter().map(show).collect::<Vec<_>>().join(" ; "), upto), obs, exp);
        }
    }
}

/// The managed book is SHARED (Arc<RwLock<OrderBook>>): a consumer may be reading it (a depth snapshot, say) at the moment the manager wants to apply
/// an event. The event must still be applied - after the reader has let go - never dropped. The manager runs on its own thread over a channel; the
/// reader holds a read guard while an update is sent. Whatever the timing, on the tree as found every event ends up applied (the manager WAITS for the
/// lock), so this cannot raise an alarm by timing alone.
fn run_manager_with_reader(seen: &mut HashSet<&'static str>) {
    let books = OrderBookMapSingle::new(11u32, Arc::new(Default::default()));
    let book = books.find(&11u32).expect("own instrument");
    let (tx, rx) = futures::channel::mpsc::unbounded::<Event<ExchangeId, MarketEvent<u32, OrderBookEvent>>>();
    let manager = { let books = books.clone(); std::thread::spawn(move || futures::executor::block_on(OrderBookL2Manager { stream: Box::pin(rx), books }.run())) };
    let item = |n: i64, snapshot: bool, seq: u64, bids: &[(i64, i64)], asks: &[(i64, i64)]| {
        let ob = OrderBook::new(seq, None, levels(bids), levels(asks));
        let t = chrono::DateTime::<chrono::Utc>::from_timestamp(1_700_000_000 + n, 0).unwrap();
        Event::Item(MarketEvent { time_exchange: t, time_received: t, exchange: ExchangeId::BinanceSpot, instrument: 11u32, kind: if snapshot { OrderBookEvent::Snapshot(ob) } else { OrderBookEvent::Update(ob) } })
    };
    let evs: [(bool, u64, Vec<(i64, i64)>, Vec<(i64, i64)>); 3] = [(true, 1, vec![(100, 2), (99, 1)], vec![(101, 1)]), (false, 2, vec![(100, 0), (98, 7)], vec![(101, 3)]), (false, 3, vec![(97, 1)], vec![(102, 1)])];
    let mut model: Model = (BTreeMap::new(), BTreeMap::new(), 0);
    for (snapshot, seq, b, a) in &evs { apply_model(&mut model, *snapshot, *seq, b, a); }
    let _ = tx.unbounded_send(item(0, evs[0].0, evs[0].1, &evs[0].2, &evs[0].3));
    // wait (bounded) until the snapshot has been applied, then read the book while the next update arrives
    for _ in 0..2000 { if book.read().sequence == 1 { break; } std::thread::sleep(std::time::Duration::from_millis(1)); }
    {
        let guard = book.read();
        let _ = tx.unbounded_send(item(1, evs[1].0, evs[1].1, &evs[1].2, &evs[1].3));
        std::thread::sleep(std::time::Duration::from_millis(60));
        drop(guard);
    }
    let _ = tx.unbounded_send(item(2, evs[2].0, evs[2].1, &evs[2].2, &evs[2].3));
    drop(tx);
    let _ = manager.join();
    let got = book.read().clone();
    if let Some((label, obs, exp)) = check(&got, &model).into_iter().next() {
        let label: &'static str = match label { "C05.bounded.bids_equal_map" | "C05.bounded.asks_equal_map" | "C05.bounded.sequence_of_last_event" => "C05.bounded.managed_book_equals_map_after_every_event", l => l };
        if seen.insert(label) {
            report(label, "through OrderBookL2Manager::run (own thread, OrderBookMapSingle); stream: Snapshot(seq=1, bids=[(100,2),(99,1)], asks=[(101,1)]) ; Update(seq=2, bids=[(100,0),(98,7)], asks=[(101,3)]) sent WHILE a consumer holds a read lock on the shared book for 60 ms ; Update(seq=3, bids=[(97,1)], asks=[(102,1)]) ; end of stream".into(), obs, exp);
        }
    }
}

pub fn run(seed: u64, thorough: bool) -> u64 {
    let mut seen = HashSet::new();
    let mut n = 0u64;
    let prices = [1i64, 2, 3, 4];
    let amounts = [0i64, 1, 2];
    // exhaustive: two updates of up to 2 levels on bids after a one/two-level snapshot
    let mut lists: Vec<Vec<(i64, i64)>> = vec![vec![]];
    for p in prices { for a in amounts { lists.push(vec![(p, a)]); } }
    for p in prices { for a in amounts { for p2 in prices { for a2 in amounts { lists.push(vec![(p, a), (p2, a2)]); } } } }
    let snaps: Vec<Vec<(i64, i64)>> = vec![vec![], vec![(2, 1)], vec![(1, 1), (3, 2)], vec![(1, 1), (2, 1), (4, 1)]];
    for s in &snaps {
        for l1 in &lists {
            for l2 in &lists {
                run_seq(&[(true, s.clone(), s.clone()), (false, l1.clone(), l2.clone()), (false, l2.clone(), l1.clone())], &mut seen);
                n += 1;
            }
        }
    }
    // crafted ASYMMETRIC books (nb bid levels x na ask levels, incl. an empty side), built by a snapshot or by updates only; then, on each
    // side, an update whose price equals the current WORST (deepest) level (incl. one-level sides) has to replace it, and a delete of that
    // price has to remove it; `check` takes snapshot(depth) for every depth 0..=len+2 after every event
    for nb in 0..=4usize {
        for na in 0..=4usize {
            for by_updates in [false, true] {
                let bids: Vec<(i64, i64)> = (0..nb).map(|k| (50 - 2 * k as i64, 1 + k as i64)).collect();
                let asks: Vec<(i64, i64)> = (0..na).map(|k| (51 + 2 * k as i64, 2 + k as i64)).collect();
                for order in 0..3u8 {
                    // order of the levels inside the event: best-first, worst-first, interleaved
                    let arrange = |v: &Vec<(i64, i64)>| -> Vec<(i64, i64)> { let mut v = v.clone(); match order { 0 => {} 1 => v.reverse(), _ => { if v.len() > 2 { v.swap(0, 2); } } } v };
                    let mut evs: Vec<(bool, Vec<(i64, i64)>, Vec<(i64, i64)>)> = vec![];
                    if by_updates {
                        evs.push((true, vec![], vec![]));
                        for l in arrange(&bids) { evs.push((false, vec![l], vec![])); }
                        for l in arrange(&asks) { evs.push((false, vec![], vec![l])); }
                    } else {
                        evs.push((true, arrange(&bids), arrange(&asks)));
                    }
                    for touch in 0..4u8 {
                        // 0: bids' worst, 1: asks' worst, 2: both in one event, 3: worst re-priced twice, then a deeper level appended, then deleted
                        let mut e = evs.clone();
                        let (wb, wa) = (bids.last().copied(), asks.last().copied());
                        let b_upd: Vec<(i64, i64)> = wb.iter().map(|(p, a)| (*p, a + 7)).collect();
                        let a_upd: Vec<(i64, i64)> = wa.iter().map(|(p, a)| (*p, a + 7)).collect();
                        let b_del: Vec<(i64, i64)> = wb.iter().map(|(p, _)| (*p, 0)).collect();
                        let a_del: Vec<(i64, i64)> = wa.iter().map(|(p, _)| (*p, 0)).collect();
                        match touch {
                            0 => { e.push((false, b_upd, vec![])); e.push((false, b_del, vec![])); }
                            1 => { e.push((false, vec![], a_upd)); e.push((false, vec![], a_del)); }
                            2 => { e.push((false, b_upd, a_upd)); e.push((false, b_del, a_del)); }
                            _ => {
                                e.push((false, b_upd.clone(), a_upd.clone()));
                                e.push((false, b_upd.iter().map(|(p, a)| (*p, a + 1)).collect(), a_upd.iter().map(|(p, a)| (*p, a + 1)).collect()));
                                e.push((false, vec![(10, 3)], vec![(90, 3)]));
                                e.push((false, vec![(10, 4)], vec![(90, 4)]));
                                e.push((false, vec![(10, 0)], vec![(90, 0)]));
                                e.push((false, b_del, a_del));
                            }
                        }
                        run_seq(&e, &mut seen);
                        n += 1;
                    }
                }
            }
        }
    }
    // WIDE updates: more than 20 levels on a side (std's sort_unstable_by is an insertion sort - stable in effect - up to 20 elements
    // and a real unstable sort beyond), prices repeated inside one update at the front / middle / back: as in a map, the LAST entry of a
    // price decides (the constructors must keep equal prices in input order)
    for width in [21usize, 30, 50, 100, 300] {
        let dups: Vec<usize> = if thorough { (0..width).collect() } else { vec![0, 1, width / 3, width / 2, width - 2, width - 1] };
        for dup_at in dups {
            for zero_last in [false, true] {
                let mut l: Vec<(i64, i64)> = (0..width).map(|i| (1000 + ((i * 7919) % width) as i64, 1 + (i % 3) as i64)).collect();
                let p = l[dup_at].0;
                l.push((p, 2));
                l.insert(width / 2, (p, 5));
                l.push((p, if zero_last { 0 } else { 3 }));
                run_seq(&[(true, vec![(999, 1)], vec![(1001 + width as i64, 1)]), (false, l.clone(), vec![]), (false, vec![], l.clone()), (false, l.clone(), l)], &mut seen);
                n += 1;
            }
        }
    }
    run_manager_with_reader(&mut seen); n += 1;
    // the consumer loop (OrderBookL2Manager): crafted sequence-number patterns, then seeded random streams
    {
        let up = |i: usize, q: u64, b: Vec<(i64, i64)>, a: Vec<(i64, i64)>| -> MEv { (i, false, q, b, a) };
        let sn = |i: usize, q: u64, b: Vec<(i64, i64)>, a: Vec<(i64, i64)>| -> MEv { (i, true, q, b, a) };
        let crafted: Vec<Vec<MEv>> = vec![
            // increasing
            vec![sn(0, 10, vec![(5, 1)], vec![(6, 1)]), up(0, 11, vec![(4, 2)], vec![]), up(0, 12, vec![(5, 0)], vec![(7, 3)])],
            // an update whose sequence is LOWER than the book's (numbering restarted without a new snapshot) and one that repeats it
            vec![sn(0, 100, vec![(5, 1)], vec![(6, 1)]), up(0, 3, vec![(4, 2)], vec![(6, 0)]), up(0, 3, vec![(3, 1)], vec![]), up(0, 4, vec![(5, 0)], vec![(8, 1)])],
            // two instruments interleaved, a notice and an event for a non-configured instrument in between
            vec![sn(0, 7, vec![(5, 1)], vec![(6, 1)]), sn(1, 70, vec![(50, 1)], vec![(60, 1)]), (9, false, 0, vec![], vec![]), up(2, 1, vec![(1, 1)], vec![(2, 1)]), up(1, 69, vec![(51, 2)], vec![]), up(0, 8, vec![], vec![(6, 0)]), sn(1, 5, vec![(40, 1)], vec![]), up(1, 6, vec![(41, 1)], vec![(42, 1)])],
            // updates before any snapshot
            vec![up(0, 5, vec![(5, 1)], vec![(6, 1)]), up(0, 2, vec![(5, 0), (4, 1)], vec![]), sn(0, 1, vec![(9, 1)], vec![(10, 1)]), up(0, 1, vec![(9, 2)], vec![])],
        ];
        for c in &crafted { run_manager_seq(c, &mut seen); run_manager_single_seq(c, &mut seen); n += 2; }
        let mut rng = Rng(0xA0761D6478BD642F ^ seed.wrapping_mul(0xE7037ED1A0B428DB) | 1);
        for _ in 0..(if thorough { 30_000 } else { 3_000 }) {
            let len = 2 + rng.below(8) as usize;
            let mut evs: Vec<MEv> = vec![];
            let mut last = [50u64, 50u64, 50u64];
            for k in 0..len {
                if rng.below(9) == 0 { evs.push((9, false, 0, vec![], vec![])); continue; }
                let inst = if rng.below(8) == 0 { 2 } else { rng.below(2) as usize };
                let snapshot = k < 2 || rng.below(5) == 0;
                let seq = match rng.below(4) { 0 => last[inst], 1 => last[inst].saturating_sub(1 + rng.below(40)), _ => last[inst] + 1 + rng.below(3) };
                last[inst] = seq;
                let mut mk = |rng: &mut Rng, distinct: bool| {
                    let mut v: Vec<(i64, i64)> = vec![];
                    for _ in 0..rng.below(4) {
                        let p = 1 + rng.below(6) as i64;
                        let a = if distinct { 1 + rng.below(3) as i64 } else { rng.below(3) as i64 };
                        if distinct && v.iter().any(|(q, _)| *q == p) { continue; }
                        v.push((p, a));
                    }
                    v
                };
                let (b, a) = (mk(&mut rng, snapshot), mk(&mut rng, snapshot));
                evs.push((inst, snapshot, seq, b, a));
            }
            run_manager_seq(&evs, &mut seen);
            run_manager_single_seq(&evs, &mut seen); n += 1;
            n += 1;
        }
    }
    // seeded random longer histories with re-snapshots
    let mut rng = Rng(0x9E3779B97F4A7C15 ^ seed.wrapping_mul(0xD1B54A32D192ED03) | 1);
    for _ in 0..(if thorough { 3000 } else { 300 }) {
        let width = 21 + rng.below(80) as usize;
        let span = 1 + rng.below(width as u64 * 2) as i64;      // few distinct prices => many repeats
        let mk = |rng: &mut Rng| -> Vec<(i64, i64)> { (0..width).map(|_| (1000 + rng.below(span as u64) as i64, rng.below(4) as i64)).collect() };
        let (b1, a1, b2, a2) = (mk(&mut rng), mk(&mut rng), mk(&mut rng), mk(&mut rng));
        run_seq(&[(true, vec![], vec![]), (false, b1, a1), (false, b2, a2)], &mut seen);
        n += 1;
    }
    let rounds = if thorough { 200_000 } else { 20_000 };
    for _ in 0..rounds {
        let len = 2 + rng.below(6) as usize;
        let mut evs = vec![];
        for k in 0..len {
            let snapshot = k == 0 || rng.below(5) == 0;
            let mut mk = |rng: &mut Rng, distinct: bool| {
                let cnt = rng.below(4) as usize;
                let mut v: Vec<(i64, i64)> = vec![];
                for _ in 0..cnt {
                    let p = 1 + rng.below(6) as i64;
                    let a = if distinct { 1 + rng.below(3) as i64 } else { rng.below(3) as i64 };
                    if distinct && v.iter().any(|(q, _)| *q == p) { continue; }
                    v.push((p, a));
                }
                v
            };
            let b = mk(&mut rng, snapshot); let a = mk(&mut rng, snapshot);
            evs.push((snapshot, b, a));
        }
        run_seq(&evs, &mut seen);
        n += 1;
    }
    n
}
