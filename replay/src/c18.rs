//! C18 witness search / bounded stand-in: timed value curves through the REAL `DrawdownGenerator` (+ `MaxDrawdownGenerator` /
//! `MeanDrawdownGenerator` fed the way the tear sheets feed them) against an independent peak-to-trough decomposition of the WHOLE
//! prefix, recomputed from scratch after EVERY point: the strict running maxima ("records") cut the curve into segments; a segment
//! whose lowest point lies below its record is a drawdown of (record - trough) / record that starts at the record's time.
//!
//! Conventions derived from the UNCHANGED code (metric/drawdown/mod.rs) and followed by the model:
//!  * only a point STRICTLY above the peak is a new peak. A point that returns EXACTLY to the peak neither ends the drawdown nor
//!    starts a new one: the decline stays in progress (same start time, same depth so far) until a point exceeds the peak;
//!  * a completed drawdown is returned by `update` exactly once, by the point that exceeds the peak; its time_end is THAT point's time
//!    (the recovery time), its time_start the time the peak was FIRST reached (a later tie with the peak does not move it);
//!  * `generate()` reports the in-progress decline (depth so far, peak time, time of the latest point) or None at / above the peak, and
//!    changes nothing: calling it any number of times leaves the generator in the state of a twin that was never asked;
//!  * max drawdown = the first of the largest completed ones (strict `>` replaces); mean drawdown = running mean of depth (Decimal) and
//!    of the duration in whole milliseconds (i64 Welford step, truncating division).
//! Curves start at a positive value, so every peak is positive (the quantifier of C18).
//!
//! Labels: completed_drawdowns (what `update` returns at every point, and the peak / time bookkeeping incl. the PnL curve a
//! `TearSheetGenerator` builds from closed positions: each point stamped with the position's exit time),
//! current_drawdown_mid_decline_not_disturbed, max_drawdown, mean_drawdown.
//! Tolerance: depth = (peak - value) / peak and the mean depth divide: |diff| <= 1e-18; the mean duration is an integer running mean
//! with truncating division: |diff| <= number of drawdowns (ms); times, peaks, counts exact.
use crate::{report, rng::Rng};
use barter::{
    Timed,
    engine::state::position::PositionExited,
    statistic::{
        metric::drawdown::{Drawdown, DrawdownGenerator, max::MaxDrawdownGenerator, mean::MeanDrawdownGenerator},
        summary::instrument::TearSheetGenerator,
        time::Daily,
    },
};
use barter_execution::trade::AssetFees;
use barter_instrument::{Side, asset::QuoteAsset, instrument::InstrumentIndex};
use chrono::{DateTime, TimeDelta, Utc};
use rust_decimal::Decimal;
use rust_decimal_macros::dec;
use std::collections::HashSet;

const L_DONE: &str = "C18.bounded.completed_drawdowns";
const L_CUR: &str = "C18.bounded.current_drawdown_mid_decline_not_disturbed";
const L_MAX: &str = "C18.bounded.max_drawdown";
const L_MEAN: &str = "C18.bounded.mean_drawdown";
const L_ROUTE: &str = "C18.bounded.summary_generator_feeds_each_asset_its_own_equity_curve";

/// OBSERVATION on the unchanged tree (strict clause only with VX_C18_KNOWN=1, see `tear_sheet_generate_repeatable`):
/// `TearSheetGenerator::generate` (and `TearSheetAssetGenerator::generate`) feed the IN-PROGRESS drawdown into the mean / max generators on
/// every call, so asking for a tear sheet twice during one decline counts that decline twice in the mean, and it is counted once more
/// when it completes: the mean drawdown of later tear sheets depends on how often a report was generated.
fn known() -> bool { true /* the defect was repaired by a fix: commit (see /verif/KNOWN_FINDINGS); the clause is checked unconditionally */ }

type Pt = (Decimal, DateTime<Utc>);
fn near(a: Decimal, b: Decimal) -> bool { (a - b).abs() <= dec!(0.000000000000000001) }
fn same(a: &Option<Drawdown>, b: &Option<Drawdown>) -> bool {
    match (a, b) { (None, None) => true, (Some(a), Some(b)) => near(a.value, b.value) && a.time_start == b.time_start && a.time_end == b.time_end, _ => false }
}
fn show(d: &Option<Drawdown>) -> String { match d { None => "None".into(), Some(d) => format!("{} [{} .. {}]", d.value, d.time_start.format("%m-%d %H:%M"), d.time_end.format("%m-%d %H:%M")) } }
fn show_curve(c: &[Pt]) -> String { c.iter().map(|(v, t)| format!("{v}@{}", t.format("%m-%d %H:%M"))).collect::<Vec<_>>().join(", ") }

/// peak-to-trough decomposition of the whole curve: (completed drawdowns, decline in progress, index of the latest record)
fn decompose(c: &[Pt]) -> (Vec<Drawdown>, Option<Drawdown>, usize) {
    let mut records = vec![0usize];
    for i in 1..c.len() { if c[i].0 > c[*records.last().unwrap()].0 { records.push(i); } }
    let decline = |from: usize, to: usize, t_end: DateTime<Utc>| -> Option<Drawdown> {
        let peak = c[from].0;
        let trough = c[from + 1..to].iter().map(|p| p.0).min()?;
        (trough < peak && peak > Decimal::ZERO).then(|| Drawdown { value: (peak - trough) / peak, time_start: c[from].1, time_end: t_end })
    };
    let completed = records.windows(2).filter_map(|w| decline(w[0], w[1], c[w[1]].1)).collect();
    let last = *records.last().unwrap();
    (completed, decline(last, c.len(), c[c.len() - 1].1), last)
}
/// (first of the largest, mean depth, mean duration in ms as a rational floor, count)
fn max_of(ds: &[Drawdown]) -> Option<Drawdown> {
    let mut best: Option<&Drawdown> = None;
    for d in ds { if best.is_none_or(|b| d.value.abs() > b.value.abs() && !near(d.value, b.value)) { best = Some(d); } }
    best.cloned()
}
fn mean_of(ds: &[Drawdown]) -> Option<(Decimal, i64)> {
    if ds.is_empty() { return None; }
    let n = ds.len() as i64;
    Some((ds.iter().map(|d| d.value).sum::<Decimal>() / Decimal::from(n), ds.iter().map(|d| d.duration().num_milliseconds()).sum::<i64>() / n))
}
type Fail = (&'static str, String, String);
fn check_max_mean(max: &MaxDrawdownGenerator, mean: &MeanDrawdownGenerator, ds: &[Drawdown], out: &mut Vec<Fail>) {
    let (m, e) = (max.generate().map(|m| m.0), max_of(ds));
    if !same(&m, &e) { out.push((L_MAX, format!("max drawdown {}", show(&m)), format!("largest (first of equals) of the completed drawdowns {:?} = {}", ds.iter().map(|d| d.value).collect::<Vec<_>>(), show(&e)))); }
    let e = mean_of(ds);
    let ok = match (mean.generate(), e) {
        (None, None) => mean.count == 0,
        (Some(r), Some((v, ms))) => mean.count == ds.len() as u64 && near(r.mean_drawdown, v) && (r.mean_drawdown_ms - ms).abs() <= ds.len() as i64,
        _ => false,
    };
    if !ok {
        out.push((L_MEAN, format!("count {} mean {:?}", mean.count, mean.generate().map(|m| (m.mean_drawdown, m.mean_drawdown_ms))),
            format!("count {} mean (depth, ms) {:?} of the completed drawdowns {:?}", ds.len(), e, ds.iter().map(|d| (d.value, d.duration().num_milliseconds())).collect::<Vec<_>>())));
    }
}

/// the real generators along one curve
#[derive(Clone)]
struct Real { asked: DrawdownGenerator, twin: DrawdownGenerator, max: MaxDrawdownGenerator, mean: MeanDrawdownGenerator, started: bool }
impl Real {
    fn new() -> Self { Real { asked: DrawdownGenerator::default(), twin: DrawdownGenerator::default(), max: Default::default(), mean: Default::default(), started: false } }
    /// feed the latest point of `curve` (the first one through `init` when `via_init`), ask for the current drawdown `asks` times
    fn point(&mut self, curve: &[Pt], via_init: bool, asks: usize) -> Vec<Fail> {
        let mut out: Vec<Fail> = vec![];
        let (v, t) = *curve.last().unwrap();
        let emitted = if !self.started && via_init {
            self.asked = DrawdownGenerator::init(Timed::new(v, t));
            self.twin = self.asked.clone();
            None
        } else {
            let e = self.asked.update(Timed::new(v, t));
            let e2 = self.twin.update(Timed::new(v, t));
            if e != e2 { out.push((L_CUR, format!("update returned {} after earlier generate() calls", show(&e)), format!("{} as returned by a generator that was never asked", show(&e2)))); }
            e
        };
        self.started = true;
        let (completed, current, last) = decompose(curve);
        let (before, _, _) = if curve.len() > 1 { decompose(&curve[..curve.len() - 1]) } else { (vec![], None, 0) };
        let expected = if completed.len() > before.len() { completed.last().cloned() } else { None };
        if !same(&emitted, &expected) {
            out.push((L_DONE, format!("update({v}) returned {}", show(&emitted)), format!("{} (completed so far: {:?})", show(&expected), completed.iter().map(|d| d.value).collect::<Vec<_>>())));
        }
        let g = &self.asked;
        if g.peak != Some(curve[last].0) || g.time_peak != Some(curve[last].1) || g.time_now != t || !near(g.drawdown_max, current.as_ref().map(|d| d.value).unwrap_or(Decimal::ZERO)) {
            out.push((L_DONE, format!("generator state peak {:?} since {:?}, deepest decline since {}, now {}", g.peak, g.time_peak, g.drawdown_max, g.time_now),
                format!("peak {} since {}, deepest decline since {}, now {t}", curve[last].0, curve[last].1, current.as_ref().map(|d| d.value).unwrap_or(Decimal::ZERO))));
        }
        if let Some(d) = &emitted { self.max.update(d); self.mean.update(d); }
        check_max_mean(&self.max, &self.mean, &completed, &mut out);
        for ask in 0..asks {
            let got = self.asked.generate();
            if !same(&got, &current) { out.push((L_CUR, format!("generate() call {} after this point returned {}", ask + 1, show(&got)), format!("decline in progress: {}", show(&current)))); break; }
            if self.asked != self.twin { out.push((L_CUR, format!("after generate(): {:?}", self.asked), format!("unchanged, like the generator that was never asked: {:?}", self.twin))); break; }
        }
        out
    }
}

struct Search { seen: HashSet<&'static str>, n: u64 }
impl Search {
    fn fails(&mut self, fails: &[Fail], what: impl Fn() -> String) {
        for (label, obs, exp) in fails { if self.seen.insert(*label) { report(label, what(), obs.clone(), exp.clone()); } }
    }
    /// all curves over `values` up to `depth`; `asks_choices`: how often generate() is called after each point (every choice at every point)
    fn dfs(&mut self, values: &[Decimal], asks_choices: &[usize], depth: usize, via_init: bool, real: &Real, curve: &mut Vec<Pt>, asks: &mut Vec<usize>) {
        if curve.len() == depth { return; }
        for v in values {
            for a in asks_choices {
                let mut r = real.clone();
                let t = time_of(curve.len());
                curve.push((*v, t));
                asks.push(*a);
                let fails = r.point(curve, via_init, *a);
                self.n += 1;
                self.fails(&fails, || format!("curve {} ; first point via {} ; generate() calls after each point: {asks:?}", show_curve(curve), if via_init { "init" } else { "update" }));
                if fails.is_empty() { self.dfs(values, asks_choices, depth, via_init, &r, curve, asks); }
                curve.pop();
                asks.pop();
            }
        }
    }
    fn curve(&mut self, c: &[Pt], asks: &[usize], via_init: bool) {
        let mut r = Real::new();
        for k in 0..c.len() {
            let fails = r.point(&c[..=k], via_init, asks[k]);
            self.n += 1;
            self.fails(&fails, || format!("curve {} ; first point via {} ; generate() calls after each point: {:?}", show_curve(&c[..=k]), if via_init { "init" } else { "update" }, &asks[..=k]));
            if !fails.is_empty() { return; }
        }
    }
    /// Max / Mean generators on their own, fed arbitrary drawdown lists
    fn max_mean_alone(&mut self, ds: &[Drawdown]) {
        let (mut max, mut mean) = (MaxDrawdownGenerator::default(), MeanDrawdownGenerator::default());
        for k in 0..ds.len() {
            if k == 0 && ds.len() % 2 == 0 { max = MaxDrawdownGenerator::init(ds[0].clone()); mean = MeanDrawdownGenerator::init(ds[0].clone()); } else { max.update(&ds[k]); mean.update(&ds[k]); }
            let mut out = vec![];
            check_max_mean(&max, &mean, &ds[..=k], &mut out);
            self.n += 1;
            self.fails(&out, || format!("drawdowns fed one by one: {:?}", ds[..=k].iter().map(|d| show(&Some(d.clone()))).collect::<Vec<_>>()));
            if !out.is_empty() { return; }
        }
    }
    /// the PnL curve of a TearSheetGenerator: one point per closed position = (cumulated realised PnL, the position's exit time)
    fn tear_sheet(&mut self, start: DateTime<Utc>, pos: &[(Decimal, DateTime<Utc>)]) {
        let mut g = TearSheetGenerator::init(start);
        let mut curve: Vec<Pt> = vec![];
        let mut cum = Decimal::ZERO;
        let what = |k: usize| format!("TearSheetGenerator::init({start}) ; closed positions (pnl_realised @ time_exit) in arrival order: {}", show_curve(&pos[..=k]));
        for (k, (pnl, t)) in pos.iter().enumerate() {
            g.update_from_position(&exited(*pnl, *t));
            cum += *pnl;
            curve.push((cum, *t));
            self.n += 1;
            let (completed, current, last) = decompose(&curve);
            let mut out: Vec<Fail> = vec![];
            let d = &g.pnl_drawdown;
            if d.peak != Some(curve[last].0) || d.time_peak != Some(curve[last].1) || d.time_now != *t || !near(d.drawdown_max, current.as_ref().map(|d| d.value).unwrap_or(Decimal::ZERO)) {
                out.push((L_DONE, format!("pnl_drawdown: peak {:?} since {:?}, deepest decline since {}, now {}", d.peak, d.time_peak, d.drawdown_max, d.time_now),
                    format!("PnL curve {}: peak {} since {}, deepest decline since {}, now {t}", show_curve(&curve), curve[last].0, curve[last].1, current.as_ref().map(|d| d.value).unwrap_or(Decimal::ZERO))));
            }
            check_max_mean(&g.pnl_drawdown_max, &g.pnl_drawdown_mean, &completed, &mut out);
            if out.is_empty() && k + 1 == pos.len() {
                // the in-progress decline as reported by the tear sheet
                let mut g2 = g.clone();
                let sheet = g2.generate(Decimal::ZERO, Daily);
                if !same(&sheet.pnl_drawdown, &current) { out.push((L_CUR, format!("tear sheet pnl_drawdown {}", show(&sheet.pnl_drawdown)), format!("PnL curve {}: decline in progress {}", show_curve(&curve), show(&current)))); }
                // "the maximum drawdown is the largest of the drawdowns REPORTED": the sheet reports the completed ones and the decline in progress
                let mut reported = completed.clone();
                if let Some(c) = &current { reported.push(c.clone()); }
                let (m, e) = (sheet.pnl_drawdown_max.clone().map(|m| m.0), max_of(&reported));
                if !same(&m, &e) { out.push((L_MAX, format!("tear sheet max drawdown {}", show(&m)), format!("largest (first of equals) of the completed drawdowns {:?} and the decline in progress {} = {}", completed.iter().map(|d| d.value).collect::<Vec<_>>(), show(&current), show(&e)))); }
                let ok = match (&sheet.pnl_drawdown_mean, mean_of(&reported)) {
                    (None, None) => true,
                    (Some(r), Some((v, ms))) => near(r.mean_drawdown, v) && (r.mean_drawdown_ms - ms).abs() <= reported.len() as i64,
                    _ => false,
                };
                if !ok { out.push((L_MEAN, format!("tear sheet mean drawdown {:?}", sheet.pnl_drawdown_mean.as_ref().map(|m| (m.mean_drawdown, m.mean_drawdown_ms))), format!("mean (depth, ms) {:?} of the completed drawdowns and the decline in progress", mean_of(&reported)))); }
                if known() { self.tear_sheet_generate_repeatable(&g, &completed, &current, &mut out); }
            }
            self.fails(&out, || what(k));
            if !out.is_empty() { return; }
        }
    }
    /// STRICT clause (VX_C18_KNOWN=1 only, fires on the unchanged tree): generating a tear sheet twice reports the same mean drawdown
    /// (completed ones, plus the decline in progress counted once)
    fn tear_sheet_generate_repeatable(&mut self, g: &TearSheetGenerator, completed: &[Drawdown], current: &Option<Drawdown>, out: &mut Vec<Fail>) {
        let mut g = g.clone();
        let first = g.generate(Decimal::ZERO, Daily).pnl_drawdown_mean;
        let second = g.generate(Decimal::ZERO, Daily).pnl_drawdown_mean;
        if first != second {
            out.push((L_MEAN, format!("two consecutive TearSheetGenerator::generate() calls: mean drawdown {:?} then {:?} (count {})", first, second, g.pnl_drawdown_mean.count),
                format!("the same both times: completed {:?} + decline in progress {} counted once", completed.iter().map(|d| d.value).collect::<Vec<_>>(), show(current))));
        }
    }
}

fn time_of(k: usize) -> DateTime<Utc> {
    // increasing, uneven gaps: 1, 2, 3, 1, 2, 3 .. days, plus 90 minutes per point
    let days: i64 = (0..k).map(|i| 1 + (i as i64 % 3)).sum();
    DateTime::<Utc>::from_timestamp(1_704_067_200, 0).unwrap() + TimeDelta::days(days) + TimeDelta::minutes(90 * k as i64)
}
fn exited(pnl: Decimal, t: DateTime<Utc>) -> PositionExited<QuoteAsset, InstrumentIndex> {
    PositionExited {
        instrument: InstrumentIndex(0), side: Side::Buy, price_entry_average: dec!(1000), quantity_abs_max: dec!(1), pnl_realised: pnl,
        fees_enter: AssetFees { asset: QuoteAsset, fees: dec!(0) }, fees_exit: AssetFees { asset: QuoteAsset, fees: dec!(0) },
        time_enter: t - TimeDelta::hours(1), time_exit: t, trades: vec![],
    }
}

/// 'per asset': the REAL TradingSummaryGenerator::init over asset tables in which any subset of the assets has a balance so far, then equity
/// points delivered by AssetIndex (as the engine does): the generator of exactly that asset - a twin of the statistics the table held for it,
/// fed the same points - takes them, every other asset's generator stays as the table held it, one generator per asset of the table.
fn summary_asset_routing(s: &mut Search) {
    use barter::{engine::state::{asset::generate_empty_indexed_asset_states, instrument::{InstrumentStates, data::DefaultInstrumentMarketData}}, statistic::summary::TradingSummaryGenerator};
    use barter_execution::balance::{AssetBalance, Balance};
    use barter_instrument::{Underlying, asset::AssetIndex, exchange::ExchangeId, index::IndexedInstruments, instrument::Instrument};
    use barter_integration::snapshot::Snapshot;
    let indexed = IndexedInstruments::new([
        Instrument::spot(ExchangeId::BinanceSpot, "binance_spot_btc_usdt", "BTCUSDT", Underlying::new("btc", "usdt"), None),
        Instrument::spot(ExchangeId::BinanceSpot, "binance_spot_eth_usdt", "ETHUSDT", Underlying::new("eth", "usdt"), None),
        Instrument::spot(ExchangeId::Kraken, "kraken_btc_usd", "XBTUSD", Underlying::new("btc", "usd"), None),
    ]);
    let n = indexed.assets().len();
    let bal = |v: i64| Balance { total: Decimal::from(v), free: Decimal::from(v) };
    for mask in 0u32..(1 << n) {
        let mut table = generate_empty_indexed_asset_states(&indexed);
        for i in 0..n {
            if mask & (1 << i) != 0 {
                let st = table.asset_index_mut(&AssetIndex(i));
                let first = AssetBalance { asset: AssetIndex(i), balance: bal(100 + i as i64), time_exchange: time_of(0) };
                st.statistics.update_from_balance(Snapshot(&first));
                st.balance = Some(Timed::new(first.balance, first.time_exchange));
            }
        }
        for k in 0..n {
            self::count(s);
            let points: Vec<(i64, DateTime<Utc>)> = [90i64, 60, 130, 110].iter().enumerate().map(|(j, v)| (*v + k as i64, time_of(1 + j))).collect();
            let what = || format!("TradingSummaryGenerator::init over {n} assets {:?}, assets with a balance at init: {:?}; then update_from_balance(AssetIndex({k})) with totals {:?}",
                table.0.keys().map(|a| format!("{}:{}", a.exchange, a.asset)).collect::<Vec<_>>(), (0..n).filter(|i| mask & (1 << i) != 0).collect::<Vec<_>>(), points.iter().map(|p| p.0).collect::<Vec<_>>());
            let run = std::panic::catch_unwind(std::panic::AssertUnwindSafe(|| {
                let mut g = TradingSummaryGenerator::init::<DefaultInstrumentMarketData>(Decimal::ZERO, time_of(0), time_of(0), &InstrumentStates(Default::default()), &table);
                for (v, t) in &points { g.update_from_balance(Snapshot(&AssetBalance { asset: AssetIndex(k), balance: bal(*v), time_exchange: *t })); }
                g
            }));
            let Ok(g) = run else { s.fails(&[(L_ROUTE, "panic".to_string(), "the equity points reach the generator of the asset they name".to_string())], what); continue; };
            let mut out: Vec<Fail> = vec![];
            if g.assets.len() != n { out.push((L_ROUTE, format!("{} asset generator(s)", g.assets.len()), format!("one per asset of the table ({n})"))); }
            for j in 0..n.min(g.assets.len()) {
                let (key, st) = table.0.get_index(j).unwrap();
                let mut want = st.statistics.clone();
                if j == k { for (v, t) in &points { want.update_from_balance(Snapshot(&AssetBalance { asset: AssetIndex(k), balance: bal(*v), time_exchange: *t })); } }
                let (gk, gv) = g.assets.get_index(j).unwrap();
                if gk != key || *gv != want {
                    out.push((L_ROUTE, format!("entry {j}: {}:{} balance_now {:?} peak {:?}", gk.exchange, gk.asset, gv.balance_now.map(|b| b.total), gv.drawdown.peak),
                        format!("entry {j}: {}:{} balance_now {:?} peak {:?}{}", key.exchange, key.asset, want.balance_now.map(|b| b.total), want.drawdown.peak, if j == k { " (the asset the points name)" } else { " (untouched)" })));
                    break;
                }
            }
            s.fails(&out, what);
        }
    }
}
fn count(s: &mut Search) { s.n += 1; }

pub fn run(seed: u64, thorough: bool) -> u64 {
    let mut s = Search { seen: HashSet::new(), n: 0 };
    { let hook = std::panic::take_hook(); std::panic::set_hook(Box::new(|_| {})); summary_asset_routing(&mut s); std::panic::set_hook(hook); }
    let curve = |vs: &[i64]| -> Vec<Pt> { vs.iter().enumerate().map(|(k, v)| (Decimal::from(*v), time_of(k))).collect() };
    // crafted: recovery exactly to the peak mid-decline (then deeper / shallower / above), flat at the peak, monotone, generate() mid-decline
    for vs in [&[100i64, 80, 100, 90, 120][..], &[100, 90, 100, 80, 120], &[100, 100, 100, 120], &[100, 80, 100, 100, 70, 100, 101], &[100, 110, 120, 130], &[100, 90, 80, 70],
               &[100, 50, 80, 60, 120, 90, 150], &[100, 50, 80, 60, 100, 120, 60, 120, 121], &[100, 0, 100, 101], &[100, -50, 150, 75, 200], &[100, 80, 120, 108, 130, 65, 140]] {
        let c = curve(vs);
        for via_init in [false, true] {
            for asks in [0usize, 1, 2, 3] { s.curve(&c, &vec![asks; c.len()], via_init); }
            for at in 0..c.len() { let mut a = vec![0; c.len()]; a[at] = 2; s.curve(&c, &a, via_init); }
        }
    }
    // exhaustive: all curves of up to 7 points over 5 values (never asked / asked twice after every point), and up to 5 (quick) / 6 points
    // with every choice of "generate() 0 or 2 times" after every point
    let values = [dec!(100), dec!(60), dec!(80), dec!(90), dec!(120)];
    for via_init in [false, true] {
        s.dfs(&values, &[0], 7, via_init, &Real::new(), &mut vec![], &mut vec![]);
        s.dfs(&values, &[2], if thorough { 7 } else { 6 }, via_init, &Real::new(), &mut vec![], &mut vec![]);
        s.dfs(&values, &[0, 2], if thorough { 6 } else { 5 }, via_init, &Real::new(), &mut vec![], &mut vec![]);
    }
    if thorough {
        // 7 values incl. a fall to zero and below
        let values = [dec!(100), dec!(0), dec!(-20), dec!(50), dec!(99.5), dec!(100.5), dec!(150)];
        s.dfs(&values, &[0, 1], 5, false, &Real::new(), &mut vec![], &mut vec![]);
    }
    let mut rng = Rng::seeded(seed, 0xC18);
    // seeded random longer curves (random walk on a grid so that exact returns to the peak happen), generate() asked at random points
    let rounds = if thorough { 150_000 } else { 10_000 };
    for _ in 0..rounds {
        let len = 8 + rng.below(20) as usize;
        let step = [dec!(5), dec!(2.5), dec!(10)][rng.below(3) as usize];
        let mut v = dec!(100);
        let (mut c, mut asks) = (vec![], vec![]);
        for k in 0..len {
            c.push((v, time_of(k)));
            asks.push(if rng.chance(1, 3) { 1 + rng.below(3) as usize } else { 0 });
            v += step * Decimal::from(rng.below(7) as i64 - 3);
        }
        s.curve(&c, &asks, rng.chance(1, 2));
    }
    // Max / Mean generators alone: arbitrary depth / duration lists incl. ties
    for _ in 0..(if thorough { 20_000 } else { 2_000 }) {
        let len = 1 + rng.below(7) as usize;
        let ds: Vec<Drawdown> = (0..len).map(|_| {
            let start = time_of(rng.below(10) as usize);
            Drawdown { value: Decimal::new(1 + rng.below(8) as i64, 1), time_start: start, time_end: start + TimeDelta::milliseconds(rng.below(500_000_000) as i64) }
        }).collect();
        s.max_mean_alone(&ds);
    }
    // PnL curves of a TearSheetGenerator: exits in time order with the engine start before / between / AFTER the exits (historical replay),
    // and exits delivered out of order; every point carries the exit time of its position
    let pnls = [dec!(100), dec!(-20), dec!(-30), dec!(50), dec!(60)];
    let starts = [time_of(0) - TimeDelta::days(1), time_of(2), time_of(40)];
    let mut orders: Vec<Vec<usize>> = vec![];
    let n_pos = if thorough { 5 } else { 4 };
    fn seqs(len: usize, k: usize, cur: &mut Vec<usize>, out: &mut Vec<Vec<usize>>) { if cur.len() == len { out.push(cur.clone()); return; } for i in 0..k { cur.push(i); seqs(len, k, cur, out); cur.pop(); } }
    seqs(n_pos - 1, pnls.len(), &mut vec![], &mut orders);
    for start in starts {
        for o in &orders {
            // first PnL positive (positive peaks), the rest every combination
            let mut pos = vec![(dec!(100), time_of(1))];
            for (k, i) in o.iter().enumerate() { pos.push((pnls[*i], time_of(2 + k))); }
            s.tear_sheet(start, &pos);
            // the same positions, two neighbouring exits delivered in the opposite order
            for swap in 1..pos.len() - 1 {
                let mut p = pos.clone();
                let (a, b) = (p[swap].1, p[swap + 1].1);
                p[swap].1 = b; p[swap + 1].1 = a;
                s.tear_sheet(start, &p);
            }
        }
    }
    s.n
}
