//! C01 engine-state level bounded check: "the engine's set of active orders evolves exactly as the documented lifecycle".
//!
//! c01.rs exercises `Orders` directly; this stand-in covers the ENGINE path that brings a request / report to `Orders`. It drives the
//! REAL `EngineState` (built by `eng::fresh_state` over the eng.rs layout: 3 exchanges / 6 instruments) - and, for every second random
//! history, the REAL `Engine` of the eng.rs rig through `Engine::process` - with
//!   * `record_in_flight_open(s)` / `record_in_flight_cancel(s)` (`InFlightRequestRecorder` of `EngineState`: "request sent"),
//!   * `update_from_account` with `AccountEventKind::OrderSnapshot` (OpenInFlight / Open with any filled quantity incl. nothing left to
//!     fill / CancelInFlight / Cancelled / FullyFilled / Expired / OpenFailed), `AccountEventKind::OrderCancelled` (Ok / Err) and FULL
//!     account snapshots `AccountEventKind::Snapshot` (balances + any mix of active AND inactive order reports for several instruments
//!     of the event's exchange, the same order possibly listed more than once),
//! with exchange timestamps from a tiny domain (newer, equal, older than what is held), duplicates, several concurrent client order ids
//! on several instruments (the same client order id on two instruments included). After EVERY event EVERY instrument's `orders` table
//! is compared with a reference model written from the statement (lifecycle model of c01.rs / eng.rs `Model::order_open`, it never
//! calls the code under test), per (instrument, client order id):
//!
//!   request for an open sent             -> tracked OpenInFlight (also when tracked before: the request replaces what was held)
//!   request for a cancel sent            -> tracked: CancelInFlight keeping the last exchange-confirmed open data (none when never
//!                                           confirmed); untracked: no change
//!   report Cancelled / FullyFilled / Expired / OpenFailed (streamed or inside a full account snapshot, whatever its timestamp)
//!                                        -> untracked
//!   report Open{t, filled} of quantity q -> stamped OLDER than the held exchange data: ignored (equal stamps: the report is applied -
//!                                           guards `held.time_exchange <= report.time_exchange`); else nothing left to fill
//!                                           (q - filled == 0, the REPORT's quantity): untracked; else tracked with the reported data,
//!                                           Open - or still CancelInFlight when a cancel is in flight (the report refreshes the data a
//!                                           failed cancel restores)
//!   report OpenInFlight                  -> untracked: tracked OpenInFlight; tracked: no change
//!   report CancelInFlight{data}          -> untracked / OpenInFlight: tracked CancelInFlight as reported; Open: CancelInFlight with the
//!                                           later-stamped of held and reported data (equal stamps: reported); CancelInFlight: no change
//!                                           (duplicate) - the cases pinned by the unit tests of the unchanged `Orders`
//!   cancel response Ok                   -> untracked
//!   cancel response Err                  -> CancelInFlight{confirmed open data}: Open with that data; CancelInFlight{none}: untracked
//!                                           (the open was never confirmed, eng.rs reference model); else no change
//!   full account snapshot                -> its order reports one by one, in the listed order, each by the rules above
//!
//! Labels
//!   C01.bounded.tracked_set_follows_the_lifecycle               streamed event / request: the addressed orders are tracked exactly as the model says
//!   C01.bounded.account_snapshot_reports_applied_item_by_item   the same for the orders named by a full account snapshot
//!   C01.bounded.exchange_time_never_moves_back                  an order tracked before and after an event that (by the model) neither ended nor
//!                                                               re-requested it keeps exchange data, stamped no older than before
//!   C01.bounded.reports_about_one_order_never_change_another    every order NOT named by the event is exactly (whole `Order`) as before
use crate::{
    eng::{self, Layout, Link, Rig, SetRisk, State, key, order_id_of, side_of, t, tenths},
    report,
    rng::Rng,
};
use barter::{
    EngineEvent,
    engine::{Processor, state::{order::in_flight_recorder::InFlightRequestRecorder, trading::TradingState}},
    execution::AccountStreamEvent,
};
use barter_execution::{
    AccountEvent, AccountEventKind, AccountSnapshot, InstrumentAccountSnapshot,
    balance::{AssetBalance, Balance},
    error::{ConnectivityError, OrderError},
    order::{
        Order, OrderEvent, OrderKind, TimeInForce,
        id::{ClientOrderId, OrderId},
        request::{OrderRequestCancel, OrderRequestOpen, RequestCancel, RequestOpen},
        state::{ActiveOrderState, CancelInFlight, Cancelled, InactiveOrderState, Open, OpenInFlight, OrderState},
    },
};
use barter_instrument::{asset::AssetIndex, exchange::ExchangeIndex, instrument::InstrumentIndex};
use barter_integration::snapshot::Snapshot;
use rust_decimal::Decimal;
use std::collections::{BTreeMap, BTreeSet, HashSet};

const L_SET: &str = "C01.bounded.tracked_set_follows_the_lifecycle";
const L_SNAP: &str = "C01.bounded.account_snapshot_reports_applied_item_by_item";
const L_TIME: &str = "C01.bounded.exchange_time_never_moves_back";
const L_FRAME: &str = "C01.bounded.reports_about_one_order_never_change_another";

/// quantity (tenths) of every open request; a report may carry another quantity
const QTY: i64 = eng::ORDER_QTY_TENTHS;

type Cid = &'static str;
type ROrder = Order<ExchangeIndex, InstrumentIndex, ActiveOrderState>;

// ------------------------------------------------------------------------------------------------- events
/// exchange-confirmed open data: exchange time, filled quantity (tenths)
#[derive(Clone, Copy, PartialEq, Eq)]
struct MOpen { ts: i64, filled: i64 }

/// what one order report says
#[derive(Clone, Copy, PartialEq, Eq)]
enum Rep {
    Oif,
    /// qty: the order quantity carried by the report (tenths)
    Open { ts: i64, filled: i64, qty: i64 },
    Cif(Option<MOpen>),
    Cancelled { ts: i64 },
    FullyFilled,
    Expired,
    Failed,
}

#[derive(Clone, PartialEq)]
enum Ev {
    /// one: `record_in_flight_open`, several: `record_in_flight_opens`
    ReqOpen(Vec<(usize, Cid)>),
    /// one: `record_in_flight_cancel`, several: `record_in_flight_cancels`; bool: the request carries the exchange's order id
    ReqCancel(Vec<(usize, Cid, bool)>),
    /// streamed `AccountEventKind::OrderSnapshot`
    Snap { i: usize, cid: Cid, rep: Rep },
    /// `AccountEventKind::OrderCancelled`
    Resp { i: usize, cid: Cid, ok: bool, ts: i64 },
    /// `AccountEventKind::Snapshot` of exchange x: balances (asset, time, total) + per listed instrument its order reports in order
    Full { x: usize, bals: Vec<(usize, i64, i64)>, insts: Vec<(usize, Vec<(Cid, Rep)>)> },
}

impl std::fmt::Debug for MOpen {
    fn fmt(&self, f: &mut std::fmt::Formatter<'_>) -> std::fmt::Result { write!(f, "t={} filled={}", self.ts, tenths(self.filled)) }
}
impl std::fmt::Debug for Rep {
    fn fmt(&self, f: &mut std::fmt::Formatter<'_>) -> std::fmt::Result {
        match self {
            Rep::Oif => write!(f, "OpenInFlight"),
            Rep::Open { ts, filled, qty } => write!(f, "Open(t={ts} filled={} of {})", tenths(*filled), tenths(*qty)),
            Rep::Cif(None) => write!(f, "CancelInFlight(no open data)"),
            Rep::Cif(Some(o)) => write!(f, "CancelInFlight({o:?})"),
            Rep::Cancelled { ts } => write!(f, "Cancelled(t={ts})"),
            Rep::FullyFilled => write!(f, "FullyFilled"),
            Rep::Expired => write!(f, "Expired"),
            Rep::Failed => write!(f, "OpenFailed"),
        }
    }
}
impl std::fmt::Debug for Ev {
    fn fmt(&self, f: &mut std::fmt::Formatter<'_>) -> std::fmt::Result {
        match self {
            Ev::ReqOpen(v) => { write!(f, "{}(", if v.len() == 1 { "record_in_flight_open" } else { "record_in_flight_opens" })?; for (k, (i, cid)) in v.iter().enumerate() { write!(f, "{}inst{i} {cid}", if k > 0 { ", " } else { "" })?; } write!(f, ")") }
            Ev::ReqCancel(v) => { write!(f, "{}(", if v.len() == 1 { "record_in_flight_cancel" } else { "record_in_flight_cancels" })?; for (k, (i, cid, _)) in v.iter().enumerate() { write!(f, "{}inst{i} {cid}", if k > 0 { ", " } else { "" })?; } write!(f, ")") }
            Ev::Snap { i, cid, rep } => write!(f, "OrderSnapshot(inst{i} {cid} {rep:?})"),
            Ev::Resp { i, cid, ok, ts } => write!(f, "OrderCancelled(inst{i} {cid} {})", if *ok { format!("Ok t={ts}") } else { "Err".into() }),
            Ev::Full { x, bals, insts } => {
                write!(f, "AccountSnapshot(ex{x} balances=[")?;
                for (a, ts, v) in bals { write!(f, "(asset{a} t={ts} total={v})")?; }
                write!(f, "] instruments=[")?;
                for (k, (i, ords)) in insts.iter().enumerate() {
                    write!(f, "{}inst{i}: [", if k > 0 { ", " } else { "" })?;
                    for (n, (cid, rep)) in ords.iter().enumerate() { write!(f, "{}{cid} {rep:?}", if n > 0 { ", " } else { "" })?; }
                    write!(f, "]")?;
                }
                write!(f, "])")
            }
        }
    }
}

// ------------------------------------------------------------------------------------------------- real inputs
fn tif() -> TimeInForce { TimeInForce::GoodUntilCancelled { post_only: false } }
fn real_open(cid: Cid, o: MOpen) -> Open { Open { id: OrderId::new(order_id_of(cid)), time_exchange: t(o.ts), filled_quantity: tenths(o.filled) } }
fn real_report(lay: &Layout, i: usize, cid: Cid, rep: &Rep) -> Order<ExchangeIndex, InstrumentIndex, OrderState> {
    let state: OrderState = match rep {
        Rep::Oif => OrderState::active(OpenInFlight),
        Rep::Open { ts, filled, .. } => OrderState::active(real_open(cid, MOpen { ts: *ts, filled: *filled })),
        Rep::Cif(o) => OrderState::active(CancelInFlight { order: o.map(|o| real_open(cid, o)) }),
        Rep::Cancelled { ts } => OrderState::Inactive(InactiveOrderState::Cancelled(Cancelled { id: OrderId::new(order_id_of(cid)), time_exchange: t(*ts) })),
        Rep::FullyFilled => OrderState::fully_filled(),
        Rep::Expired => OrderState::expired(),
        Rep::Failed => OrderState::Inactive(InactiveOrderState::OpenFailed(OrderError::Connectivity(ConnectivityError::Timeout))),
    };
    let qty = match rep { Rep::Open { qty, .. } => *qty, _ => QTY };
    Order { key: key(lay.inst_ex[i], i, cid), side: side_of(cid), price: Decimal::from(100), quantity: tenths(qty), kind: OrderKind::Limit, time_in_force: tif(), state }
}
fn real_req_open(lay: &Layout, i: usize, cid: Cid) -> OrderRequestOpen {
    OrderRequestOpen { key: key(lay.inst_ex[i], i, cid), state: RequestOpen { side: side_of(cid), price: Decimal::from(100), quantity: tenths(QTY), kind: OrderKind::Limit, time_in_force: tif() } }
}
fn real_req_cancel(lay: &Layout, i: usize, cid: Cid, with_id: bool) -> OrderRequestCancel {
    OrderRequestCancel { key: key(lay.inst_ex[i], i, cid), state: RequestCancel { id: with_id.then(|| OrderId::new(order_id_of(cid))) } }
}
fn account(x: usize, kind: AccountEventKind<ExchangeIndex, AssetIndex, InstrumentIndex>) -> AccountEvent { AccountEvent { exchange: ExchangeIndex(x), kind } }

/// the system under test: the engine state on its own (cloneable: exhaustive search) or inside the eng.rs engine rig
enum Sut { State(State), Engine(Box<Rig<SetRisk>>) }
impl Sut {
    fn state(&self) -> &State { match self { Sut::State(s) => s, Sut::Engine(r) => &r.engine.state } }
    fn state_mut(&mut self) -> &mut State { match self { Sut::State(s) => s, Sut::Engine(r) => &mut r.engine.state } }
    fn account(&mut self, ev: AccountEvent) {
        match self {
            Sut::State(s) => { let _ = s.update_from_account(&ev); }
            Sut::Engine(r) => { let _ = r.engine.process(EngineEvent::Account(AccountStreamEvent::Item(ev))); }
        }
    }
    fn name(&self) -> &'static str { match self { Sut::State(_) => "EngineState::update_from_account / record_in_flight_*", Sut::Engine(_) => "Engine::process (eng.rs rig, trading disabled) / engine.state.record_in_flight_*" } }
    fn deliver(&mut self, lay: &Layout, ev: &Ev) {
        match ev {
            Ev::ReqOpen(v) => {
                let reqs: Vec<OrderRequestOpen> = v.iter().map(|(i, cid)| real_req_open(lay, *i, cid)).collect();
                if reqs.len() == 1 { self.state_mut().record_in_flight_open(&reqs[0]); } else { self.state_mut().record_in_flight_opens(reqs.iter()); }
            }
            Ev::ReqCancel(v) => {
                let reqs: Vec<OrderRequestCancel> = v.iter().map(|(i, cid, id)| real_req_cancel(lay, *i, cid, *id)).collect();
                if reqs.len() == 1 { self.state_mut().record_in_flight_cancel(&reqs[0]); } else { self.state_mut().record_in_flight_cancels(reqs.iter()); }
            }
            Ev::Snap { i, cid, rep } => self.account(account(lay.inst_ex[*i], AccountEventKind::OrderSnapshot(Snapshot(real_report(lay, *i, cid, rep))))),
            Ev::Resp { i, cid, ok, ts } => {
                let state = if *ok { Ok(Cancelled { id: OrderId::new(order_id_of(cid)), time_exchange: t(*ts) }) } else { Err(OrderError::Connectivity(ConnectivityError::Timeout)) };
                self.account(account(lay.inst_ex[*i], AccountEventKind::OrderCancelled(OrderEvent { key: key(lay.inst_ex[*i], *i, cid), state })));
            }
            Ev::Full { x, bals, insts } => {
                let balances = bals.iter().map(|(a, ts, v)| AssetBalance { asset: AssetIndex(*a), balance: Balance::new(Decimal::from(*v), Decimal::from(*v)), time_exchange: t(*ts) }).collect();
                let instruments = insts.iter().map(|(i, ords)| InstrumentAccountSnapshot { instrument: InstrumentIndex(*i), orders: ords.iter().map(|(cid, rep)| real_report(lay, *i, cid, rep)).collect() }).collect();
                self.account(account(*x, AccountEventKind::Snapshot(AccountSnapshot { exchange: ExchangeIndex(*x), balances, instruments })));
            }
        }
    }
}

// ------------------------------------------------------------------------------------------------- reference model
#[derive(Clone, Copy, PartialEq, Eq, Debug)]
enum MSt { Oif, Open(MOpen), Cif(Option<MOpen>) }
impl MSt {
    fn held(&self) -> Option<MOpen> { match self { MSt::Oif => None, MSt::Open(o) => Some(*o), MSt::Cif(o) => *o } }
}

/// lifecycle rule for one order report (streamed or listed in a full account snapshot); returns the new tracking state and the clause
fn on_report(cur: Option<MSt>, rep: &Rep) -> (Option<MSt>, &'static str) {
    match rep {
        Rep::Cancelled { .. } | Rep::FullyFilled | Rep::Expired | Rep::Failed =>
            (None, "the exchange reports the order cancelled / fully filled / expired / failed: it is not tracked afterwards (whatever the report's timestamp)"),
        Rep::Open { ts, filled, qty } => {
            let new = MOpen { ts: *ts, filled: *filled };
            let nothing_left = qty - filled == 0;
            let stale = cur.and_then(|c| c.held()).is_some_and(|h| h.ts > *ts);
            match cur {
                Some(MSt::Open(_) | MSt::Cif(_)) if stale => (cur, "Open report stamped older than the held exchange data: ignored"),
                _ if nothing_left => (None, "'Open' report with nothing left to fill (reported quantity - filled == 0), not older than the held data: the order is not tracked afterwards"),
                None => (Some(MSt::Open(new)), "the exchange reports an untracked order open: tracked Open with the reported data"),
                Some(MSt::Oif) => (Some(MSt::Open(new)), "first Open report of an order in flight: tracked Open with the reported data"),
                Some(MSt::Open(_)) => (Some(MSt::Open(new)), "Open report not older than the held data (equal stamps apply): the reported data is held"),
                Some(MSt::Cif(_)) => (Some(MSt::Cif(Some(new))), "Open report while a cancel is in flight, not older than the held data: still CancelInFlight, holding the reported data"),
            }
        }
        Rep::Oif => match cur {
            None => (Some(MSt::Oif), "in-flight report of an untracked order: tracked OpenInFlight"),
            Some(_) => (cur, "in-flight report of a tracked order: no change"),
        },
        Rep::Cif(r) => match cur {
            None | Some(MSt::Oif) => (Some(MSt::Cif(*r)), "CancelInFlight report of an untracked / in-flight order: tracked CancelInFlight as reported"),
            Some(MSt::Open(h)) => (Some(MSt::Cif(Some(match r { Some(r) if h.ts <= r.ts => *r, _ => h }))), "CancelInFlight report of an Open order: CancelInFlight holding the later-stamped of held and reported open data"),
            Some(MSt::Cif(_)) => (cur, "duplicate CancelInFlight report: no change"),
        },
    }
}

/// one order named by an event
struct Touch {
    i: usize,
    cid: Cid,
    /// by the model the order was neither ended nor re-requested by this event
    continuous: bool,
    /// the clauses applied, in order
    why: Vec<&'static str>,
}

#[derive(Clone)]
struct Model { ord: Vec<BTreeMap<Cid, MSt>> }
impl Model {
    fn new(lay: &Layout) -> Self { Model { ord: vec![BTreeMap::new(); lay.n_inst] } }
    fn set(&mut self, out: &mut Vec<Touch>, i: usize, cid: Cid, new: Option<MSt>, reset: bool, why: &'static str) {
        match new { Some(s) => { self.ord[i].insert(cid, s); } None => { self.ord[i].remove(cid); } }
        let broke = reset || new.is_none();
        match out.iter_mut().find(|x| x.i == i && x.cid == cid) {
            Some(x) => { x.continuous &= !broke; x.why.push(why); }
            None => out.push(Touch { i, cid, continuous: !broke, why: vec![why] }),
        }
    }
    /// returns the orders the event names
    fn apply(&mut self, ev: &Ev) -> Vec<Touch> {
        let mut out = vec![];
        match ev {
            Ev::ReqOpen(v) => for (i, cid) in v { self.set(&mut out, *i, cid, Some(MSt::Oif), true, "a request to open the order was sent: tracked OpenInFlight"); },
            Ev::ReqCancel(v) => for (i, cid, _) in v {
                let cur = self.ord[*i].get(cid).copied();
                match cur {
                    Some(s) => self.set(&mut out, *i, cid, Some(MSt::Cif(s.held())), false, "a request to cancel the tracked order was sent: CancelInFlight keeping the last exchange-confirmed open data"),
                    None => self.set_untracked_noop(&mut out, *i, cid, "a cancel request for an untracked order: no change"),
                }
            },
            Ev::Snap { i, cid, rep } => { let (new, why) = on_report(self.ord[*i].get(cid).copied(), rep); self.set(&mut out, *i, cid, new, false, why); }
            Ev::Resp { i, cid, ok, .. } => {
                let cur = self.ord[*i].get(cid).copied();
                match (cur, ok) {
                    (None, _) => self.set_untracked_noop(&mut out, *i, cid, "cancel response for an untracked order: no change"),
                    (Some(_), true) => self.set(&mut out, *i, cid, None, false, "the exchange confirms the cancel: not tracked afterwards"),
                    (Some(MSt::Cif(Some(o))), false) => self.set(&mut out, *i, cid, Some(MSt::Open(o)), false, "the cancel failed: the last exchange-confirmed Open state is restored"),
                    (Some(MSt::Cif(None)), false) => self.set(&mut out, *i, cid, None, false, "the cancel failed and the open was never confirmed: not tracked afterwards"),
                    (Some(s), false) => self.set(&mut out, *i, cid, Some(s), false, "failed cancel response while no cancel is in flight: no change"),
                }
            }
            Ev::Full { insts, .. } => for (i, ords) in insts { for (cid, rep) in ords { let (new, why) = on_report(self.ord[*i].get(cid).copied(), rep); self.set(&mut out, *i, cid, new, false, why); } },
        }
        out
    }
    fn set_untracked_noop(&mut self, out: &mut Vec<Touch>, i: usize, cid: Cid, why: &'static str) {
        match out.iter_mut().find(|x| x.i == i && x.cid == cid) { Some(x) => x.why.push(why), None => out.push(Touch { i, cid, continuous: true, why: vec![why] }) }
    }
}

fn real_active(cid: Cid, s: &MSt) -> ActiveOrderState {
    match s {
        MSt::Oif => ActiveOrderState::OpenInFlight(OpenInFlight),
        MSt::Open(o) => ActiveOrderState::Open(real_open(cid, *o)),
        MSt::Cif(o) => ActiveOrderState::CancelInFlight(CancelInFlight { order: o.map(|o| real_open(cid, o)) }),
    }
}

// ------------------------------------------------------------------------------------------------- checking
struct Ctx<'a> { lay: &'a Layout, seen: &'a mut HashSet<&'static str>, cases: u64 }

fn rel(x: &chrono::DateTime<chrono::Utc>) -> i64 { x.timestamp() - 1_700_000_000 }
fn show_open(o: &Open) -> String { format!("t={} filled={}", rel(&o.time_exchange), o.filled_quantity) }
fn show(s: Option<&ActiveOrderState>) -> String {
    match s {
        None => "untracked".into(),
        Some(ActiveOrderState::OpenInFlight(_)) => "OpenInFlight".into(),
        Some(ActiveOrderState::Open(o)) => format!("Open({})", show_open(o)),
        Some(ActiveOrderState::CancelInFlight(c)) => format!("CancelInFlight({})", c.order.as_ref().map(show_open).unwrap_or("no open data".into())),
    }
}
/// exchange-confirmed open data held by a tracked order (own accessor: the comparison does not go through the code under test)
fn held_of(s: &ActiveOrderState) -> Option<&Open> {
    match s { ActiveOrderState::OpenInFlight(_) => None, ActiveOrderState::Open(o) => Some(o), ActiveOrderState::CancelInFlight(c) => c.order.as_ref() }
}
fn tables(state: &State, lay: &Layout) -> Vec<BTreeMap<String, ROrder>> {
    (0..lay.n_inst).map(|i| state.instruments.instrument_index(&InstrumentIndex(i)).orders.0.iter().map(|(c, o)| (c.0.to_string(), o.clone())).collect()).collect()
}
fn leak(s: &str, pool: &[Cid]) -> Cid { pool.iter().copied().find(|c| *c == s).unwrap_or_else(|| Box::leak(s.to_string().into_boxed_str())) }

/// compares every instrument's order table with the model after the last event of `trace`; `before`: the tables before it. true iff
/// everything agrees
fn check(cx: &mut Ctx, before: &[BTreeMap<String, ROrder>], state: &State, m: &Model, via: &str, touched: &[Touch], trace: &[Ev]) -> bool {
    let lay = cx.lay;
    let ev = &trace[trace.len() - 1];
    let after = tables(state, lay);
    let own = if matches!(ev, Ev::Full { .. }) { L_SNAP } else { L_SET };
    let mut fails: Vec<(&'static str, String, String)> = vec![];
    for i in 0..lay.n_inst {
        let mut cids: BTreeSet<Cid> = m.ord[i].keys().copied().collect();
        let known: Vec<Cid> = cids.iter().copied().chain(touched.iter().map(|x| x.cid)).collect();
        for c in before[i].keys().chain(after[i].keys()) { cids.insert(leak(c, &known)); }
        for x in touched.iter().filter(|x| x.i == i) { cids.insert(x.cid); }
        for cid in cids {
            let (b, a) = (before[i].get(cid), after[i].get(cid));
            let name = format!("order {cid} of inst{i}");
            let Some(touch) = touched.iter().find(|x| x.i == i && x.cid == cid) else {
                if b != a {
                    fails.push((L_FRAME, format!("{name}, not named by the event, changed: {} -> {}{}", show(b.map(|o| &o.state)), show(a.map(|o| &o.state)), if b.map(|o| &o.state) == a.map(|o| &o.state) { " (other order fields differ)" } else { "" }),
                        format!("unchanged: {}", show(b.map(|o| &o.state)))));
                }
                continue;
            };
            let exp = m.ord[i].get(cid).map(|s| real_active(cid, s));
            let got = a.map(|o| &o.state);
            if got != exp.as_ref() {
                fails.push((own, format!("{name} = {} (before the event: {})", show(got), show(b.map(|o| &o.state))), format!("{} - {}", show(exp.as_ref()), touch.why.join("; then ")))); }
            if let Some(o) = a {
                if o.key.cid != ClientOrderId::new(cid) || o.key.instrument != InstrumentIndex(i) {
                    fails.push((own, format!("{name} is stored with the key {:?}", o.key), "an order is tracked under its own client order id in its own instrument's table".into()));
                }
            }
            if let (true, Some(h0), Some(o1)) = (touch.continuous, b.and_then(|o| held_of(&o.state)), a) {
                let h1 = held_of(&o1.state);
                if !h1.is_some_and(|h1| h0.time_exchange <= h1.time_exchange) {
                    fails.push((L_TIME, format!("{name}: held exchange data {} -> {} (state {} -> {})", show_open(h0), h1.map(show_open).unwrap_or("none".into()), show(b.map(|o| &o.state)), show(got)),
                        format!("the event neither ends nor re-requests the order ({}): exchange data still held, stamped t >= {}", touch.why.join("; then "), rel(&h0.time_exchange))));
                }
            }
        }
    }
    let ok = fails.is_empty();
    for (label, obs, exp) in fails {
        if cx.seen.insert(label) {
            let k = trace.len();
            report(label, format!("via {via}; instruments {:?}; open requests of quantity {}; events in order: {trace:?}", (0..lay.n_inst).map(|i| format!("inst{i}@ex{}", lay.inst_ex[i])).collect::<Vec<_>>(), tenths(QTY)), format!("after event #{k} {ev:?}: {obs}"), exp);
        }
    }
    ok
}

/// every sequence (with repetition) of exactly `remaining` more events from `alphabet` (prefixes shared); the oracle is consulted after
/// the LAST event only - `explore` deepens the bound one by one, so every prefix was checked before and witnesses are as short as possible
fn dfs(cx: &mut Ctx, state: &State, m: &Model, alphabet: &[Ev], remaining: usize, trace: &mut Vec<Ev>) -> bool {
    let mut all_ok = true;
    for ev in alphabet {
        let (mut s2, mut m2) = (Sut::State(state.clone()), m.clone());
        trace.push(ev.clone());
        s2.deliver(cx.lay, ev);
        let touched = m2.apply(ev);
        if remaining == 1 {
            cx.cases += 1;
            all_ok &= check(cx, &tables(state, cx.lay), s2.state(), &m2, s2.name(), &touched, trace);
        } else {
            all_ok &= dfs(cx, s2.state(), &m2, alphabet, remaining - 1, trace);
        }
        trace.pop();
    }
    all_ok
}
fn explore(lay: &Layout, seen: &mut HashSet<&'static str>, alphabet: &[Ev], depth: usize) -> u64 {
    let state = eng::fresh_state(lay, TradingState::Disabled);
    let m = Model::new(lay);
    let mut cx = Ctx { lay, seen, cases: 0 };
    // a failing sequence ends the group (its extensions say nothing new)
    for bound in 1..=depth { if !dfs(&mut cx, &state, &m, alphabet, bound, &mut vec![]) { break; } }
    cx.cases
}

// ------------------------------------------------------------------------------------------------- alphabets
fn open(ts: i64, filled: i64) -> Rep { Rep::Open { ts, filled, qty: QTY } }
fn snap(i: usize, cid: Cid, rep: Rep) -> Ev { Ev::Snap { i, cid, rep } }
fn full(lay: &Layout, i: usize, ts: i64, insts: Vec<(usize, Vec<(Cid, Rep)>)>) -> Ev {
    let x = lay.inst_ex[i];
    Ev::Full { x, bals: lay.ex_assets[x].iter().map(|a| (*a, ts, 10 + ts)).collect(), insts }
}

/// i, j: two instruments of ONE exchange; k: an instrument of another exchange
fn alphabets(lay: &Layout, i: usize, j: usize, k: usize) -> Vec<Vec<Ev>> {
    vec![
        // streamed lifecycle of one order (+ a bystander of the same instrument): requests, Open reports (newer / fully filled), a
        // Cancelled report stamped older than every Open, FullyFilled, cancel responses
        vec![
            Ev::ReqOpen(vec![(i, "a")]), Ev::ReqCancel(vec![(i, "a", true)]),
            snap(i, "a", open(1, 0)), snap(i, "a", open(2, 5)), snap(i, "a", open(1, 10)), snap(i, "a", Rep::Cancelled { ts: 0 }), snap(i, "a", Rep::FullyFilled),
            Ev::Resp { i, cid: "a", ok: true, ts: 2 }, Ev::Resp { i, cid: "a", ok: false, ts: 2 },
            snap(i, "b", open(1, 0)),
        ],
        // the same reports delivered inside FULL account snapshots (with reports about other orders / instruments around them)
        vec![
            Ev::ReqOpen(vec![(i, "a")]), Ev::ReqCancel(vec![(i, "a", false)]), snap(i, "a", open(2, 5)),
            full(lay, i, 1, vec![(i, vec![("a", open(1, 0))])]),
            full(lay, i, 2, vec![(i, vec![("a", Rep::Cancelled { ts: 1 })]), (j, vec![("c", open(1, 0))])]),
            full(lay, i, 0, vec![(i, vec![("a", Rep::FullyFilled), ("b", open(2, 0))])]),
            full(lay, i, 3, vec![(j, vec![]), (i, vec![("b", open(0, 5)), ("a", Rep::Expired)])]),
            full(lay, i, 1, vec![(i, vec![("a", Rep::Failed)]), (j, vec![("a", open(0, 5))])]),
            full(lay, i, 2, vec![(i, vec![("a", open(3, 10))])]),
            Ev::Resp { i, cid: "a", ok: false, ts: 1 },
        ],
        // ties, stale reports, reported quantity different from the requested one (nothing left to fill is about the REPORT)
        vec![
            Ev::ReqOpen(vec![(i, "a")]), Ev::ReqCancel(vec![(i, "a", true)]),
            snap(i, "a", open(2, 0)), snap(i, "a", open(2, 5)), snap(i, "a", open(2, 10)), snap(i, "a", open(1, 5)), snap(i, "a", open(1, 10)),
            snap(i, "a", Rep::Open { ts: 3, filled: 10, qty: 15 }), snap(i, "a", Rep::Open { ts: 1, filled: 5, qty: 5 }),
            Ev::Resp { i, cid: "a", ok: false, ts: 0 }, snap(i, "a", Rep::Cancelled { ts: 1 }),
        ],
        // in-flight reports; an order listed twice in one account snapshot (order of the items matters)
        vec![
            snap(i, "a", Rep::Oif), snap(i, "a", Rep::Cif(None)), snap(i, "a", Rep::Cif(Some(MOpen { ts: 2, filled: 5 }))), snap(i, "a", open(1, 0)), snap(i, "a", open(3, 5)),
            Ev::ReqOpen(vec![(i, "a")]), Ev::Resp { i, cid: "a", ok: false, ts: 0 },
            full(lay, i, 1, vec![(i, vec![("a", Rep::Cif(Some(MOpen { ts: 1, filled: 0 }))), ("b", Rep::Oif)])]),
            full(lay, i, 2, vec![(i, vec![("a", Rep::Cancelled { ts: 3 }), ("a", open(2, 5))])]),
            full(lay, i, 2, vec![(i, vec![("a", open(2, 0)), ("a", Rep::Expired)]), (i, vec![("b", Rep::FullyFilled)])]),
        ],
        // the same client order id on instruments of two exchanges and on two instruments of one exchange; batched requests
        vec![
            Ev::ReqOpen(vec![(i, "a"), (k, "a")]), Ev::ReqOpen(vec![(j, "a")]), Ev::ReqCancel(vec![(k, "a", true), (i, "a", false)]),
            snap(i, "a", open(1, 5)), snap(k, "a", open(2, 0)), snap(j, "a", open(0, 10)),
            full(lay, i, 1, vec![(i, vec![("a", Rep::Cancelled { ts: 1 })])]),
            full(lay, k, 1, vec![(k, vec![("a", Rep::Expired)])]),
            full(lay, i, 2, vec![(j, vec![("a", Rep::FullyFilled)]), (i, vec![("a", open(2, 0))])]),
            Ev::Resp { i: k, cid: "a", ok: true, ts: 1 }, Ev::Resp { i, cid: "a", ok: false, ts: 1 },
        ],
    ]
}

// ------------------------------------------------------------------------------------------------- random histories
const POOL: [Cid; 4] = ["a", "b", "c", "d"];
#[derive(Default)]
struct Stats { events: [u64; 5], reports: [u64; 7], full_items: u64, full_inactive_tracked: u64, stale_open: u64, tie_open: u64, untracked_by_report: u64 }

struct Gen { targets: Vec<(usize, Cid)>, tdom: u64, with_full: bool }
impl Gen {
    fn time(&self, rng: &mut Rng) -> i64 { rng.below(self.tdom) as i64 }
    fn rep(&self, rng: &mut Rng) -> Rep {
        match rng.below(20) {
            0..=9 => {
                let filled = [0, 0, 3, 5, 10][rng.below(5) as usize];
                let qty = if rng.chance(1, 8) { [5, 15][rng.below(2) as usize] } else { QTY };
                Rep::Open { ts: self.time(rng), filled: filled.min(qty), qty }
            }
            10 => Rep::Oif,
            11 => Rep::Cif(if rng.chance(1, 2) { None } else { Some(MOpen { ts: self.time(rng), filled: [0, 5][rng.below(2) as usize] }) }),
            12..=14 => Rep::Cancelled { ts: self.time(rng) },
            15..=16 => Rep::FullyFilled,
            17..=18 => Rep::Expired,
            _ => Rep::Failed,
        }
    }
    fn target(&self, rng: &mut Rng, lay: &Layout) -> (usize, Cid) {
        if rng.chance(1, 12) { return (rng.below(lay.n_inst as u64) as usize, POOL[rng.below(4) as usize]); }
        self.targets[rng.below(self.targets.len() as u64) as usize]
    }
    fn event(&self, rng: &mut Rng, lay: &Layout) -> Ev {
        loop {
            return match rng.below(20) {
                0..=1 => Ev::ReqOpen(vec![self.target(rng, lay)]),
                2 => Ev::ReqOpen((0..2 + rng.below(2)).map(|_| self.target(rng, lay)).collect()),
                3..=4 => { let (i, cid) = self.target(rng, lay); Ev::ReqCancel(vec![(i, cid, rng.chance(1, 2))]) }
                5 => Ev::ReqCancel((0..2 + rng.below(2)).map(|_| { let (i, cid) = self.target(rng, lay); (i, cid, rng.chance(1, 2)) }).collect()),
                6..=11 => { let (i, cid) = self.target(rng, lay); Ev::Snap { i, cid, rep: self.rep(rng) } }
                12..=14 => { let (i, cid) = self.target(rng, lay); Ev::Resp { i, cid, ok: rng.chance(1, 2), ts: self.time(rng) } }
                _ if self.with_full => {
                    let x = if rng.chance(1, 8) { rng.below(eng::N_EX as u64) as usize } else { lay.inst_ex[self.target(rng, lay).0] };
                    let mut bals = vec![];
                    for a in &lay.ex_assets[x] { if rng.chance(2, 3) { bals.push((*a, self.time(rng), 5 + rng.below(20) as i64)); } }
                    let mut listed: Vec<usize> = lay.ex_insts[x].iter().copied().filter(|_| rng.chance(3, 4)).collect();
                    if !listed.is_empty() && rng.chance(1, 8) { let again = listed[rng.below(listed.len() as u64) as usize]; listed.push(again); }
                    if rng.chance(1, 2) { listed.reverse(); }
                    let insts = listed.into_iter().map(|i| {
                        let here: Vec<Cid> = self.targets.iter().filter(|(ti, _)| *ti == i).map(|(_, c)| *c).collect();
                        let n = [0, 1, 1, 2, 2, 3][rng.below(6) as usize];
                        (i, (0..n).map(|_| (if here.is_empty() || rng.chance(1, 6) { POOL[rng.below(4) as usize] } else { here[rng.below(here.len() as u64) as usize] }, self.rep(rng))).collect())
                    }).collect();
                    Ev::Full { x, bals, insts }
                }
                _ => continue,
            };
        }
    }
}

fn note(stats: &mut Stats, m: &Model, ev: &Ev) {
    let mut one = |i: usize, cid: Cid, rep: &Rep, in_full: bool| {
        let cur = m.ord[i].get(cid);
        stats.reports[match rep { Rep::Oif => 0, Rep::Open { .. } => 1, Rep::Cif(_) => 2, Rep::Cancelled { .. } => 3, Rep::FullyFilled => 4, Rep::Expired => 5, Rep::Failed => 6 }] += 1;
        if in_full { stats.full_items += 1; }
        if cur.is_some() && on_report(cur.copied(), rep).0.is_none() { stats.untracked_by_report += 1; if in_full && !matches!(rep, Rep::Open { .. }) { stats.full_inactive_tracked += 1; } }
        if let (Some(h), Rep::Open { ts, .. }) = (cur.and_then(|c| c.held()), rep) { if h.ts > *ts { stats.stale_open += 1; } else if h.ts == *ts { stats.tie_open += 1; } }
    };
    match ev {
        Ev::ReqOpen(_) => stats.events[0] += 1,
        Ev::ReqCancel(_) => stats.events[1] += 1,
        Ev::Snap { i, cid, rep } => { stats.events[2] += 1; one(*i, cid, rep, false); }
        Ev::Resp { .. } => stats.events[3] += 1,
        // (statistics only: a listed order's state is looked up before the snapshot, not before its own item)
        Ev::Full { insts, .. } => { stats.events[4] += 1; for (i, ords) in insts { for (cid, rep) in ords { one(*i, cid, rep, true); } } }
    }
}

pub fn run(seed: u64, thorough: bool) -> u64 {
    let lay = eng::layout();
    let mut seen: HashSet<&'static str> = HashSet::new();
    let mut n = 0u64;
    assert!(lay.ex_insts.len() >= 3 && lay.ex_insts[0].len() >= 2 && lay.ex_insts[2].len() >= 2, "layout");

    // --- exhaustive: every sequence with repetition up to the bound, per alphabet, on two placements (exchange 0 + 2, exchange 2 + 1)
    let depth = if thorough { 6 } else { 5 };
    for (i, j, k) in [(lay.ex_insts[0][0], lay.ex_insts[0][1], lay.ex_insts[2][0]), (lay.ex_insts[2][2], lay.ex_insts[2][0], lay.ex_insts[1][0])] {
        for alphabet in alphabets(&lay, i, j, k) {
            n += explore(&lay, &mut seen, &alphabet, if alphabet.len() > 10 { depth - 1 } else { depth });
        }
    }

    // --- seeded random: 2..5 (instrument, client order id) targets on >= 1 exchanges, tiny time domain (ties and stale reports are
    //     frequent); every third history has no full account snapshots (streamed reports only); alternately on the bare engine state and
    //     through Engine::process
    let mut rng = Rng::seeded(seed, 101);
    let mut stats = Stats::default();
    for h in 0..if thorough { 600_000 } else { 40_000 } {
        let mut targets: Vec<(usize, Cid)> = vec![];
        let home = rng.below(eng::N_EX as u64) as usize;
        for _ in 0..2 + rng.below(4) {
            let i = if rng.chance(2, 3) { let v = &lay.ex_insts[home]; v[rng.below(v.len() as u64) as usize] } else { rng.below(lay.n_inst as u64) as usize };
            let tg = (i, POOL[rng.below(3) as usize]);
            if !targets.contains(&tg) { targets.push(tg); }
        }
        let g = Gen { targets, tdom: 2 + rng.below(5), with_full: h % 3 != 0 };
        let mut sut = if h % 2 == 0 { Sut::State(eng::fresh_state(&lay, TradingState::Disabled)) } else { Sut::Engine(Box::new(eng::build(&lay, [Link::Healthy; eng::N_EX], TradingState::Disabled, SetRisk::default()))) };
        let mut m = Model::new(&lay);
        let mut cx = Ctx { lay: &lay, seen: &mut seen, cases: 0 };
        let mut trace: Vec<Ev> = vec![];
        let span = if rng.chance(1, 4) { 40 } else { 14 };
        for _ in 0..4 + rng.below(span) {
            let ev = g.event(&mut rng, &lay);
            note(&mut stats, &m, &ev);
            let before = tables(sut.state(), &lay);
            trace.push(ev.clone());
            sut.deliver(&lay, &ev);
            let touched = m.apply(&ev);
            cx.cases += 1;
            if !check(&mut cx, &before, sut.state(), &m, sut.name(), &touched, &trace) { break; }
        }
        n += cx.cases;
    }
    if std::env::var("VX_C01E_STATS").is_ok() {
        eprintln!("random events [req open, req cancel, order snapshot, cancel response, account snapshot] = {:?}", stats.events);
        eprintln!("random reports [OpenInFlight, Open, CancelInFlight, Cancelled, FullyFilled, Expired, OpenFailed] = {:?}; listed in account snapshots: {}", stats.reports, stats.full_items);
        eprintln!("reports ending a tracked order: {} (inactive report inside an account snapshot: {}); Open reports older than held: {}, equal stamp: {}", stats.untracked_by_report, stats.full_inactive_tracked, stats.stale_open, stats.tie_open);
    }
    n
}
