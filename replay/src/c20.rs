//! C20 BOUNDED stand-in (never counted as proved): "a backtest feeds every event of its market dataset to its engine exactly
//! once and in dataset order before shutting the engine down, and the summary it returns is computed from that engine alone;
//! running many backtests concurrently over the same shared data and configuration gives each one the same fills, final
//! positions, balances and realised PnL that it produces when run alone (timing-independent strategies)".
//!
//! The REAL `backtest` / `run_backtests` (ExecutionBuilder + MockExchange + SystemBuild + async engine run loop +
//! `shutdown_after_backtest` + TradingSummaryGenerator) are run on real tokio runtimes (multi-thread and current-thread) with
//! * a recording `GlobalData`: every `EngineState` clone (= one per backtest) gets its own log of everything its engine
//!   processes (market events, account events) - the only window into the engines, `backtest` returns just the summary;
//! * the strategy `EveryK`: on every k-th market event (counted by the engine's own log, so independent of how account events
//!   interleave) one market order, alternately buy / sell per instrument, priced at the event's price. Its decisions depend on
//!   the market data alone. It also logs the disconnect notifications and which backtest owns the engine;
//! * market data either from the real `MarketDataInMemory`, or from `PacedData` (own `BacktestMarketData`): the same events,
//!   but event i is released only after the engine has digested event i-1 AND the execution answers to everything it ordered,
//!   and the stream ends only after the last answers were digested. With paced data the outcome of a backtest is a function of
//!   (dataset, k) alone, so "concurrent == alone" is checked strictly on fills / positions / balances / realised PnL.
//!
//!   or from `SlowData` (own `BacktestMarketData`) on a current-thread runtime whose clock is PAUSED (virtual time): the stream
//!   sleeps a virtual 2-7 s before every event (far more than any grace period a shutdown could grant), everything else of the
//!   backtest runs at virtual time "now", so the outcome is again a function of (dataset, k) alone and nothing depends on the
//!   wall clock: every event must still reach the engine before the Shutdown.
//! The datasets carry market-stream reconnect notices of BOTH exchanges - before the first item, several in a row in the middle,
//! after the last item - and every one of them is a dataset event like the items: fed exactly once, in place.
//!
//! `earlier_do_not_affect_later` (label `C20.bounded.earlier_backtests_do_not_affect_later_ones`, runs FIRST): backtests / batches over four
//! DIFFERENT instrument universes on the SAME mocked exchange id, paced data, one after the other in every order and side by side, all in
//! this one process: each one's orders / fills / final positions / summary are what its own dataset + configuration + k determine.
//!
//! With the unpaced in-memory data the engine-side fills are a race by construction of the unchanged tree (see `known()`):
//! there the always-on clauses are the event clauses, the decisions (orders issued), "fills seen are a PREFIX of the fills of
//! (dataset, k)" and "summary = function of the own engine's history"; the strict comparison runs only with VX_C20_KNOWN=1.
use crate::{rng::Rng, report};
use barter::{
    backtest::{
        BacktestArgsConstant, BacktestArgsDynamic, backtest,
        market_data::{BacktestMarketData, MarketDataInMemory},
        run_backtests,
        summary::BacktestSummary,
    },
    engine::{
        Engine, Processor,
        clock::HistoricalClock,
        execution_tx::MultiExchangeTxMap,
        state::{
            EngineState,
            instrument::{data::DefaultInstrumentMarketData, filter::InstrumentFilter},
            trading::TradingState,
        },
    },
    EngineEvent,
    error::BarterError,
    risk::DefaultRiskManager,
    statistic::time::Daily,
    strategy::{algo::AlgoStrategy, close_positions::ClosePositionsStrategy, on_disconnect::OnDisconnectStrategy, on_trading_disabled::OnTradingDisabled},
    system::{
        builder::{AuditMode, EngineFeedMode, SystemArgs, SystemBuilder},
        config::ExecutionConfig,
    },
};
use barter_data::{
    error::DataError,
    event::{DataKind, MarketEvent},
    streams::{consumer::{MarketStreamEvent, MarketStreamResult}, reconnect::stream::ReconnectingStream},
    subscription::trade::PublicTrade,
};
use barter_execution::{
    AccountEvent, AccountEventKind, UnindexedAccountSnapshot,
    balance::{AssetBalance, Balance},
    client::mock::MockExecutionConfig,
    order::{
        OrderKey, OrderKind, TimeInForce,
        id::{ClientOrderId, StrategyId},
        request::{OrderRequestCancel, OrderRequestOpen, RequestOpen},
        state::{InactiveOrderState, OrderState},
    },
};
use barter_instrument::{
    Side, Underlying,
    asset::{Asset, AssetIndex, name::AssetNameExchange},
    exchange::{ExchangeId, ExchangeIndex},
    index::IndexedInstruments,
    instrument::{Instrument, InstrumentIndex},
};
use chrono::{DateTime, Utc};
use futures::Stream;
use rust_decimal::Decimal;
use smol_str::SmolStr;
use std::{
    collections::{BTreeMap, HashMap, HashSet, VecDeque},
    panic::{AssertUnwindSafe, catch_unwind},
    sync::{Arc, Mutex, atomic::{AtomicUsize, Ordering}},
    time::{Duration, Instant},
};
use tokio::sync::Notify;

const L_ORDER: &str = "C20.bounded.every_event_once_in_order";
const L_SKIP: &str = "C20.bounded.nothing_skipped_before_shutdown";
const L_CONC: &str = "C20.bounded.concurrent_equals_alone";
const L_OWN: &str = "C20.bounded.summary_from_own_engine";
const L_FULL: &str = "C20.bounded.summary_only_from_a_fully_consumed_dataset";
const L_ERRREC: &str = "C20.bounded.error_record_does_not_end_the_feed";

/// KNOWN FINDING on the unchanged tree (strict clause only with VX_C20_KNOWN=1): with `MarketDataInMemory` the fills a backtest's
/// engine gets to see - hence final positions, balances and realised PnL in its summary - are NOT a function of (data,
/// configuration, strategy): `shutdown_after_backtest` sends Shutdown as soon as the market stream has been FORWARDED into the
/// engine's unbounded feed; the MockExchange's answers travel through the same feed and everything behind the Shutdown is dropped.
/// On a current-thread runtime the whole dataset is forwarded before the engine runs at all, so no fill is ever seen (PnL 0, balances
/// = initial snapshot); on a multi-thread runtime the number of fills seen varies from run to run, alone and concurrently alike.
static STRICT_PROBE: std::sync::atomic::AtomicBool = std::sync::atomic::AtomicBool::new(false);
fn known() -> bool { std::env::var("VX_C20_KNOWN").is_ok() || STRICT_PROBE.load(std::sync::atomic::Ordering::SeqCst) }

type State = EngineState<Recorder, DefaultInstrumentMarketData>;
type Risk = DefaultRiskManager<State>;
type Ev = MarketStreamEvent<InstrumentIndex, DataKind>;
/// a record of a RECORDED market stream (the on-disk format of the historic-data example): items, recoverable errors, reconnect notices
type RecEv = MarketStreamResult<InstrumentIndex, DataKind>;
type Eng = Engine<HistoricalClock, State, MultiExchangeTxMap, EveryK, Risk>;

fn t(s: i64) -> DateTime<Utc> { DateTime::<Utc>::from_timestamp(1_700_000_000 + s, 0).unwrap() }
fn lock<T>(m: &Mutex<T>) -> std::sync::MutexGuard<'_, T> { m.lock().unwrap_or_else(|e| e.into_inner()) }

// ------------------------------------------------------------------------------------------------- engine-side recording
#[derive(Debug, Clone, PartialEq)]
enum Rec {
    Market(usize),
    Disconnect(ExchangeId),
    Order(String),
    /// (asset, total, exchange time)
    Snapshot(Vec<(usize, Decimal, DateTime<Utc>)>),
    Balance(usize, Decimal, DateTime<Utc>),
    Response { cid: String, ok: bool },
    Trade { inst: usize, buy: bool, px: Decimal, qty: Decimal, fee: Decimal },
    Other(String),
}

#[derive(Debug, Clone, Default)]
struct Inner {
    owner: Option<String>,
    owner_conflict: Option<String>,
    log: Vec<Rec>,
    /// (dataset idx, instrument, price) of the market items processed, in processing order
    markets: Vec<(usize, usize, u32)>,
    disconnects: usize,
    /// number of stream events (items + reconnects) after which the strategy has been consulted
    algo_seen: usize,
    orders: usize,
    resp_ok: usize,
    resp_err: usize,
    trades: usize,
    /// (exchange index, trade id) of the fills seen, in order
    trade_ids: Vec<(usize, String)>,
    balances: usize,
    snapshots: usize,
    stalled: bool,
    /// the reason the exchange gave for the first order it refused
    first_reject: Option<String>,
    /// signed position per instrument (index order) as the engine state showed it to the strategy at its most recent consultation
    positions: Vec<Decimal>,
}
#[derive(Debug, Default)]
struct Ctx { inner: Mutex<Inner>, notify: Notify }
#[derive(Debug, Default)]
struct Registry { ctxs: Mutex<Vec<Arc<Ctx>>>, pending: Mutex<VecDeque<Arc<Ctx>>> }
impl Registry {
    /// a paced stream was created: the engine state cloned next (same backtest, no await point in between) reports into this log
    fn new_pending(&self) -> Arc<Ctx> { let c = Arc::new(Ctx::default()); lock(&self.ctxs).push(c.clone()); lock(&self.pending).push_back(c.clone()); c }
    fn attach(&self, parent: &Ctx) -> Arc<Ctx> {
        if let Some(c) = lock(&self.pending).pop_front() { return c; }
        let c = Arc::new(Ctx { inner: Mutex::new(lock(&parent.inner).clone()), notify: Notify::new() });
        lock(&self.ctxs).push(c.clone());
        c
    }
}

/// GlobalData of the engine state; cloning it (= cloning the engine state for one backtest) opens a new log
#[derive(Debug, Default)]
struct Recorder { reg: Arc<Registry>, ctx: Arc<Ctx> }
impl Clone for Recorder { fn clone(&self) -> Self { Recorder { reg: self.reg.clone(), ctx: self.reg.attach(&self.ctx) } } }

impl Processor<&MarketEvent<InstrumentIndex, DataKind>> for Recorder {
    type Audit = ();
    fn process(&mut self, ev: &MarketEvent<InstrumentIndex, DataKind>) {
        let mut g = lock(&self.ctx.inner);
        match &ev.kind {
            DataKind::Trade(tr) => { let idx = tr.id.parse().unwrap_or(usize::MAX); g.log.push(Rec::Market(idx)); g.markets.push((idx, ev.instrument.index(), tr.price as u32)); }
            other => g.log.push(Rec::Other(format!("{other:?}"))),
        }
        drop(g);
        self.ctx.notify.notify_one();
    }
}
impl Processor<&AccountEvent> for Recorder {
    type Audit = ();
    fn process(&mut self, ev: &AccountEvent) {
        let mut g = lock(&self.ctx.inner);
        match &ev.kind {
            AccountEventKind::Snapshot(s) => { g.snapshots += 1; let v = s.balances.iter().map(|b| (b.asset.index(), b.balance.total, b.time_exchange)).collect(); g.log.push(Rec::Snapshot(v)); }
            AccountEventKind::BalanceSnapshot(b) => { g.balances += 1; g.log.push(Rec::Balance(b.0.asset.index(), b.0.balance.total, b.0.time_exchange)); }
            AccountEventKind::OrderSnapshot(o) => {
                let ok = !matches!(o.0.state, OrderState::Inactive(InactiveOrderState::OpenFailed(_)));
                if ok { g.resp_ok += 1 } else { g.resp_err += 1 }
                if let (OrderState::Inactive(InactiveOrderState::OpenFailed(e)), None) = (&o.0.state, &g.first_reject) { g.first_reject = Some(format!("{e:?}")); }
                g.log.push(Rec::Response { cid: o.0.key.cid.0.to_string(), ok });
            }
            AccountEventKind::Trade(tr) => { g.trades += 1; g.trade_ids.push((ev.exchange.index(), tr.id.0.to_string())); g.log.push(Rec::Trade { inst: tr.instrument.index(), buy: tr.side == Side::Buy, px: tr.price, qty: tr.quantity, fee: tr.fees.fees }); }
            other => g.log.push(Rec::Other(format!("{other:?}"))),
        }
        drop(g);
        self.ctx.notify.notify_one();
    }
}

// ------------------------------------------------------------------------------------------------- strategy
#[derive(Debug, Default)]
struct StratSt { examined: usize, per_inst: Vec<usize> }
#[derive(Debug, Clone)]
struct EveryK { id: StrategyId, tag: String, k: usize, tradable: usize, st: Arc<Mutex<StratSt>> }
impl EveryK {
    fn new(tag: &str, k: usize) -> Self { EveryK { id: StrategyId::new("every-k"), tag: tag.to_string(), k, tradable: TRADABLE, st: Arc::new(Mutex::new(StratSt::default())) } }
    /// trade the instruments 0..n of the engine's universe
    fn trading(mut self, n: usize) -> Self { self.tradable = n; self }
}

fn qty() -> Decimal { Decimal::new(5, 1) }
const TRADABLE: usize = 2; // instruments 0 and 1 (the exchange with a mock execution link)

/// the decision rule, shared by the strategy and the reference: does the j-th market item (0-based, in processing order) trigger an order?
/// (for a strategy that trades the instruments 0..tradable of its universe; TRADABLE in the main fixture)
fn triggers_n(k: usize, j: usize, inst: usize, tradable: usize) -> bool { (j + 1) % k == 0 && inst < tradable }

impl AlgoStrategy for EveryK {
    type State = State;
    fn generate_algo_orders(&self, state: &State) -> (impl IntoIterator<Item = OrderRequestCancel<ExchangeIndex, InstrumentIndex>>, impl IntoIterator<Item = OrderRequestOpen<ExchangeIndex, InstrumentIndex>>) {
        let ctx = &state.global.ctx;
        let mut g = lock(&ctx.inner);
        match &g.owner { None => g.owner = Some(self.tag.clone()), Some(o) if *o != self.tag => g.owner_conflict = Some(format!("{o} and {}", self.tag)), _ => {} }
        let mut st = lock(&self.st);
        let mut opens = vec![];
        while st.examined < g.markets.len() {
            let j = st.examined;
            let (idx, inst, px) = g.markets[j];
            st.examined += 1;
            if !triggers_n(self.k, j, inst, self.tradable) { continue; }
            if st.per_inst.len() <= inst { st.per_inst.resize(inst + 1, 0); }
            let side = if st.per_inst[inst] % 2 == 0 { Side::Buy } else { Side::Sell };
            st.per_inst[inst] += 1;
            let cid = format!("{}-e{idx}", self.tag);
            let exchange = state.instruments.instrument_index(&InstrumentIndex(inst)).instrument.exchange;
            opens.push(OrderRequestOpen { key: OrderKey { exchange, instrument: InstrumentIndex(inst), strategy: self.id.clone(), cid: ClientOrderId::new(&cid) }, state: RequestOpen { side, price: Decimal::from(px), quantity: qty(), kind: OrderKind::Market, time_in_force: TimeInForce::ImmediateOrCancel } });
            g.orders += 1;
            g.log.push(Rec::Order(cid));
        }
        g.algo_seen = g.markets.len() + g.disconnects;
        g.positions = state.instruments.instruments(&InstrumentFilter::None).map(|s| s.position.current.as_ref().map(|p| if p.side == Side::Buy { p.quantity_abs } else { -p.quantity_abs }).unwrap_or_default()).collect();
        drop(g);
        ctx.notify.notify_one();
        (Vec::<OrderRequestCancel<ExchangeIndex, InstrumentIndex>>::new(), opens)
    }
}
impl ClosePositionsStrategy for EveryK {
    type State = State;
    fn close_positions_requests<'a>(&'a self, _: &'a State, _: &'a InstrumentFilter) -> (impl IntoIterator<Item = OrderRequestCancel<ExchangeIndex, InstrumentIndex>> + 'a, impl IntoIterator<Item = OrderRequestOpen<ExchangeIndex, InstrumentIndex>> + 'a)
    where ExchangeIndex: 'a, AssetIndex: 'a, InstrumentIndex: 'a {
        (std::iter::empty(), std::iter::empty())
    }
}
impl OnDisconnectStrategy<HistoricalClock, State, MultiExchangeTxMap, Risk> for EveryK {
    type OnDisconnect = ();
    fn on_disconnect(engine: &mut Eng, exchange: ExchangeId) {
        let mut g = lock(&engine.state.global.ctx.inner);
        g.disconnects += 1;
        g.log.push(Rec::Disconnect(exchange));
    }
}
impl OnTradingDisabled<HistoricalClock, State, MultiExchangeTxMap, Risk> for EveryK {
    type OnTradingDisabled = ();
    fn on_trading_disabled(_: &mut Eng) {}
}

// ------------------------------------------------------------------------------------------------- paced market data
#[derive(Debug, Clone)]
struct PacedData { events: Arc<Vec<Ev>>, reg: Arc<Registry>, n_exec: usize }

/// wait until the engine behind `ctx` has digested the first `i` stream events and every execution answer it is owed
async fn quiesce(ctx: &Ctx, i: usize, n_exec: usize) {
    let deadline = tokio::time::Instant::now() + Duration::from_secs(4);
    loop {
        {
            let g = lock(&ctx.inner);
            if g.stalled || (g.snapshots >= n_exec && g.algo_seen == i && g.orders == g.resp_ok + g.resp_err && g.trades == g.resp_ok && g.balances == g.resp_ok) { return; }
        }
        if tokio::time::timeout_at(deadline, ctx.notify.notified()).await.is_err() { lock(&ctx.inner).stalled = true; return; }
    }
}

impl BacktestMarketData for PacedData {
    type Kind = DataKind;
    async fn time_first_event(&self) -> Result<DateTime<Utc>, BarterError> { Ok(t(0)) }
    async fn stream(&self) -> Result<impl Stream<Item = Ev> + Send + 'static, BarterError> {
        let ctx = self.reg.new_pending();
        let (events, n_exec) = (self.events.clone(), self.n_exec);
        Ok(futures::stream::unfold(0usize, move |i| {
            let (ctx, events) = (ctx.clone(), events.clone());
            async move {
                quiesce(&ctx, i, n_exec).await;
                if i < events.len() { Some((events[i].clone(), i + 1)) } else { None }
            }
        }))
    }
}

// ------------------------------------------------------------------------------------------------- slow market data (virtual time)
/// the same events, each released only after a virtual 2-7 s (the stream also takes that long to end after the last event).
/// Every stream handed out (= every backtest) has its own rhythm, so concurrent backtests are fed at different virtual instants.
#[derive(Debug, Clone)]
struct SlowData { events: Arc<Vec<Ev>>, salt: usize, streams: Arc<AtomicUsize> }
/// virtual milliseconds the `s`-th stream of a `SlowData` waits before its event `i` (i == len: before ending)
fn slow_delay_ms(salt: usize, s: usize, i: usize) -> u64 { 2_000 + ((i * 5 + s * 3 + salt) % 6) as u64 * 1_000 }
impl BacktestMarketData for SlowData {
    type Kind = DataKind;
    async fn time_first_event(&self) -> Result<DateTime<Utc>, BarterError> { Ok(t(0)) }
    async fn stream(&self) -> Result<impl Stream<Item = Ev> + Send + 'static, BarterError> {
        let (events, salt, s) = (self.events.clone(), self.salt, self.streams.fetch_add(1, Ordering::SeqCst));
        Ok(futures::stream::unfold(0usize, move |i| {
            let events = events.clone();
            async move {
                tokio::time::sleep(Duration::from_millis(slow_delay_ms(salt, s, i))).await;
                if i < events.len() { Some((events[i].clone(), i + 1)) } else { None }
            }
        }))
    }
}

// ------------------------------------------------------------------------------------------------- corrupt market data
/// a lazily decoded (file-backed) dataset with one corrupt record: the stream yields the records in order and PANICS when it reaches
/// record `at` (as a `serde_json::from_str(line).unwrap()` of a user provided stream would). `stepwise`: the stream yields to the
/// scheduler before every record (so the engine digests what was forwarded so far), otherwise it is ready at once like `stream::iter`.
/// `only`: just the stream handed out `only`-th (= of the `only`-th backtest of a batch) hits the corrupt record.
#[derive(Debug, Clone)]
struct CorruptData { events: Arc<Vec<Ev>>, at: Option<usize>, stepwise: bool, only: Option<usize>, streams: Arc<AtomicUsize> }
impl BacktestMarketData for CorruptData {
    type Kind = DataKind;
    async fn time_first_event(&self) -> Result<DateTime<Utc>, BarterError> { Ok(t(0)) }
    async fn stream(&self) -> Result<impl Stream<Item = Ev> + Send + 'static, BarterError> {
        let s = self.streams.fetch_add(1, Ordering::SeqCst);
        let at = if self.only.is_none_or(|o| o == s) { self.at } else { None };
        let (events, stepwise) = (self.events.clone(), self.stepwise);
        Ok(futures::stream::unfold(0usize, move |i| {
            let events = events.clone();
            async move {
                if stepwise { tokio::task::yield_now().await; }
                if i >= events.len() { return None; }
                if Some(i) == at { panic!("record {i} of the market dataset cannot be decoded"); }
                Some((events[i].clone(), i + 1))
            }
        }))
    }
}

// ------------------------------------------------------------------------------------------------- recorded market data
/// how many recoverable error records stand in front of record i (slot i < len) and behind the last record (slot len)
fn error_slots(len: usize, layout: usize, reconnect_at: &[usize]) -> Vec<usize> {
    let mut v = vec![0usize; len + 1];
    match layout % 8 {
        1 => v[0] = 1,                                             // the very first record of the recording is an error
        2 => v[len] = 1,                                           // the very last one
        3 => v[len / 2] = 1,                                       // one in the middle
        4 => { v[0] += 1; v[len / 2] += 1; v[len] += 1; }          // first, middle and last
        5 => { v[len / 2] += 2; for r in reconnect_at { v[*r] += 1; v[*r + 1] += 1; } } // two in a row; around every reconnect notice
        6 => for (i, x) in v.iter_mut().enumerate() { if i % 3 == 2 { *x = 1; } },
        7 => for x in v.iter_mut() { *x = 1; },                    // between any two records, in front and behind
        _ => {}
    }
    v
}
fn layout_name(layout: usize) -> &'static str {
    match layout % 8 { 1 => "one error record in front of the first record", 2 => "one error record behind the last record", 3 => "one error record in front of record len/2", 4 => "error records in front of the first record, in front of record len/2 and behind the last record",
        5 => "two error records in a row in front of record len/2, one directly in front of and one directly behind every reconnect notice", 6 => "an error record in front of every record i with i%3==2", 7 => "an error record in front of every record and behind the last one", _ => "no error record" }
}

/// the dataset as a live market stream would have been RECORDED (`Vec<MarketStreamResult>`): every item `Event::Item(Ok(..))`, the
/// reconnect notices as they are, plus recoverable error records `Event::Item(Err(DataError::Socket(..)))` (not market events)
fn recorded(evs: &[Ev], layout: usize) -> Vec<RecEv> {
    let reconnect_at: Vec<usize> = evs.iter().enumerate().filter(|(_, e)| matches!(e, MarketStreamEvent::Reconnecting(_))).map(|(i, _)| i).collect();
    let slots = error_slots(evs.len(), layout, &reconnect_at);
    let (mut out, mut n_err) = (vec![], 0usize);
    for i in 0..=evs.len() {
        for _ in 0..slots[i] { out.push(MarketStreamResult::Item(Err(DataError::Socket(format!("recorded error {n_err}: failed to deserialise exchange message"))))); n_err += 1; }
        if let Some(e) = evs.get(i) { out.push(match e { MarketStreamEvent::Item(m) => MarketStreamResult::Item(Ok(m.clone())), MarketStreamEvent::Reconnecting(ex) => MarketStreamResult::Reconnecting(*ex) }); }
    }
    // through the on-disk format of the historic-data example and back
    match serde_json::to_string(&out).ok().and_then(|json| serde_json::from_str::<Vec<RecEv>>(&json).ok()) {
        Some(back) if back == out => back,
        _ => { eprintln!("note: recorded dataset did not survive the JSON round trip, using it as built"); out }
    }
}
fn rec_short(recs: &[RecEv]) -> String {
    let s: Vec<String> = recs.iter().map(|r| match r { MarketStreamResult::Item(Ok(m)) => match &m.kind { DataKind::Trade(tr) => tr.id.clone(), _ => "?".into() }, MarketStreamResult::Item(Err(_)) => "E".into(), MarketStreamResult::Reconnecting(ex) => if *ex == K { "K".into() } else { "B".into() } }).collect();
    if s.len() > 60 { format!("[{} .. {}] ({} records)", s[..30].join(","), s[s.len() - 15..].join(","), s.len()) } else { format!("[{}]", s.join(",")) }
}

/// the pipeline of the historic-data example: `stream::iter(recorded).with_error_handler(log)` - the REAL `with_error_handler`
fn recorded_stream(records: Arc<Vec<RecEv>>, handled: Arc<AtomicUsize>) -> impl Stream<Item = Ev> + Send + 'static {
    futures::stream::iter((0..records.len()).map(move |i| records[i].clone())).with_error_handler(move |_error: DataError| { handled.fetch_add(1, Ordering::SeqCst); })
}

#[derive(Debug, Clone)]
struct RecordedData { records: Arc<Vec<RecEv>>, handled: Arc<AtomicUsize> }
impl RecordedData { fn new(evs: &[Ev], layout: usize) -> Self { RecordedData { records: Arc::new(recorded(evs, layout)), handled: Arc::new(AtomicUsize::new(0)) } } }
impl BacktestMarketData for RecordedData {
    type Kind = DataKind;
    async fn time_first_event(&self) -> Result<DateTime<Utc>, BarterError> { Ok(t(0)) }
    async fn stream(&self) -> Result<impl Stream<Item = Ev> + Send + 'static, BarterError> { Ok(recorded_stream(self.records.clone(), self.handled.clone())) }
}

// ------------------------------------------------------------------------------------------------- fixtures
struct Fixture { instruments: IndexedInstruments, executions: Vec<ExecutionConfig>, asset_names: Vec<String>, /// the strategies trade the instruments 0..tradable
    tradable: usize }
const INIT_QUOTE: i64 = 1_000_000;
const INIT_BASE: i64 = 10_000;
fn fee_rate() -> Decimal { Decimal::new(1, 3) }

fn fixture() -> Fixture {
    let spot = |ex: ExchangeId, base: &str, quote: &str| Instrument::spot(ex, format!("{}-{base}_{quote}", ex.as_str()), format!("{}{}", base.to_uppercase(), quote.to_uppercase()), Underlying::new(Asset::from(base), Asset::from(quote)), None);
    // definition order differs from the index order
    let instruments = IndexedInstruments::new(vec![spot(ExchangeId::Kraken, "btc", "usd"), spot(ExchangeId::BinanceSpot, "eth", "usdt"), spot(ExchangeId::BinanceSpot, "btc", "usdt")]);
    assert!(instruments.instruments().iter().take(TRADABLE).all(|i| i.value.exchange.value == ExchangeId::BinanceSpot) && instruments.instruments()[2].value.exchange.value == ExchangeId::Kraken);
    let bal = |a: &str, v: i64| AssetBalance { asset: AssetNameExchange::from(a), balance: Balance::new(Decimal::from(v), Decimal::from(v)), time_exchange: t(-3600) };
    let executions = vec![ExecutionConfig::Mock(MockExecutionConfig {
        mocked_exchange: ExchangeId::BinanceSpot,
        initial_state: UnindexedAccountSnapshot { exchange: ExchangeId::BinanceSpot, balances: vec![bal("usdt", INIT_QUOTE), bal("btc", INIT_BASE), bal("eth", INIT_BASE)], instruments: vec![] },
        latency_ms: 0,
        fees_percent: fee_rate(),
    })];
    let asset_names = instruments.assets().iter().map(|a| format!("{}:{}", a.value.exchange.as_str(), a.value.asset.name_internal)).collect();
    Fixture { instruments, executions, asset_names, tradable: TRADABLE }
}

#[derive(Debug, Clone, Copy, PartialEq)]
enum Exp { M(usize), D(ExchangeId) }

const K: ExchangeId = ExchangeId::Kraken;
const B: ExchangeId = ExchangeId::BinanceSpot;
/// reconnect notices (before the first item, before item n/2, after the last item) of dataset variant `variant`
fn reconnect_layout(variant: usize) -> (&'static [ExchangeId], &'static [ExchangeId], &'static [ExchangeId]) {
    match variant % 6 { 1 => (&[K], &[], &[]), 2 => (&[B, K, B], &[], &[]), 3 => (&[], &[], &[K]), 4 => (&[], &[K, B, K], &[]), 5 => (&[K, K], &[B, B], &[B, K]), _ => (&[], &[], &[]) }
}

/// n market items (idx 0..n) over the three instruments, with market-stream reconnect notices of both exchanges (the market-data-only
/// one and the one with the mock execution link) in between, in front of the first item and behind the last one
fn dataset(n: usize, variant: usize) -> (Vec<Ev>, Vec<Exp>) {
    let (mut evs, mut exp) = (vec![], vec![]);
    let (lead, mid, tail) = reconnect_layout(variant);
    let notices = |evs: &mut Vec<Ev>, exp: &mut Vec<Exp>, which: &[ExchangeId]| for ex in which { evs.push(MarketStreamEvent::Reconnecting(*ex)); exp.push(Exp::D(*ex)); };
    notices(&mut evs, &mut exp, lead);
    for i in 0..n {
        if n >= 2 && i == n / 2 { notices(&mut evs, &mut exp, mid); }
        if i % 17 == 11 || (variant % 2 == 1 && i == 1) { notices(&mut evs, &mut exp, &[K]); }
        let inst = [0usize, 1, 0, 2, 1, 0, 0, 2, 1][(i + variant) % 9];
        let px = 100 + ((i * 7 + variant * 3) % 13) as u32;
        evs.push(MarketStreamEvent::Item(MarketEvent { time_exchange: t(i as i64), time_received: t(i as i64), exchange: if inst < TRADABLE { ExchangeId::BinanceSpot } else { ExchangeId::Kraken }, instrument: InstrumentIndex(inst),
            kind: DataKind::Trade(PublicTrade { id: i.to_string(), price: px as f64, amount: 1.0, side: Side::Buy }) }));
        exp.push(Exp::M(i));
    }
    notices(&mut evs, &mut exp, tail);
    (evs, exp)
}

#[derive(Debug, Clone, PartialEq)]
struct Fill { inst: usize, buy: bool, px: Decimal, qty: Decimal, fee: Decimal }

/// reference: orders (cid) and fills of (dataset, k) when everything ordered is filled (balances are ample)
fn reference(evs: &[Ev], tag: &str, k: usize) -> (Vec<String>, Vec<Fill>) { reference_n(evs, tag, k, TRADABLE) }
/// the same for a strategy that trades the instruments 0..tradable
fn reference_n(evs: &[Ev], tag: &str, k: usize, tradable: usize) -> (Vec<String>, Vec<Fill>) {
    let (mut cids, mut fills, mut per_inst, mut j) = (vec![], vec![], vec![0usize; tradable], 0usize);
    for e in evs {
        let MarketStreamEvent::Item(m) = e else { continue; };
        let DataKind::Trade(tr) = &m.kind else { continue; };
        let inst = m.instrument.index();
        if triggers_n(k, j, inst, tradable) {
            let buy = per_inst[inst] % 2 == 0;
            per_inst[inst] += 1;
            let px = Decimal::from(tr.price as u32);
            cids.push(format!("{tag}-e{}", tr.id));
            fills.push(Fill { inst, buy, px, qty: qty(), fee: if buy { px * qty() * fee_rate() } else { qty() * fee_rate() * px } });
        }
        j += 1;
    }
    (cids, fills)
}

/// realised PnL per instrument of a fill sequence = sum over CLOSED positions of (closed quantity x price difference) minus the
/// fees of the fills that built and closed them (a fill that flips a position splits its fee pro rata)
fn pnl_of(fills: &[Fill]) -> BTreeMap<usize, Decimal> {
    struct Pos { long: bool, qty: Decimal, avg: Decimal, realised: Decimal }
    let mut open: BTreeMap<usize, Pos> = BTreeMap::new();
    let mut pnl: BTreeMap<usize, Decimal> = BTreeMap::new();
    for f in fills {
        match open.remove(&f.inst) {
            None => { open.insert(f.inst, Pos { long: f.buy, qty: f.qty, avg: f.px, realised: -f.fee }); }
            Some(mut p) if p.long == f.buy => { p.avg = (p.avg * p.qty + f.px * f.qty) / (p.qty + f.qty); p.qty += f.qty; p.realised -= f.fee; open.insert(f.inst, p); }
            Some(mut p) => {
                let closed = p.qty.min(f.qty);
                let fee_exit = if f.qty > p.qty { f.fee * (p.qty / f.qty) } else { f.fee };
                p.realised += if p.long { closed * f.px - closed * p.avg } else { closed * p.avg - closed * f.px } - fee_exit;
                p.qty -= closed;
                if p.qty.is_zero() {
                    *pnl.entry(f.inst).or_default() += p.realised;
                    let rest = f.qty - closed;
                    if !rest.is_zero() { open.insert(f.inst, Pos { long: f.buy, qty: rest, avg: f.px, realised: -(f.fee * (rest / f.qty)) }); }
                } else { open.insert(f.inst, p); }
            }
        }
    }
    pnl
}
fn position_of(fills: &[Fill]) -> BTreeMap<usize, Decimal> {
    let mut p: BTreeMap<usize, Decimal> = BTreeMap::new();
    for f in fills { *p.entry(f.inst).or_default() += if f.buy { f.qty } else { -f.qty }; }
    p.retain(|_, v| !v.is_zero());
    p
}

#[derive(Debug, Clone, PartialEq)]
struct Sum { id: String, pnl: Vec<(String, Decimal)>, bal: Vec<(String, Option<Decimal>)> }
fn digest(s: &BacktestSummary<Daily>) -> Sum {
    Sum { id: s.id.to_string(), pnl: s.trading_summary.instruments.iter().map(|(k, v)| (k.to_string(), v.pnl)).collect(), bal: s.trading_summary.assets.iter().map(|(k, v)| (format!("{}:{}", k.exchange.as_str(), k.asset), v.balance_end.map(|b| b.total))).collect() }
}

#[derive(Debug, Clone)]
struct Obs { tag: String, k: usize, inner: Option<Inner>, sum: Option<Sum> }
impl Obs {
    fn fills(&self) -> Vec<Fill> { self.inner.iter().flat_map(|i| i.log.iter()).filter_map(|r| match r { Rec::Trade { inst, buy, px, qty, fee } => Some(Fill { inst: *inst, buy: *buy, px: *px, qty: *qty, fee: *fee }), _ => None }).collect() }
    fn orders(&self) -> Vec<String> { self.inner.iter().flat_map(|i| i.log.iter()).filter_map(|r| match r { Rec::Order(c) => Some(c.clone()), _ => None }).collect() }
    /// the most recent balance (by exchange time; a later report of the same time wins) of every asset the own engine was told about
    fn balances(&self, n_assets: usize) -> Vec<Option<Decimal>> {
        let mut v: Vec<Option<(Decimal, DateTime<Utc>)>> = vec![None; n_assets];
        let mut put = |a: usize, b: Decimal, at: DateTime<Utc>| if a < n_assets && v[a].is_none_or(|(_, cur)| cur <= at) { v[a] = Some((b, at)); };
        for r in self.inner.iter().flat_map(|i| i.log.iter()) { match r { Rec::Snapshot(s) => for (a, b, at) in s { put(*a, *b, *at); }, Rec::Balance(a, b, at) => put(*a, *b, *at), _ => {} } }
        v.into_iter().map(|x| x.map(|(b, _)| b)).collect()
    }
    /// account history with the wall-clock dependent times replaced by their rank
    fn account_history(&self) -> String {
        let recs: Vec<&Rec> = self.inner.iter().flat_map(|i| i.log.iter()).filter(|r| matches!(r, Rec::Snapshot(_) | Rec::Balance(..) | Rec::Trade { .. })).collect();
        let mut times: Vec<DateTime<Utc>> = recs.iter().flat_map(|r| match r { Rec::Snapshot(s) => s.iter().map(|x| x.2).collect::<Vec<_>>(), Rec::Balance(_, _, at) => vec![*at], _ => vec![] }).collect();
        times.sort(); times.dedup();
        let rank = |at: &DateTime<Utc>| times.binary_search(at).unwrap();
        recs.iter().map(|r| match r { Rec::Snapshot(s) => format!("S{:?}", s.iter().map(|(a, b, at)| (*a, *b, rank(at))).collect::<Vec<_>>()), Rec::Balance(a, b, at) => format!("B({a},{b},{})", rank(at)), other => format!("{other:?}") }).collect::<Vec<_>>().join(";")
    }
}

#[derive(Clone, Copy, Debug, PartialEq)]
enum Feed {
    InMemory, Paced, Slow { salt: usize },
    /// `CorruptData`: the stream panics when it reaches record `at` (of the stream handed out `only`-th, or of every stream)
    Corrupt { at: Option<usize>, stepwise: bool, only: Option<usize> },
    /// `RecordedData`: the dataset in the recorded format with recoverable error records (`error_slots(len, layout)`)
    Recorded { layout: usize },
}
impl Feed {
    /// feeds with which the fills a backtest's engine sees are a function of (dataset, k) alone
    fn deterministic(self) -> bool { matches!(self, Feed::Paced | Feed::Slow { .. }) }
    /// how long (on the clock of the runtime: virtual seconds for the slow feed) a batch may take
    fn limit_s(self) -> u64 { if matches!(self, Feed::Slow { .. }) { 3_600 } else { 20 } }
}

struct Batch { obs: Vec<Obs>, stray: Vec<Inner>, error: Option<String> }

/// run the backtests (tag, k) over the dataset: one `backtest` call when alone, `run_backtests` otherwise
fn run_batch(rt: &tokio::runtime::Runtime, on_worker: bool, fx: &Fixture, evs: &Arc<Vec<Ev>>, feed: Feed, jobs: &[(String, usize)], concurrent: bool) -> Batch {
    let reg = Arc::new(Registry::default());
    let template = Recorder { reg: reg.clone(), ctx: Arc::new(Ctx::default()) };
    let engine_state: State = EngineState::builder(&fx.instruments, template, DefaultInstrumentMarketData::default).time_engine_start(t(0)).trading_state(TradingState::Enabled).build();
    let dynamic: Vec<BacktestArgsDynamic<EveryK, Risk>> = jobs.iter().map(|(tag, k)| BacktestArgsDynamic { id: SmolStr::new(tag), risk_free_return: Decimal::new(5, 2), strategy: EveryK::new(tag, *k).trading(fx.tradable), risk: Risk::default() }).collect();
    macro_rules! go { ($md:expr) => {{
        let args = Arc::new(BacktestArgsConstant { instruments: fx.instruments.clone(), executions: fx.executions.clone(), market_data: $md, summary_interval: Daily, engine_state });
        let fut = async move {
            if concurrent { run_backtests(args, dynamic).await.map(|m| m.summaries) }
            else { let mut out = vec![]; for d in dynamic { out.push(backtest(args.clone(), d).await?); } Ok(out) }
        };
        let fut = async move { tokio::time::timeout(Duration::from_secs(feed.limit_s()), fut).await };
        catch_unwind(AssertUnwindSafe(|| if on_worker { rt.block_on(async { rt.spawn(fut).await }) } else { Ok(rt.block_on(fut)) }))
    }}; }
    let res = match feed {
        Feed::InMemory => go!(MarketDataInMemory::new(evs.clone())),
        Feed::Paced => go!(PacedData { events: evs.clone(), reg: reg.clone(), n_exec: fx.executions.len() }),
        Feed::Slow { salt } => go!(SlowData { events: evs.clone(), salt, streams: Arc::new(AtomicUsize::new(0)) }),
        Feed::Corrupt { at, stepwise, only } => go!(CorruptData { events: evs.clone(), at, stepwise, only, streams: Arc::new(AtomicUsize::new(0)) }),
        Feed::Recorded { layout } => go!(RecordedData::new(evs, layout)),
    };
    let (sums, error): (Vec<BacktestSummary<Daily>>, Option<String>) = match res {
        Ok(Ok(Ok(Ok(s)))) => (s, None),
        Ok(Ok(Ok(Err(e)))) => (vec![], Some(format!("backtest returned an error: {e}"))),
        Ok(Ok(Err(_))) => (vec![], Some(format!("backtests did not finish within {} s{}", feed.limit_s(), if matches!(feed, Feed::Slow { .. }) { " of virtual time" } else { "" }))),
        Ok(Err(e)) => (vec![], Some(format!("backtest task failed: {e}"))),
        Err(_) => (vec![], Some("panic while running the backtests".into())),
    };
    let inners: Vec<Inner> = lock(&reg.ctxs).iter().map(|c| lock(&c.inner).clone()).collect();
    let mut used = vec![false; inners.len()];
    let obs = jobs.iter().enumerate().map(|(j, (tag, k))| {
        let pos = inners.iter().position(|i| i.owner.as_deref() == Some(tag.as_str()));
        if let Some(p) = pos { used[p] = true; }
        Obs { tag: tag.clone(), k: *k, inner: pos.map(|p| inners[p].clone()), sum: sums.get(j).map(digest) }
    }).collect();
    let stray = inners.into_iter().zip(used).filter(|(_, u)| !u).map(|(i, _)| i).collect();
    Batch { obs, stray, error }
}

struct St { seen: HashSet<&'static str>, n: u64, memo: HashMap<String, (Sum, String)>, relabel: Option<&'static str> }
impl St { fn fail(&mut self, label: &'static str, input: &dyn Fn() -> String, observed: String, expected: String) {
    // the strict probe (KNOWN FINDING, see /verif/KNOWN_FINDINGS) reports under ONE label of its own and nothing else
    let label = match self.relabel { Some(l) => if label == L_CONC { l } else { return }, None => label };
    if self.seen.insert(label) { report(label, input(), observed, expected); } } }

fn seq_short(v: &[Exp]) -> String { let s: Vec<String> = v.iter().map(|e| match e { Exp::M(i) => format!("{i}"), Exp::D(ex) => if *ex == K { "K".into() } else if *ex == B { "B".into() } else { format!("R({})", ex.as_str()) } }).collect(); if s.len() > 40 { format!("[{} .. {}] ({} events)", s[..20].join(","), s[s.len() - 10..].join(","), s.len()) } else { format!("[{}]", s.join(",")) } }

/// clauses about ONE backtest: events, own-engine summary
fn check_one(st: &mut St, fx: &Fixture, evs: &[Ev], exp: &[Exp], feed: Feed, o: &Obs, input: &dyn Fn() -> String) {
    let who = format!("backtest {} (k={})", o.tag, o.k);
    // (an engine that never got to consult its strategy leaves no owned log; with an empty dataset there is nothing it could have skipped)
    let Some(inner) = &o.inner else { if !exp.is_empty() { st.fail(L_SKIP, input, format!("{who}: no engine ever consulted its strategy (no engine log carries its id)"), format!("its engine processes {}", seq_short(exp))); } return; };
    if let Some(c) = &inner.owner_conflict { st.fail(L_OWN, input, format!("one engine state was driven by the strategies of {c}"), "one engine per backtest".into()); }
    // a stall of the paced feed (4 s per step) under heavy machine load is INCONCLUSIVE, not a finding: it is reported only when asked for
    if inner.stalled && std::env::var("VX_C20_STALL_IS_FAILURE").is_err() { eprintln!("inconclusive: paced market data gave up waiting for {who}"); return; }
    if inner.stalled { st.fail(L_CONC, input, format!("{who}: paced market data gave up waiting (4 s) for its engine to digest event #{} and the execution answers ({} orders, {} answers, {} fills, {} balance updates)", inner.algo_seen, inner.orders, inner.resp_ok + inner.resp_err, inner.trades, inner.balances), "every answer reaches the engine".into()); return; }
    // events
    let seen: Vec<Exp> = inner.log.iter().filter_map(|r| match r { Rec::Market(i) => Some(Exp::M(*i)), Rec::Disconnect(ex) => Some(Exp::D(*ex)), _ => None }).collect();
    if seen != exp {
        let is_prefix = seen.len() < exp.len() && exp[..seen.len()] == seen[..];
        st.fail(if is_prefix { L_SKIP } else { L_ORDER }, input, format!("{who}: its engine processed {}", seq_short(&seen)), format!("{} - every dataset event once, in dataset order, before shutdown", seq_short(exp)));
    }
    for r in &inner.log { if let Rec::Other(x) = r { st.fail(L_ORDER, input, format!("{who}: its engine processed an event that is not of the dataset / mock exchange: {x}"), "dataset events only".into()); } }
    // decisions (a function of the market events alone)
    let (ref_cids, ref_fills) = reference(evs, &o.tag, o.k);
    if seen == exp && o.orders() != ref_cids { st.fail(L_CONC, input, format!("{who}: orders issued {:?}", o.orders()), format!("{ref_cids:?}")); }
    if std::env::var("VX_C20_DEBUG").is_ok() { eprintln!("{:?} {} fills seen {}/{} orders {} bal {:?} pnl {:?} :: {}", feed, who, o.fills().len(), ref_fills.len(), o.orders().len(), o.sum.as_ref().map(|s| s.bal.iter().map(|b| b.1).collect::<Vec<_>>()), o.sum.as_ref().map(|s| s.pnl.iter().map(|b| b.1).collect::<Vec<_>>()), &input()[..40]); }
    // fills seen by the engine: with paced data (and under VX_C20_KNOWN) exactly the fills of (dataset, k), in order; otherwise (answers cut off by
    // the shutdown, notifications of the MockExchange overtaking each other) some of them, each at most once
    let fills = o.fills();
    // (against the complete reference only when the engine was fed the complete dataset: what a truncated feed does to the fills is not a finding of its own)
    let strict = (feed.deterministic() || known()) && seen == exp;
    let mut rest = ref_fills.clone();
    let subset = fills.iter().all(|f| rest.iter().position(|r| r == f).map(|p| { rest.remove(p); }).is_some());
    if !subset || (strict && fills != ref_fills) {
        let show = |v: &[Fill]| v.iter().map(|f| format!("{}{}@{}", if f.buy { "+" } else { "-" }, f.inst, f.px)).collect::<Vec<_>>();
        st.fail(L_CONC, input, format!("{who}: its engine saw {} fills {:?}", fills.len(), show(&fills)), format!("{} the {} fills of (dataset, k): {:?}", if strict { "exactly, in order," } else { "some of (each at most once)" }, ref_fills.len(), show(&ref_fills)));
    }
    // the ids of the fills are those of THIS backtest's own simulated exchange(s): each numbers its fills 0, 1, 2, .. whatever other backtests run in
    // the process (checked where the fills seen are complete and in order)
    if strict && fills == ref_fills {
        let ids: Vec<(usize, String)> = o.inner.iter().flat_map(|i| i.trade_ids.iter().cloned()).collect();
        let mut next: BTreeMap<usize, u64> = BTreeMap::new();
        let own = ids.iter().all(|(x, id)| { let n = next.entry(*x).or_default(); let ok = *id == n.to_string(); *n += 1; ok });
        if !own { st.fail(L_CONC, input, format!("{who}: (exchange, trade id) of the fills its engine saw: {ids:?}"), "each simulated exchange of this backtest numbers its fills 0, 1, 2, .. - as when the backtest runs alone".into()); }
    }
    // summary: computed from THIS engine's history
    let Some(sum) = &o.sum else { return; };
    if sum.id != o.tag { st.fail(L_OWN, input, format!("summary in the place of {} carries id {}", o.tag, sum.id), "its own id".into()); }
    let want_bal: Vec<(String, Option<Decimal>)> = fx.asset_names.iter().cloned().zip(o.balances(fx.asset_names.len())).collect();
    if sum.bal != want_bal { st.fail(L_OWN, input, format!("{who}: summary end balances {:?}", sum.bal), format!("the last balances its own engine was told: {want_bal:?}")); }
    let model = pnl_of(&fills);
    let want_pnl: Vec<(String, Decimal)> = fx.instruments.instruments().iter().map(|i| (i.value.name_internal.to_string(), model.get(&i.key.index()).copied().unwrap_or_default())).collect();
    if sum.pnl != want_pnl { st.fail(L_OWN, input, format!("{who}: summary realised PnL {:?}", sum.pnl), format!("the PnL of the fills its own engine saw: {want_pnl:?}")); }
    // same account history => same summary (whoever ran it, alone or not)
    let key = o.account_history();
    let mut anon = sum.clone(); anon.id.clear();
    match st.memo.get(&key) {
        Some((s, which)) if *s != anon => { let (s, which) = (s.clone(), which.clone()); st.fail(L_OWN, input, format!("{who}: summary {anon:?}"), format!("{s:?} as for {which}, whose engine saw the same account history")) }
        Some(_) => {}
        None => { st.memo.insert(key, (anon, format!("{who} in [{}]", input()))); }
    }
}

/// concurrent run against the run-alone result of the same (tag, k)
fn check_pair(st: &mut St, feed: Feed, alone: &Obs, conc: &Obs, input: &dyn Fn() -> String) {
    let who = format!("backtest {} (k={})", conc.tag, conc.k);
    if alone.orders() != conc.orders() { st.fail(L_CONC, input, format!("{who} concurrently: orders {:?}", conc.orders()), format!("alone: {:?}", alone.orders())); }
    if feed.deterministic() || known() {
        if alone.fills() != conc.fills() { st.fail(L_CONC, input, format!("{who} concurrently: {} fills, final positions {:?}", conc.fills().len(), position_of(&conc.fills())), format!("alone: {} fills, final positions {:?}", alone.fills().len(), position_of(&alone.fills()))); }
        match (&alone.sum, &conc.sum) {
            (Some(a), Some(c)) if a.pnl != c.pnl || a.bal != c.bal => st.fail(L_CONC, input, format!("{who} concurrently: realised PnL {:?}, end balances {:?}", c.pnl, c.bal), format!("alone: realised PnL {:?}, end balances {:?}", a.pnl, a.bal)),
            (Some(_), None) => st.fail(L_CONC, input, format!("{who} concurrently: no summary"), "a summary".into()),
            _ => {}
        }
    }
}

/// one combination: every distinct k run ALONE, then `reps` times all jobs CONCURRENTLY, each compared with its run-alone result
#[allow(clippy::too_many_arguments)]
fn combination(st: &mut St, fx: &Fixture, rt_name: &str, rt: &tokio::runtime::Runtime, on_worker: bool, feed: Feed, n: usize, variant: usize, evs: &Arc<Vec<Ev>>, exp: &[Exp], jobs: &[(String, usize)], reps: usize) {
    let desc = |how: &str, rep: usize| {
        let (lead, mid, tail) = reconnect_layout(variant);
        let names = |v: &[ExchangeId]| if v.is_empty() { "none".to_string() } else { v.iter().map(|e| e.as_str()).collect::<Vec<_>>().join(",") };
        let data = match feed {
            Feed::InMemory => "MarketDataInMemory".to_string(),
            Feed::Paced => "PacedData (same events, released as the engine digests them)".to_string(),
            Feed::Slow { salt } => format!("SlowData (same events; the stream of the s-th backtest sleeps a VIRTUAL 2000+((5i+3s+{salt})%6)*1000 ms before its event #i and before ending: {} s in all for the first one)", (0..=evs.len()).map(|i| slow_delay_ms(salt, 0, i)).sum::<u64>() / 1000),
            Feed::Corrupt { .. } | Feed::Recorded { .. } => feed_name(feed, evs.len()),
        };
        format!("runtime {rt_name}; market data {data} with {n} items + {} reconnect notices (dataset variant {variant}: item i = trade #i on instrument {:?}[(i+{variant})%9]; stream reconnect notices K = Kraken (market data only), B = BinanceSpot (mock execution link): [{}] before the first item, [{}] before item {}, [{}] after the last item, K before items i%17==11{}; in all {}); backtests (id, k = order on every k-th item) {jobs:?} run {how}; repetition {rep}",
            exp.iter().filter(|e| matches!(e, Exp::D(_))).count(), [0, 1, 0, 2, 1, 0, 0, 2, 1], names(lead), names(if n >= 2 { mid } else { &[] }), n / 2, names(tail), if variant % 2 == 1 { " and before item 1" } else { "" }, seq_short(exp))
    };
    // alone (each distinct k once)
    let mut alone: HashMap<usize, Obs> = HashMap::new();
    for (tag, k) in jobs {
        if alone.contains_key(k) { continue; }
        let b = run_batch(rt, on_worker, fx, evs, feed, &[(tag.clone(), *k)], false);
        st.n += 1;
        let input = &|| desc(&format!("ALONE: only {tag}"), 0);
        if let Some(e) = &b.error { st.fail(L_SKIP, input, e.clone(), "a summary".into()); }
        check_one(st, fx, evs, exp, feed, &b.obs[0], input);
        alone.insert(*k, b.obs[0].clone());
    }
    for rep in 0..reps {
        let b = run_batch(rt, on_worker, fx, evs, feed, jobs, true);
        st.n += 1;
        let input = &|| desc("CONCURRENTLY (run_backtests)", rep);
        if let Some(e) = &b.error { st.fail(L_SKIP, input, e.clone(), format!("{} summaries", jobs.len())); continue; }
        if b.obs.iter().filter(|o| o.sum.is_some()).count() != jobs.len() { st.fail(L_OWN, input, format!("{} summaries", b.obs.iter().filter(|o| o.sum.is_some()).count()), format!("{}", jobs.len())); }
        for s in &b.stray { if !s.markets.is_empty() || s.owner.is_some() { st.fail(L_OWN, input, format!("an engine state owned by {:?} processed {} market items", s.owner, s.markets.len()), "one engine per backtest".into()); } }
        for o in &b.obs {
            check_one(st, fx, evs, exp, feed, o, input);
            // the run-alone result of the same k (ids differ only in the position prefix)
            let a = &alone[&o.k];
            let mut a = a.clone();
            if let Some(i) = a.inner.as_mut() { for r in i.log.iter_mut() { if let Rec::Order(c) | Rec::Response { cid: c, .. } = r { *c = c.replacen(&a.tag, &o.tag, 1); } } }
            check_pair(st, feed, &a, o, input);
        }
    }
}

// ------------------------------------------------------------------------------------------------- corrupt record / recorded error records
fn feed_name(feed: Feed, len: usize) -> String {
    match feed {
        Feed::Corrupt { at, stepwise, only } => format!("CorruptData (own BacktestMarketData: lazily decoded records, {}; {})", if stepwise { "yielding to the scheduler before every record" } else { "ready at once like stream::iter" },
            match at { None => "no corrupt record".to_string(), Some(a) => format!("the stream {} PANICS when it reaches record #{a} of {len} (0-based; reconnect notices are records too)", match only { None => "of every backtest".to_string(), Some(o) => format!("handed out {o}-th (0-based: backtest #{o} of the batch) - the streams of the others are healthy") }) }),
        Feed::Recorded { layout } => format!("RecordedData (own BacktestMarketData: the dataset as RECORDED - Vec<MarketStreamResult> through JSON as in the historic-data example: items Event::Item(Ok(..)), the notices, and recoverable error records Event::Item(Err(DataError::Socket(..))): {} - piped through the real ReconnectingStream::with_error_handler)", layout_name(layout)),
        other => format!("{other:?}"),
    }
}
fn seen_of(inner: &Inner) -> Vec<Exp> { inner.log.iter().filter_map(|r| match r { Rec::Market(i) => Some(Exp::M(*i)), Rec::Disconnect(ex) => Some(Exp::D(*ex)), _ => None }).collect() }

/// the clause both scenarios share: a backtest that RETURNS a summary has fed every event of its dataset to its engine, once and in order
/// (a backtest that returns an error / panics claims nothing). `must_succeed`: the dataset is healthy, so there has to be a summary.
fn check_fed(st: &mut St, label: &'static str, b: &Batch, exp: &[Exp], must_succeed: bool, input: &dyn Fn() -> String) {
    if must_succeed { if let Some(e) = &b.error { st.fail(if label == L_ERRREC { L_ERRREC } else { L_SKIP }, input, e.clone(), format!("{} summaries, each of an engine that was fed {}", b.obs.len(), seq_short(exp))); } }
    for o in &b.obs {
        let Some(sum) = &o.sum else { continue; };
        // (an engine that was never fed anything never consulted its strategy and leaves no owned log; run alone, the only log there is is its own)
        let inner = o.inner.as_ref().or(if b.obs.len() == 1 && b.stray.len() == 1 { b.stray.first() } else { None });
        let seen = inner.map(seen_of).unwrap_or_default();
        if seen != exp {
            let how = if seen.len() < exp.len() && exp[..seen.len()] == seen[..] { format!("only the first {} of the {} dataset events", seen.len(), exp.len()) } else { format!("{} events for the {} dataset events", seen.len(), exp.len()) };
            st.fail(label, input, format!("backtest {} (k={}) returned Ok(summary: realised PnL {:?}, end balances {:?}) although its engine had been fed {how} when it was shut down: {}", o.tag, o.k, sum.pnl.iter().map(|p| p.1).collect::<Vec<_>>(), sum.bal.iter().map(|b| b.1).collect::<Vec<_>>(), seq_short(&seen)),
                format!("{}a summary of an engine that was fed every dataset event once, in dataset order, before the shutdown: {}", if must_succeed { "" } else { "no summary at all (Err / panic), or " }, seq_short(exp)));
        }
    }
}

/// the historic-data example itself: SystemBuilder + the recorded stream through `with_error_handler` + `shutdown_after_backtest`;
/// returns the log of the engine handed back and the number of error records the handler was shown
fn run_system(rt: &tokio::runtime::Runtime, on_worker: bool, fx: &Fixture, records: Arc<Vec<RecEv>>, k: usize, mode: EngineFeedMode) -> Result<(Inner, usize), String> {
    let (instruments, executions) = (fx.instruments.clone(), fx.executions.clone());
    let handled = Arc::new(AtomicUsize::new(0));
    let h = handled.clone();
    let fut = async move {
        let global = Recorder { reg: Arc::new(Registry::default()), ctx: Arc::new(Ctx::default()) };
        let args = SystemArgs::new(&instruments, executions, HistoricalClock::new(t(0)), EveryK::new("sys", k), Risk::default(), recorded_stream(records, h), global, DefaultInstrumentMarketData::default);
        let build = SystemBuilder::new(args).engine_feed_mode(mode).audit_mode(AuditMode::Disabled).trading_state(TradingState::Enabled).build::<EngineEvent, _>().map_err(|e| format!("SystemBuilder::build failed: {e}"))?;
        let system = build.init().await.map_err(|e| format!("SystemBuild::init failed: {e}"))?;
        let (engine, _audit): (Eng, _) = system.shutdown_after_backtest().await.map_err(|e| format!("shutdown_after_backtest returned an error: {e}"))?;
        Ok::<Inner, String>(lock(&engine.state.global.ctx.inner).clone())
    };
    let fut = async move { tokio::time::timeout(Duration::from_secs(20), fut).await };
    match catch_unwind(AssertUnwindSafe(|| if on_worker { rt.block_on(async { rt.spawn(fut).await }) } else { Ok(rt.block_on(fut)) })) {
        Ok(Ok(Ok(r))) => r.map(|i| (i, handled.load(Ordering::SeqCst))),
        Ok(Ok(Err(_))) => Err("the system did not finish within 20 s".into()),
        Ok(Err(e)) => Err(format!("system task failed: {e}")),
        Err(_) => Err("panic while running the system".into()),
    }
}

/// 1. a market stream that PANICS at record k: no summary may be handed out for a prefix of the dataset;
/// 2. a recorded dataset with recoverable error records: they are not market events and do not end the feed
fn corrupt_and_recorded(st: &mut St, fx: &Fixture, mt: &tokio::runtime::Runtime, ct: &tokio::runtime::Runtime, thorough: bool, rng: &mut Rng) {
    let started = Instant::now();
    let budget = Duration::from_secs(if thorough { 30 } else { 8 });
    let rts: [(&str, &tokio::runtime::Runtime, bool); 3] = [("multi-thread (4 workers)", mt, true), ("multi-thread, backtests polled on the blocking thread", mt, false), ("current-thread", ct, false)];
    let describe = |rt_name: &str, what: String, n: usize, variant: usize, exp: &[Exp], how: String| format!("runtime {rt_name}; market data {what}; dataset variant {variant} with {n} items + {} reconnect notices (item i = trade #i; K = Kraken, B = BinanceSpot notices): {}; {how}", exp.iter().filter(|e| matches!(e, Exp::D(_))).count(), seq_short(exp));
    let jobs_of = |ks: &[usize]| -> Vec<(String, usize)> { ks.iter().enumerate().map(|(j, k)| (format!("b{j}k{k}"), *k)).collect() };
    // (a mid-sized dataset first: the first witness reported is then an illustrative one)
    let sizes: &[usize] = if thorough { &[7, 1, 2, 3, 12, 30, 64, 150] } else { &[7, 1, 2, 30] };
    let rec_sizes: &[usize] = if thorough { &[7, 0, 1, 2, 3, 12, 30, 64] } else { &[7, 0, 1, 2, 30] };
    for round in 0..if thorough { 6 } else { 1 } {
        // ---- 1. corrupt record
        for (si, n) in sizes.iter().enumerate() {
            let variant = round + si + 1;
            let (evs, exp) = dataset(*n, variant);
            let (evs, len) = (Arc::new(evs), exp.len());
            let mut ats: Vec<Option<usize>> = vec![None, Some(len / 2), Some(0), Some(len - 1)];
            if thorough { ats.extend([Some(1.min(len - 1)), Some(len.saturating_sub(2)), Some(rng.below(len as u64) as usize)]); }
            let mut uniq = vec![];
            for a in ats { if !uniq.contains(&a) { uniq.push(a); } }
            for at in uniq {
                for stepwise in [false, true] {
                    for (ri, (rt_name, rt, on_worker)) in rts.iter().enumerate() {
                        let k = 1 + (si + ri + stepwise as usize + round) % 3;
                        // alone
                        let feed = Feed::Corrupt { at, stepwise, only: None };
                        let jobs = jobs_of(&[k]);
                        let b = run_batch(rt, *on_worker, fx, &evs, feed, &jobs, false);
                        st.n += 1;
                        check_fed(st, L_FULL, &b, &exp, at.is_none(), &|| describe(rt_name, feed_name(feed, len), *n, variant, &exp, format!("backtests (id, k = order on every k-th item) {jobs:?} run ALONE (backtest)")));
                        // concurrently: every stream corrupt / only the stream of one backtest
                        if ri == 1 && !thorough { continue; }
                        let jobs = jobs_of(&[k, 1 + k % 3, k]);
                        for only in [None, Some((si + ri) % jobs.len())] {
                            if at.is_none() && only.is_some() { continue; }
                            let feed = Feed::Corrupt { at, stepwise, only };
                            let b = run_batch(rt, *on_worker, fx, &evs, feed, &jobs, true);
                            st.n += 1;
                            check_fed(st, L_FULL, &b, &exp, at.is_none(), &|| describe(rt_name, feed_name(feed, len), *n, variant, &exp, format!("backtests (id, k) {jobs:?} run CONCURRENTLY (run_backtests)")));
                        }
                        if started.elapsed() > budget { return; }
                    }
                }
            }
        }
        // ---- 2. recorded dataset with recoverable error records
        for (si, n) in rec_sizes.iter().enumerate() {
            let variant = round + si + 2;
            let (evs, exp) = dataset(*n, variant);
            let evs = Arc::new(evs);
            for layout in [0usize, 3, 1, 2, 4, 5, 6, 7] {
                let records = Arc::new(recorded(&evs, layout));
                let n_err = records.iter().filter(|r| matches!(r, MarketStreamResult::Item(Err(_)))).count();
                let feed = Feed::Recorded { layout };
                let what = || format!("{}; the recording (E = error record): {}", feed_name(feed, evs.len()), rec_short(&records));
                for (ri, (rt_name, rt, on_worker)) in rts.iter().enumerate() {
                    if !thorough && ri != (si + layout) % 3 && ri != (si + layout + 1) % 3 { continue; }
                    let k = 1 + (si + ri + layout + round) % 3;
                    // the real `backtest`, alone and concurrently over the shared recording
                    let jobs = jobs_of(&[k]);
                    let b = run_batch(rt, *on_worker, fx, &evs, feed, &jobs, false);
                    st.n += 1;
                    check_fed(st, L_ERRREC, &b, &exp, true, &|| describe(rt_name, what(), *n, variant, &exp, format!("backtests (id, k) {jobs:?} run ALONE (backtest)")));
                    let jobs = jobs_of(&[k, 1 + k % 3, k]);
                    let b = run_batch(rt, *on_worker, fx, &evs, feed, &jobs, true);
                    st.n += 1;
                    check_fed(st, L_ERRREC, &b, &exp, true, &|| describe(rt_name, what(), *n, variant, &exp, format!("backtests (id, k) {jobs:?} run CONCURRENTLY (run_backtests)")));
                    // the historic-data example: a System built by SystemBuilder, shut down by shutdown_after_backtest
                    let mode = if (si + ri + layout + round) % 2 == 0 { EngineFeedMode::Stream } else { EngineFeedMode::Iterator };
                    let r = run_system(rt, *on_worker, fx, records.clone(), k, mode.clone());
                    st.n += 1;
                    let input = &|| describe(rt_name, what(), *n, variant, &exp, format!("a System built by SystemBuilder (EngineFeedMode::{mode:?}, AuditMode::Disabled, strategy k={k}) on stream::iter(recording).with_error_handler(..), then System::shutdown_after_backtest"));
                    match r {
                        Err(e) => st.fail(L_ERRREC, input, e, format!("Ok(engine) - an engine that was fed {}", seq_short(&exp))),
                        Ok((inner, handled)) => {
                            let seen = seen_of(&inner);
                            if seen != exp { st.fail(L_ERRREC, input, format!("shutdown_after_backtest returned Ok(engine), and that engine had been fed {} events for the {} market events / notices of the recording: {} (the error handler was shown {handled} of the {n_err} error records)", seen.len(), exp.len(), seq_short(&seen)),
                                format!("every OK market event and notice of the recording once, in order (error records are not market events and do not end the feed): {}", seq_short(&exp))); }
                        }
                    }
                    if started.elapsed() > budget { return; }
                }
            }
        }
    }
}

// ------------------------------------------------------------------------------------------------- earlier backtests of the same process
const L_EARLIER: &str = "C20.bounded.earlier_backtests_do_not_affect_later_ones";

/// instrument universes (base, quote), ALL on the same mocked exchange id (BinanceSpot); none of U3 / U4 contains the other, U1 and U2 are
/// disjoint, U1 and U2 are contained in U3
const UNIVERSES: [(&str, &[(&str, &str)]); 4] = [
    ("U1", &[("btc", "usdt")]),
    ("U2", &[("eth", "usdt")]),
    ("U3", &[("sol", "usdt"), ("btc", "usdt"), ("eth", "usdt")]),
    ("U4", &[("xrp", "usdt"), ("eth", "usdt")]),
];
fn universe_name(u: usize) -> String { format!("{} {{{}}}", UNIVERSES[u].0, UNIVERSES[u].1.iter().map(|(b, q)| format!("{}{}", b.to_uppercase(), q.to_uppercase())).collect::<Vec<_>>().join(",")) }

/// configuration of universe `u`: its spot instruments on BinanceSpot, ONE mock execution link for BinanceSpot whose account holds ample
/// balances of exactly the assets of the universe; the strategies trade every instrument of the universe
fn universe_fixture(u: usize) -> Fixture {
    let pairs = UNIVERSES[u].1;
    let instruments = IndexedInstruments::new(pairs.iter().map(|(b, q)| Instrument::spot(B, format!("{}-{b}_{q}", B.as_str()), format!("{}{}", b.to_uppercase(), q.to_uppercase()), Underlying::new(Asset::from(*b), Asset::from(*q)), None)).collect::<Vec<_>>());
    let mut balances: Vec<AssetBalance<AssetNameExchange>> = vec![];
    for (a, v) in pairs.iter().flat_map(|(b, q)| [(*q, INIT_QUOTE), (*b, INIT_BASE)]) {
        if balances.iter().all(|x| x.asset != AssetNameExchange::from(a)) { balances.push(AssetBalance { asset: AssetNameExchange::from(a), balance: Balance::new(Decimal::from(v), Decimal::from(v)), time_exchange: t(-3600) }); }
    }
    let executions = vec![ExecutionConfig::Mock(MockExecutionConfig { mocked_exchange: B, initial_state: UnindexedAccountSnapshot { exchange: B, balances, instruments: vec![] }, latency_ms: 0, fees_percent: fee_rate() })];
    let asset_names = instruments.assets().iter().map(|a| format!("{}:{}", a.value.exchange.as_str(), a.value.asset.name_internal)).collect();
    Fixture { tradable: instruments.instruments().len(), instruments, executions, asset_names }
}

/// n trades (idx 0..n) over the `n_inst` instruments of a universe (all BinanceSpot), with BinanceSpot stream reconnect notices
fn universe_dataset(n: usize, variant: usize, n_inst: usize) -> (Vec<Ev>, Vec<Exp>) {
    let (mut evs, mut exp) = (vec![], vec![]);
    let notice = |evs: &mut Vec<Ev>, exp: &mut Vec<Exp>| { evs.push(MarketStreamEvent::Reconnecting(B)); exp.push(Exp::D(B)); };
    if variant % 2 == 1 { notice(&mut evs, &mut exp); }
    for i in 0..n {
        if i == n / 2 && variant % 3 != 2 { notice(&mut evs, &mut exp); }
        let inst = [0usize, 1, 0, 2, 1, 0, 0, 2, 1][(i + variant) % 9] % n_inst;
        let px = 100 + ((i * 7 + variant * 3) % 13) as u32;
        evs.push(MarketStreamEvent::Item(MarketEvent { time_exchange: t(i as i64), time_received: t(i as i64), exchange: B, instrument: InstrumentIndex(inst), kind: DataKind::Trade(PublicTrade { id: i.to_string(), price: px as f64, amount: 1.0, side: Side::Buy }) }));
        exp.push(Exp::M(i));
    }
    if variant % 3 == 1 { notice(&mut evs, &mut exp); }
    (evs, exp)
}

struct Uni { fx: Fixture, n: usize, variant: usize, evs: Arc<Vec<Ev>>, exp: Vec<Exp> }

/// what (universe, k) gave the first time it was run in this process: (realised PnL, end balances, where that was)
type FirstSeen = HashMap<(usize, usize), (Vec<(String, Decimal)>, Vec<(String, Option<Decimal>)>, String)>;

/// the oracle of the scenario: the orders, fills, final positions, realised PnL and end balances of every backtest of the batch are the ones
/// its OWN dataset + configuration + strategy determine (decision rule over the dataset; every order is for an instrument of the own
/// universe and the balances are ample, so every order is filled at its price) - whatever ran earlier in the process
fn check_isolated(st: &mut St, first: &mut FirstSeen, u: usize, un: &Uni, b: &Batch, here: &str, input: &dyn Fn() -> String) {
    let fx = &un.fx;
    if let Some(e) = &b.error { st.fail(L_EARLIER, input, e.clone(), format!("{} summaries", b.obs.len())); return; }
    for o in &b.obs {
        let who = format!("backtest {} (k={}) over universe {}", o.tag, o.k, universe_name(u));
        let (ref_cids, ref_fills) = reference_n(&un.evs, &o.tag, o.k, fx.tradable);
        let show = |v: &[Fill]| v.iter().map(|f| format!("{}{}@{}", if f.buy { "+" } else { "-" }, fx.instruments.instruments()[f.inst].value.name_exchange, f.px)).collect::<Vec<_>>();
        let Some(inner) = &o.inner else { if !un.exp.is_empty() { st.fail(L_EARLIER, input, format!("{who}: no engine ever consulted its strategy"), format!("its engine processes {}", seq_short(&un.exp))); } continue; };
        if let Some(c) = &inner.owner_conflict { st.fail(L_EARLIER, input, format!("one engine state was driven by the strategies of {c}"), "one engine per backtest".into()); }
        // a stall of the paced feed (4 s per step) under heavy machine load is INCONCLUSIVE, as everywhere in this stand-in
        if inner.stalled { if std::env::var("VX_C20_STALL_IS_FAILURE").is_ok() { st.fail(L_EARLIER, input, format!("{who}: paced market data gave up waiting (4 s) for its engine"), "every answer reaches the engine".into()); } else { eprintln!("inconclusive: paced market data gave up waiting for {who}"); } continue; }
        let seen = seen_of(inner);
        if seen != un.exp { st.fail(L_EARLIER, input, format!("{who}: its engine processed {}", seq_short(&seen)), format!("{} - every event of its own dataset once, in order", seq_short(&un.exp))); continue; }
        if o.orders() != ref_cids { st.fail(L_EARLIER, input, format!("{who}: orders issued {:?}", o.orders()), format!("the orders its strategy decides over its dataset: {ref_cids:?}")); }
        let fills = o.fills();
        if fills != ref_fills {
            st.fail(L_EARLIER, input, format!("{who}: {} orders sent, {} accepted and {} REFUSED by its mock exchange{}; its engine saw {} fills {:?}; final positions {:?}; summary {:?}", inner.orders, inner.resp_ok, inner.resp_err, inner.first_reject.as_ref().map(|r| format!(" (first refusal: {r})")).unwrap_or_default(), fills.len(), show(&fills), position_of(&fills), o.sum.as_ref().map(|s| (&s.pnl, &s.bal))),
                format!("every order is for an instrument of the backtest's own universe with ample balance, so every one is filled - exactly, in order, the {} fills {:?}; final positions {:?} - whatever ran earlier in the process", ref_fills.len(), show(&ref_fills), position_of(&ref_fills)));
        }
        // final positions as the engine state showed them to the strategy after the last event
        let want_pos: Vec<Decimal> = { let p = position_of(&ref_fills); (0..fx.instruments.instruments().len()).map(|i| p.get(&i).copied().unwrap_or_default()).collect() };
        if inner.positions != want_pos { st.fail(L_EARLIER, input, format!("{who}: final positions of its engine {:?} (instrument index order)", inner.positions), format!("{want_pos:?} = the net of the fills of (dataset, k)")); }
        // summary: of this backtest, from the history of its own engine, = what (dataset, configuration, k) determine
        let Some(sum) = &o.sum else { st.fail(L_EARLIER, input, format!("{who}: no summary"), "a summary".into()); continue; };
        if sum.id != o.tag { st.fail(L_EARLIER, input, format!("summary in the place of {} carries id {}", o.tag, sum.id), "its own id".into()); }
        let model = pnl_of(&ref_fills);
        let want_pnl: Vec<(String, Decimal)> = fx.instruments.instruments().iter().map(|i| (i.value.name_internal.to_string(), model.get(&i.key.index()).copied().unwrap_or_default())).collect();
        if sum.pnl != want_pnl { st.fail(L_EARLIER, input, format!("{who}: summary realised PnL {:?}", sum.pnl), format!("the realised PnL of the fills of (dataset, k): {want_pnl:?}")); }
        let want_bal: Vec<(String, Option<Decimal>)> = fx.asset_names.iter().cloned().zip(o.balances(fx.asset_names.len())).collect();
        if sum.bal != want_bal { st.fail(L_EARLIER, input, format!("{who}: summary end balances {:?}", sum.bal), format!("the last balances its own engine was told: {want_bal:?}")); }
        // the same (universe, dataset, configuration, k) gives the same result wherever it stands in the history of the process
        match first.get(&(u, o.k)) {
            Some((pnl, bal, wher)) if *pnl != sum.pnl || *bal != sum.bal => { let (pnl, bal, wher) = (pnl.clone(), bal.clone(), wher.clone()); st.fail(L_EARLIER, input, format!("{who}: realised PnL {:?}, end balances {:?}", sum.pnl, sum.bal), format!("realised PnL {pnl:?}, end balances {bal:?} as the same universe / dataset / configuration / k gave {wher}")) }
            Some(_) => {}
            None => { first.insert((u, o.k), (sum.pnl.clone(), sum.bal.clone(), here.to_string())); }
        }
    }
    for s in &b.stray { if !s.markets.is_empty() || s.owner.is_some() { st.fail(L_EARLIER, input, format!("an engine state owned by {:?} processed {} market items", s.owner, s.markets.len()), "one engine per backtest".into()); } }
}

fn permutations(items: &[usize]) -> Vec<Vec<usize>> {
    if items.len() <= 1 { return vec![items.to_vec()]; }
    let mut out = vec![];
    for i in 0..items.len() { let mut rest = items.to_vec(); let x = rest.remove(i); for mut p in permutations(&rest) { p.insert(0, x); out.push(p); } }
    out
}

/// Backtests / batches over DIFFERENT instrument universes on the SAME mocked exchange id, one after the other in every order and side
/// by side, all inside this one process: what ran earlier (or runs next to it) must not show in any of them.
/// Runs FIRST in `run`, so the first sequence starts in a process in which no backtest has run yet.
fn earlier_do_not_affect_later(st: &mut St, mt: &tokio::runtime::Runtime, ct: &tokio::runtime::Runtime, seed: u64, thorough: bool) {
    let started = Instant::now();
    let budget = Duration::from_secs(if thorough { 40 } else { 9 });
    let sizes: [usize; 4] = if thorough { [40, 33, 60, 48] } else { [12, 9, 15, 12] };
    let unis: Vec<Uni> = (0..UNIVERSES.len()).map(|u| { let fx = universe_fixture(u); let variant = u + 1 + seed as usize % 6; let (evs, exp) = universe_dataset(sizes[u], variant, fx.tradable); Uni { fx, n: sizes[u], variant, evs: Arc::new(evs), exp } }).collect();
    let rts: [(&str, &tokio::runtime::Runtime, bool); 3] = [("multi-thread (4 workers)", mt, true), ("current-thread", ct, false), ("multi-thread, backtests polled on the blocking thread", mt, false)];
    // sequences: the universes U1 U2 U3 in every order, every ordered pair of the four, and orders of all four (all 24 when thorough)
    let mut seqs: Vec<Vec<usize>> = permutations(&[0, 1, 2]);
    for a in 0..4 { for b in 0..4 { if a != b { seqs.push(vec![a, b]); } } }
    let four = permutations(&[0, 1, 2, 3]);
    if thorough { seqs.extend(four); } else { seqs.extend([0usize, 9, 14, 23, 7, 16].iter().map(|i| four[*i].clone())); }
    // which sequence stands first in the process differs from seed to seed (seed 0: U1, U2, U3)
    let rot = seed as usize % seqs.len();
    seqs.rotate_left(rot);
    let setting = format!("ONE process, no backtest has run in it before; every backtest mocks the SAME exchange id binance_spot (one ExecutionConfig::Mock, latency 0, fees {}) over the instrument universe of its batch: {}; account of a universe: {INIT_QUOTE} of the quote asset and {INIT_BASE} of every base asset of the universe (ample); market data PacedData (event i released when the engine has digested event i-1 and every execution answer it is owed) over the universe's own dataset ({}: item i = trade #i on instrument index [0,1,0,2,1,0,0,2,1][(i+variant)%9] % universe size, price 100+(7i+3*variant)%13; B = BinanceSpot stream reconnect notice); strategy EveryK(k): market order of {} on every k-th item, alternately buy / sell per instrument, for ANY instrument of its universe",
        fee_rate(), (0..unis.len()).map(universe_name).collect::<Vec<_>>().join(", "), unis.iter().enumerate().map(|(u, x)| format!("{}: {} items, variant {}, {}", UNIVERSES[u].0, x.n, x.variant, seq_short(&x.exp))).collect::<Vec<_>>().join("; "), qty());
    let mut history: Vec<String> = vec![];
    let mut first: FirstSeen = HashMap::new();
    let hist = |h: &[String]| if h.is_empty() { "nothing".to_string() } else if h.len() > 14 { format!("{} batches, the last ones: {}", h.len(), h[h.len() - 12..].join(" -> ")) } else { h.join(" -> ") };
    let jobs_of = |u: usize, step: usize, ks: &[usize]| -> Vec<(String, usize)> { ks.iter().enumerate().map(|(j, k)| (format!("{}s{step}b{j}k{k}", UNIVERSES[u].0), *k)).collect() };
    let mut step = 0usize;
    // ---- 1. one after the other
    'seqs: for (qi, seq) in seqs.iter().enumerate() {
        for (pos, u) in seq.iter().enumerate() {
            let (rt_name, rt, on_worker) = rts[(qi + pos) % rts.len()];
            // a single `backtest`, then a `run_backtests` batch of the same universe
            for (concurrent, ks) in [(false, vec![1 + (qi + pos) % 3]), (true, vec![1, 2, 3, 1 + (qi + pos) % 3])] {
                let jobs = jobs_of(*u, step, &ks);
                let what = format!("{} {}{:?} on {rt_name}", UNIVERSES[*u].0, if concurrent { "run_backtests k=" } else { "backtest k=" }, ks);
                let b = run_batch(rt, on_worker, &unis[*u].fx, &unis[*u].evs, Feed::Paced, &jobs, concurrent);
                st.n += 1;
                let input = &|| format!("{setting}. Sequence #{qi} of the scenario: universes {:?} one after the other, this is position {pos}. Ran EARLIER in this process, in this order: {}. NOW: {what}, backtests (id, k) {jobs:?}", seq.iter().map(|x| UNIVERSES[*x].0).collect::<Vec<_>>(), hist(&history));
                check_isolated(st, &mut first, *u, &unis[*u], &b, &format!("when run as batch #{step} of the process ({what})"), input);
                history.push(what);
                step += 1;
            }
            if started.elapsed() > budget { eprintln!("note: {L_EARLIER}: time budget used up after {step} batches"); break 'seqs; }
        }
    }
    // ---- 2. side by side: one batch per universe, each driven from a thread of its own, on the SAME multi-thread runtime at the same time
    let orders = permutations(&[0, 1, 2, 3]);
    for round in 0..if thorough { 12 } else { 4 } {
        if started.elapsed() > budget { break; }
        let order = &orders[(round * 7 + rot) % orders.len()];
        let on_worker = round % 2 == 0;
        let plan: Vec<(usize, bool, Vec<(String, usize)>)> = order.iter().enumerate().map(|(j, u)| { let conc = (round + j) % 3 != 0; (*u, conc, jobs_of(*u, step + j, &if conc { vec![1, 2, 3] } else { vec![1 + (round + j) % 3] })) }).collect();
        let batches: Vec<Batch> = std::thread::scope(|s| {
            let hs: Vec<_> = plan.iter().map(|(u, conc, jobs)| { let un = &unis[*u]; s.spawn(move || run_batch(mt, on_worker, &un.fx, &un.evs, Feed::Paced, jobs, *conc)) }).collect();
            hs.into_iter().map(|h| h.join().unwrap_or_else(|_| Batch { obs: vec![], stray: vec![], error: Some("panic in the thread driving the batch".into()) })).collect()
        });
        let what = format!("AT THE SAME TIME on multi-thread (4 workers){}: {}", if on_worker { "" } else { ", each batch polled on its own blocking thread" }, plan.iter().map(|(u, conc, jobs)| format!("{} {} {jobs:?}", UNIVERSES[*u].0, if *conc { "run_backtests" } else { "backtest" })).collect::<Vec<_>>().join(" | "));
        for ((u, _, _), b) in plan.iter().zip(&batches) {
            st.n += 1;
            let input = &|| format!("{setting}. Ran EARLIER in this process, in this order: {}. NOW, {what}", hist(&history));
            check_isolated(st, &mut first, *u, &unis[*u], b, &format!("when run side by side with the other universes (batch #{step} of the process)"), input);
        }
        history.push(format!("[{what}]"));
        step += plan.len();
    }
    if std::env::var("VX_C20_DEBUG").is_ok() { eprintln!("{L_EARLIER}: {step} batches in {:?}", started.elapsed()); }
}

pub fn run(seed: u64, thorough: bool) -> u64 {
    let mut st = St { seen: HashSet::new(), n: 0, memo: HashMap::new(), relabel: None };
    let fx = fixture();
    let mt = tokio::runtime::Builder::new_multi_thread().worker_threads(4).enable_all().build().expect("runtime");
    let ct = tokio::runtime::Builder::new_current_thread().enable_all().build().expect("runtime");
    // virtual time: the clock of this runtime only moves (jumps to the next timer) when every task on it is waiting
    let pt = tokio::runtime::Builder::new_current_thread().enable_all().start_paused(true).build().expect("runtime");
    let hook = std::panic::take_hook();
    std::panic::set_hook(Box::new(|_| {}));
    let mut rng = Rng::seeded(seed, 20);
    // FIRST (nothing has run in the process yet): backtests over different instrument universes on the same mocked exchange id
    earlier_do_not_affect_later(&mut st, &mt, &ct, seed, thorough);
    let started = Instant::now();
    let budget = Duration::from_millis(if thorough { 48_000 } else { 2_500 });
    let sizes: &[usize] = if thorough { &[0, 1, 2, 3, 7, 12, 30, 64, 150] } else { &[0, 1, 2, 7, 30, 64] };
    let slow_sizes: &[usize] = if thorough { &[8, 1, 3, 12, 0, 30] } else { &[8, 1, 12] };
    let reps = if thorough { 6 } else { 3 };
    // k-lists: the same backtest N times, distinct parameters, mixtures
    let mut klists: Vec<Vec<usize>> = vec![vec![2, 2], vec![1, 2, 3], vec![3, 1, 3, 2], vec![1; 8], vec![1, 2, 3, 4, 5, 6, 7, 8]];
    if thorough { for n in 2..=8 { klists.push(vec![2; n]); klists.push((0..n).map(|j| 1 + (j * 3) % 5).collect()); } }
    let mut round = 0usize;
    'outer: loop {
        // a SLOW market data source (virtual time, so neither slow nor timing dependent in wall-clock terms): nothing may be cut off
        for (si, n) in slow_sizes.iter().enumerate() {
            let variant = round + si + 1;
            let (evs, exp) = dataset(*n, variant);
            let evs = Arc::new(evs);
            let kl = &klists[(round + si + 1) % klists.len()];
            let jobs: Vec<(String, usize)> = kl.iter().enumerate().map(|(j, k)| (format!("b{j}k{k}"), *k)).collect();
            combination(&mut st, &fx, "current-thread with the clock PAUSED (virtual time: it jumps to the next timer whenever every task waits)", &pt, false, Feed::Slow { salt: round * 5 + si }, *n, variant, &evs, &exp, &jobs, 2);
            if started.elapsed() > budget { break 'outer; }
        }
        for (si, n) in sizes.iter().enumerate() {
            let variant = round + si;
            let (evs, exp) = dataset(*n, variant);
            let evs = Arc::new(evs);
            for feed in [Feed::Paced, Feed::InMemory] {
                if feed == Feed::InMemory && !evs.iter().any(|e| matches!(e, MarketStreamEvent::Item(_))) { continue; } // MarketDataInMemory::new requires an item
                for (rt_name, rt, on_worker) in [("multi-thread (4 workers)", &mt, true), ("multi-thread, backtests polled on the blocking thread", &mt, false), ("current-thread", &ct, false)] {
                    // a k-list per combination, rotating; all of them over the rounds
                    let kl = &klists[(round * 7 + si * 3 + rng.below(klists.len() as u64) as usize) % klists.len()];
                    let jobs: Vec<(String, usize)> = kl.iter().enumerate().map(|(j, k)| (format!("b{j}k{k}"), *k)).collect();
                    combination(&mut st, &fx, rt_name, rt, on_worker, feed, *n, variant, &evs, &exp, &jobs, reps);
                    if started.elapsed() > budget { break 'outer; }
                }
            }
        }
        round += 1;
        if round >= if thorough { 40 } else { 1 } { break; }
    }
    let (n0, t0) = (st.n, Instant::now());
    corrupt_and_recorded(&mut st, &fx, &mt, &ct, thorough, &mut rng);
    if std::env::var("VX_C20_DEBUG").is_ok() { eprintln!("corrupt record / recorded error records: {} runs in {:?}", st.n - n0, t0.elapsed()); }
    // KNOWN FINDING probe (deterministic): on a current-thread runtime the in-memory dataset is forwarded completely before the engine runs,
    // Shutdown is queued right behind it, and every answer of the mock exchange arrives after the engine has stopped: the engine of a backtest
    // that places orders sees NONE of its fills (strict comparison with the fills of (dataset, k)), alone and concurrently alike
    {
        STRICT_PROBE.store(true, std::sync::atomic::Ordering::SeqCst);
        let mut probe = St { seen: HashSet::new(), n: 0, memo: HashMap::new(), relabel: Some("C20.bounded.execution_answers_cut_off_by_shutdown") };
        let (evs, exp) = dataset(2, 0);
        let evs = Arc::new(evs);
        let jobs: Vec<(String, usize)> = vec![("b0k1".to_string(), 1)];
        combination(&mut probe, &fx, "current-thread", &ct, false, Feed::InMemory, 2, 0, &evs, &exp, &jobs, 1);
        STRICT_PROBE.store(false, std::sync::atomic::Ordering::SeqCst);
        st.n += probe.n;
    }
    std::panic::set_hook(hook);
    st.n
}
