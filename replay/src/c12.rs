//! C12 bounded checker: reconnecting streams.
//! Drives the REAL `ReconnectingStream` utilities (`with_reconnect_backoff` -> `with_termination_on_error` ->
//! `with_reconnection_events` [-> `with_error_handler`] as composed by `init_market_stream`, and `forward_to`) plus
//! `barter_integration::stream::merge::merge` on scripts of connection outcomes under tokio's PAUSED clock, and compares
//! every delivered event together with the virtual time of its delivery against a reference model.
use crate::{rng::Rng, report};
use barter_data::streams::{
    consumer::StreamKey,
    reconnect::{
        Event,
        stream::{ReconnectingStream, ReconnectionBackoffPolicy},
    },
};
use barter_instrument::exchange::ExchangeId;
use barter_integration::{Unrecoverable, channel::{Tx, mpsc_unbounded}, stream::merge::merge};
use futures::StreamExt;
use std::{
    cell::RefCell,
    collections::HashSet,
    rc::Rc,
    sync::{Arc, Mutex, atomic::{AtomicUsize, Ordering}},
    task::Poll,
};
use tokio::time::Instant;

const L_ITEMS: &str = "C12.bounded.items_exactly_once_in_order";
const L_NOTICE: &str = "C12.bounded.one_notice_per_connection";
const L_TERMINAL: &str = "C12.bounded.terminal_error_ends_connection";
const L_SOFT: &str = "C12.bounded.nonterminal_error_passed_through";
const L_FAILED: &str = "C12.bounded.failed_attempt_does_not_end_stream";
const L_BACKOFF: &str = "C12.bounded.backoff_waits";
const L_HANDLER: &str = "C12.bounded.error_handler";
const L_MERGE: &str = "C12.bounded.merge";
const L_FORWARD: &str = "C12.bounded.forward_to";

/// one thing a connection yields
#[derive(Clone, Copy, Debug, PartialEq, Eq)]
enum It { Ok, Soft, Hard }
/// outcome of one (re-)initialisation attempt
#[derive(Clone, Debug, PartialEq, Eq)]
enum Conn { Up(Vec<It>), Fail }

#[derive(Clone, Copy, Debug, PartialEq, Eq)]
struct Er { id: u32, terminal: bool }
type Item = Result<u32, Er>;

/// delivered thing, without the origin
#[derive(Clone, Copy, Debug, PartialEq, Eq)]
enum Ev { Item(u32), Err(u32), Notice }

fn id_of(conn: usize, pos: usize) -> u32 { (conn * 100 + pos) as u32 }
fn conn_of(id: u32) -> usize { (id / 100) as usize }
fn pos_of(id: u32) -> usize { (id % 100) as usize }

fn describe(policy: &ReconnectionBackoffPolicy, script: &[Conn], handler: bool) -> String {
    let s: Vec<String> = script.iter().map(|c| match c {
        Conn::Fail => "init-fails".to_string(),
        Conn::Up(items) => format!("up{:?}", items),
    }).collect();
    format!("policy(initial={}ms, x{}, max={}ms) script=[{}] error_handler={handler}", policy.backoff_ms_initial, policy.backoff_multiplier, policy.backoff_ms_max, s.join(", "))
}

struct Reference { events: Vec<(u64, Ev)>, handled: Vec<u32>, end_ms: u64 }

/// waits: initial, initial*m, ... capped at max, reset after a success; a connection delivers its items up to its end or
/// first terminal error, then exactly one notice
fn reference(policy: &ReconnectionBackoffPolicy, script: &[Conn], handler: bool) -> Reference {
    let (mut t, mut wait) = (0u64, policy.backoff_ms_initial);
    let mut r = Reference { events: vec![], handled: vec![], end_ms: 0 };
    for (c, conn) in script.iter().enumerate() {
        match conn {
            Conn::Fail => {
                t += wait;
                wait = std::cmp::min(wait * policy.backoff_multiplier as u64, policy.backoff_ms_max);
            }
            Conn::Up(items) => {
                wait = policy.backoff_ms_initial;
                for (p, it) in items.iter().enumerate() {
                    match it {
                        It::Ok => r.events.push((t, Ev::Item(id_of(c, p)))),
                        It::Soft if handler => r.handled.push(id_of(c, p)),
                        It::Soft => r.events.push((t, Ev::Err(id_of(c, p)))),
                        It::Hard => break,
                    }
                }
                r.events.push((t, Ev::Notice));
            }
        }
    }
    r.end_ms = t;
    r
}

struct Observed { events: Vec<(u64, Ev)>, handled: Vec<u32>, end_ms: u64, attempts_consumed: usize, bad_origin: bool }

async fn observe(policy: &ReconnectionBackoffPolicy, script: &[Conn], handler: bool) -> Observed {
    let key = StreamKey::new("c12_replay", ExchangeId::Mock, Some("scripted"));
    let consumed = Arc::new(AtomicUsize::new(0));
    let attempts: Vec<Result<futures::stream::Iter<std::vec::IntoIter<Item>>, &'static str>> = script.iter().enumerate().map(|(c, conn)| match conn {
        Conn::Fail => Err("init failed"),
        Conn::Up(items) => Ok(futures::stream::iter(items.iter().enumerate().map(|(p, it)| match it {
            It::Ok => Ok(id_of(c, p)),
            It::Soft => Err(Er { id: id_of(c, p), terminal: false }),
            It::Hard => Err(Er { id: id_of(c, p), terminal: true }),
        }).collect::<Vec<Item>>())),
    }).collect();
    let counter = consumed.clone();
    let source = futures::stream::iter(attempts).inspect(move |_| { counter.fetch_add(1, Ordering::SeqCst); });
    // composed as in barter-data/src/streams/consumer.rs::init_market_stream
    let stream = source
        .with_reconnect_backoff::<_, &'static str>(policy.clone(), key)
        .with_termination_on_error(|e: &Er| e.terminal, key)
        .with_reconnection_events(ExchangeId::Mock);
    let t0 = Instant::now();
    let mut out = Observed { events: vec![], handled: vec![], end_ms: 0, attempts_consumed: 0, bad_origin: false };
    let ms = |t0: Instant| Instant::now().duration_since(t0).as_millis() as u64;
    if handler {
        let log: Rc<RefCell<Vec<u32>>> = Rc::new(RefCell::new(vec![]));
        let sink = log.clone();
        let mut stream = Box::pin(stream.with_error_handler(move |e: Er| sink.borrow_mut().push(e.id)));
        while let Some(ev) = stream.next().await {
            out.events.push((ms(t0), match ev {
                Event::Item(v) => Ev::Item(v),
                Event::Reconnecting(o) => { out.bad_origin |= o != ExchangeId::Mock; Ev::Notice }
            }));
        }
        out.handled = log.borrow().clone();
    } else {
        let mut stream = Box::pin(stream);
        while let Some(ev) = stream.next().await {
            out.events.push((ms(t0), match ev {
                Event::Item(Ok(v)) => Ev::Item(v),
                Event::Item(Err(e)) => Ev::Err(e.id),
                Event::Reconnecting(o) => { out.bad_origin |= o != ExchangeId::Mock; Ev::Notice }
            }));
        }
    }
    out.end_ms = ms(t0);
    out.attempts_consumed = consumed.load(Ordering::SeqCst);
    out
}

fn check(policy: &ReconnectionBackoffPolicy, script: &[Conn], handler: bool, obs: &Observed, seen: &mut HashSet<&'static str>) {
    let want = reference(policy, script, handler);
    let input = || describe(policy, script, handler);
    let mut fail = |label: &'static str, observed: String, expected: String| {
        if seen.insert(label) { report(label, input(), observed, expected); }
    };
    let o: Vec<Ev> = obs.events.iter().map(|e| e.1).collect();
    let w: Vec<Ev> = want.events.iter().map(|e| e.1).collect();
    let show = |v: &[(u64, Ev)]| format!("{:?}", v.iter().map(|(t, e)| format!("{e:?}@{t}ms")).collect::<Vec<_>>());
    let mut diverged = false;

    // nothing of a connection may be delivered at / after its first terminal error
    let handled: Vec<Ev> = obs.handled.iter().map(|id| Ev::Err(*id)).collect();
    for e in o.iter().chain(handled.iter()) {
        let id = match e { Ev::Item(id) | Ev::Err(id) => *id, Ev::Notice => continue };
        if let Some(Conn::Up(items)) = script.get(conn_of(id)) {
            if let Some(h) = items.iter().position(|i| *i == It::Hard) {
                if pos_of(id) >= h {
                    diverged = true;
                    fail(L_TERMINAL, format!("delivered {e:?} of connection #{} whose first terminal error is at position {h}; all events {}, handed to the error handler {:?}", conn_of(id), show(&obs.events), obs.handled), format!("{}, handler {:?}", show(&want.events), want.handled));
                    break;
                }
            }
        }
    }
    // the stream of connections ends only when the source of attempts ends
    if obs.attempts_consumed < script.len() {
        diverged = true;
        let after_fail = obs.attempts_consumed >= 1 && script[obs.attempts_consumed - 1] == Conn::Fail;
        fail(L_FAILED, format!("stream ended by itself after {} of {} scripted attempts (last consumed attempt {}); delivered {}", obs.attempts_consumed, script.len(), if after_fail { "failed" } else { "succeeded" }, show(&obs.events)), format!("every later connection delivered: {}", show(&want.events)));
    }
    if !diverged && o != w {
        let items = |v: &[Ev]| v.iter().filter(|e| matches!(e, Ev::Item(_))).cloned().collect::<Vec<_>>();
        let skeleton = |v: &[Ev]| v.iter().filter(|e| !matches!(e, Ev::Err(_))).cloned().collect::<Vec<_>>();
        let label = if items(&o) != items(&w) { L_ITEMS } else if skeleton(&o) != skeleton(&w) { L_NOTICE } else { L_SOFT };
        diverged = true;
        fail(label, show(&obs.events), show(&want.events));
    }
    if obs.bad_origin { fail(L_NOTICE, "reconnecting notice with a foreign origin".into(), "origin of the stream".into()); }
    if handler && !diverged && obs.handled != want.handled {
        fail(L_HANDLER, format!("errors handed to the handler {:?}", obs.handled), format!("{:?}", want.handled));
    }
    if !diverged && (obs.events != want.events || obs.end_ms != want.end_ms) {
        fail(L_BACKOFF, format!("{} end@{}ms", show(&obs.events), obs.end_ms), format!("{} end@{}ms", show(&want.events), want.end_ms));
    }
}

fn policies() -> Vec<ReconnectionBackoffPolicy> {
    vec![
        ReconnectionBackoffPolicy::new(100, 3, 1000),
        ReconnectionBackoffPolicy::new(125, 2, 60000), // STREAM_RECONNECTION_POLICY
        ReconnectionBackoffPolicy::new(50, 1, 50),     // multiplier 1, max == initial
        ReconnectionBackoffPolicy::new(10, 2, 10),     // max == initial
        ReconnectionBackoffPolicy::new(100, 1, 1000),  // multiplier 1 never grows
        ReconnectionBackoffPolicy::new(7, 5, 100),
        ReconnectionBackoffPolicy::new(1, 2, 4),
        ReconnectionBackoffPolicy::new(1000, 2, 1500),
        ReconnectionBackoffPolicy::new(3, 255, 10_000),
    ]
}

fn shapes() -> Vec<Conn> {
    use It::*;
    vec![
        Conn::Fail,
        Conn::Up(vec![]),
        Conn::Up(vec![Ok]),
        Conn::Up(vec![Ok, Ok, Ok]),
        Conn::Up(vec![Ok, Soft, Ok]),
        Conn::Up(vec![Ok, Hard, Ok]),
        Conn::Up(vec![Hard]),
        Conn::Up(vec![Soft, Hard, Soft, Ok, Hard, Ok]),
    ]
}

// ------------------------------------------------------------------------------------------------- forward_to
#[derive(Debug, Clone)]
struct FlakyTx { sent: Arc<Mutex<Vec<Ev>>>, attempts: Arc<AtomicUsize>, fail_after: usize }
#[derive(Debug)]
struct Closed;
impl Unrecoverable for Closed { fn is_unrecoverable(&self) -> bool { true } }
impl Tx for FlakyTx {
    type Item = Ev;
    type Error = Closed;
    fn send<I: Into<Ev>>(&self, item: I) -> Result<(), Closed> {
        self.attempts.fetch_add(1, Ordering::SeqCst);
        let mut sent = self.sent.lock().unwrap();
        if sent.len() >= self.fail_after { return Err(Closed); }
        sent.push(item.into());
        Ok(())
    }
}

async fn forward_cases(seen: &mut HashSet<&'static str>) -> u64 {
    let mut n = 0;
    let source: Vec<Ev> = vec![Ev::Item(1), Ev::Item(2), Ev::Notice, Ev::Item(103), Ev::Err(104), Ev::Notice];
    for len in 0..=source.len() {
        for fail_after in 0..=len + 1 {
            let events = source[..len].to_vec();
            let tx = FlakyTx { sent: Default::default(), attempts: Default::default(), fail_after };
            futures::stream::iter(events.clone()).forward_to(tx.clone()).await;
            n += 1;
            let sent = tx.sent.lock().unwrap().clone();
            let want: Vec<Ev> = events.iter().take(fail_after).cloned().collect();
            let want_attempts = std::cmp::min(len, fail_after + 1);
            if (sent != want || tx.attempts.load(Ordering::SeqCst) != want_attempts) && seen.insert(L_FORWARD) {
                report(L_FORWARD, format!("events {events:?}, receiver refuses after {fail_after} sends"), format!("forwarded {sent:?} with {} send attempts", tx.attempts.load(Ordering::SeqCst)), format!("{want:?} in order, forwarding stops at the first refused send ({want_attempts} attempts)"));
            }
        }
        // the real unbounded channel: live receiver, receiver dropped up front
        let events = source[..len].to_vec();
        let (tx, mut rx) = mpsc_unbounded::<Ev>();
        futures::stream::iter(events.clone()).forward_to(tx).await;
        let mut got = vec![];
        while let Ok(e) = rx.rx.try_recv() { got.push(e); }
        n += 1;
        if got != events && seen.insert(L_FORWARD) { report(L_FORWARD, format!("events {events:?} into an unbounded channel"), format!("{got:?}"), format!("{events:?}")); }
        let (tx, rx) = mpsc_unbounded::<Ev>();
        drop(rx);
        futures::stream::iter(events).forward_to(tx).await; // has to complete
        n += 1;
    }
    n
}

// ------------------------------------------------------------------------------------------------- merge
#[derive(Clone, Copy, Debug, PartialEq, Eq)]
enum Act { L, R, CloseL, CloseR, Poll }

fn merge_case(acts: &[Act], seen: &mut HashSet<&'static str>) {
    let waker = futures::task::noop_waker_ref();
    let mut cx = std::task::Context::from_waker(waker);
    let (ltx, lrx) = mpsc_unbounded::<u32>();
    let (rtx, rrx) = mpsc_unbounded::<u32>();
    let (mut ltx, mut rtx) = (Some(ltx), Some(rtx));
    let mut stream = Box::pin(merge(lrx.into_stream(), rrx.into_stream()));
    let (mut next_l, mut next_r) = (0u32, 1000u32);
    // sent and not yet delivered per input; whether a close is pending delivery
    let (mut pend_l, mut pend_r): (Vec<u32>, Vec<u32>) = (vec![], vec![]);
    let (mut closing_l, mut closing_r, mut ended) = (false, false, false);
    let mut fail = |observed: String, expected: String| {
        if seen.insert(L_MERGE) { report(L_MERGE, format!("actions {acts:?} (L/R = send the next item on the left/right input, Poll = poll until pending)"), observed, expected); }
    };
    let mut all = acts.to_vec();
    all.push(Act::Poll);
    for (k, a) in all.iter().enumerate() {
        match a {
            Act::L => if let Some(tx) = &ltx { let _ = tx.send(next_l); if !ended { pend_l.push(next_l); } next_l += 1; },
            Act::R => if let Some(tx) = &rtx { let _ = tx.send(next_r); if !ended { pend_r.push(next_r); } next_r += 1; },
            Act::CloseL => { if ltx.take().is_some() { closing_l = true; } }
            Act::CloseR => { if rtx.take().is_some() { closing_r = true; } }
            Act::Poll => {
                let mut got: Vec<u32> = vec![];
                let mut none = false;
                for _ in 0..64 {
                    match stream.poll_next_unpin(&mut cx) {
                        Poll::Ready(Some(v)) => { if none { fail(format!("item {v} after the merged stream ended (step {k})"), "fused: nothing after the end".into()); return; } got.push(v) }
                        Poll::Ready(None) => { if none { break; } none = true; }
                        Poll::Pending => break,
                    }
                }
                let gl: Vec<u32> = got.iter().filter(|v| **v < 1000).cloned().collect();
                let gr: Vec<u32> = got.iter().filter(|v| **v >= 1000).cloned().collect();
                let prefix = |g: &[u32], p: &[u32]| g.len() <= p.len() && g == &p[..g.len()];
                let want_end = ended || closing_l || closing_r;
                let ok = if ended {
                    got.is_empty() && none
                } else if !want_end {
                    !none && gl == pend_l && gr == pend_r
                } else {
                    // every item of an input that ended is delivered before the end; the other input's items in order
                    none && prefix(&gl, &pend_l) && prefix(&gr, &pend_r)
                        && ((closing_l && gl == pend_l) || (closing_r && gr == pend_r))
                };
                if !ok {
                    fail(format!("step {k}: delivered {got:?}, ended={none}"), format!("left pending {pend_l:?} (closing={closing_l}), right pending {pend_r:?} (closing={closing_r}), already ended={ended}: each input's order kept, nothing lost before either input ends, end iff an input ended"));
                    return;
                }
                if want_end { ended = true; }
                pend_l.clear();
                pend_r.clear();
            }
        }
    }
}

fn merge_cases(seed: u64, thorough: bool, seen: &mut HashSet<&'static str>) -> u64 {
    let mut n = 0;
    let alphabet = [Act::L, Act::R, Act::CloseL, Act::CloseR, Act::Poll];
    // strict interleavings (poll after every action) and batched ones, exhaustively up to a small length
    let max_len = if thorough { 7 } else { 5 };
    for len in 1..=max_len {
        let total = alphabet.len().pow(len as u32);
        for code in 0..total {
            let mut c = code;
            let acts: Vec<Act> = (0..len).map(|_| { let a = alphabet[c % alphabet.len()]; c /= alphabet.len(); a }).collect();
            merge_case(&acts, seen);
            n += 1;
            let strict: Vec<Act> = acts.iter().filter(|a| **a != Act::Poll).flat_map(|a| [*a, Act::Poll]).collect();
            merge_case(&strict, seen);
            n += 1;
        }
    }
    let mut rng = Rng::seeded(seed, 12);
    for _ in 0..if thorough { 20_000 } else { 1_000 } {
        let len = 4 + rng.below(20) as usize;
        let acts: Vec<Act> = (0..len).map(|_| match rng.below(12) { 0 => Act::CloseL, 1 => Act::CloseR, 2..=4 => Act::Poll, 5..=8 => Act::L, _ => Act::R }).collect();
        merge_case(&acts, seen);
        n += 1;
    }
    n
}

pub fn run(seed: u64, thorough: bool) -> u64 {
    let mut seen: HashSet<&'static str> = HashSet::new();
    let mut n = 0u64;
    let rt = tokio::runtime::Builder::new_current_thread().enable_time().start_paused(true).build().expect("runtime");
    let pols = policies();
    let shapes = shapes();
    rt.block_on(async {
        // 1. long outages: k consecutive failed attempts between two connections, then a reset
        for policy in &pols {
            for k in 0..=12usize {
                for handler in [false, true] {
                    let mut script = vec![Conn::Up(vec![It::Ok, It::Ok])];
                    script.extend(std::iter::repeat(Conn::Fail).take(k));
                    script.push(Conn::Up(vec![It::Ok]));
                    script.push(Conn::Fail);
                    script.push(Conn::Up(vec![It::Soft, It::Ok, It::Hard, It::Ok]));
                    script.extend(std::iter::repeat(Conn::Fail).take(k / 2));
                    let obs = observe(policy, &script, handler).await;
                    check(policy, &script, handler, &obs, &mut seen);
                    n += 1;
                }
            }
        }
        // 2. every script of connection shapes up to a small length
        let max_len = if thorough { 5 } else { 3 };
        for (pi, policy) in pols.iter().enumerate() {
            if !thorough && pi >= 4 { break; }
            for len in 1..=max_len {
                let total = shapes.len().pow(len as u32);
                for code in 0..total {
                    let mut c = code;
                    let script: Vec<Conn> = (0..len).map(|_| { let s = shapes[c % shapes.len()].clone(); c /= shapes.len(); s }).collect();
                    let handler = code % 2 == 1;
                    let obs = observe(policy, &script, handler).await;
                    check(policy, &script, handler, &obs, &mut seen);
                    n += 1;
                }
            }
        }
        // 3. seeded random scripts (outage heavy)
        let mut rng = Rng::seeded(seed, 12);
        for _ in 0..if thorough { 60_000 } else { 3_000 } {
            let policy = if rng.chance(1, 3) {
                let initial = 1 + rng.below(200);
                ReconnectionBackoffPolicy::new(initial, 1 + rng.below(4) as u8, initial + rng.below(2_000))
            } else { pols[rng.below(pols.len() as u64) as usize].clone() };
            let len = 1 + rng.below(14) as usize;
            let script: Vec<Conn> = (0..len).map(|_| if rng.chance(1, 2) { Conn::Fail } else {
                let m = rng.below(6) as usize;
                Conn::Up((0..m).map(|_| match rng.below(6) { 0 => It::Hard, 1 => It::Soft, _ => It::Ok }).collect())
            }).collect();
            let handler = rng.chance(1, 2);
            let obs = observe(&policy, &script, handler).await;
            check(&policy, &script, handler, &obs, &mut seen);
            n += 1;
        }
        n += forward_cases(&mut seen).await;
    });
    n += merge_cases(seed, thorough, &mut seen);
    n
}
