//! C12 bounded checker: reconnecting streams.
//! Drives the REAL `ReconnectingStream` utilities (`with_reconnect_backoff` -> `with_termination_on_error` ->
//! `with_reconnection_events` [-> `with_error_handler`] as composed by `init_market_stream`, and `forward_to`) plus
//! `barter_integration::stream::merge::merge` on scripts of connection outcomes under tokio's PAUSED clock, and compares
//! every delivered event together with the virtual time of its delivery against a reference model.
//! Section `market_stream` (end of file) drives the REAL `init_market_stream::<ScriptedExchange, _, _>` itself on a fake
//! exchange whose `MarketStream::init` is scripted, so that the composition INSIDE that function (termination predicate,
//! policy, subscriptions handed to every (re-)initialisation, origin of the notices) is exercised too.
use crate::{rng::Rng, report};
use barter_data::streams::{
    consumer::StreamKey,
    reconnect::{
        Event,
        stream::{ReconnectingStream, ReconnectionBackoffPolicy},
    },
};
use barter_instrument::exchange::ExchangeId;
use barter_integration::{Unrecoverable, channel::{Tx, mpsc_unbounded}, stream::merge::merge};
use futures::StreamExt;
use std::{
    cell::RefCell,
    collections::HashSet,
    rc::Rc,
    sync::{Arc, Mutex, atomic::{AtomicUsize, Ordering}},
    task::Poll,
};
use tokio::time::Instant;

const L_ITEMS: &str = "C12.bounded.items_exactly_once_in_order";
const L_NOTICE: &str = "C12.bounded.one_notice_per_connection";
const L_TERMINAL: &str = "C12.bounded.terminal_error_ends_connection";
const L_SOFT: &str = "C12.bounded.nonterminal_error_passed_through";
const L_FAILED: &str = "C12.bounded.failed_attempt_does_not_end_stream";
const L_BACKOFF: &str = "C12.bounded.backoff_waits";
const L_HANDLER: &str = "C12.bounded.error_handler";
const L_MERGE: &str = "C12.bounded.merge";
const L_FORWARD: &str = "C12.bounded.forward_to";

/// one thing a connection yields
#[derive(Clone, Copy, Debug, PartialEq, Eq)]
enum It { Ok, Soft, Hard }
/// outcome of one (re-)initialisation attempt
#[derive(Clone, Debug, PartialEq, Eq)]
enum Conn { Up(Vec<It>), Fail }

#[derive(Clone, Copy, Debug, PartialEq, Eq)]
struct Er { id: u32, terminal: bool }
type Item = Result<u32, Er>;

/// delivered thing, without the origin
#[derive(Clone, Copy, Debug, PartialEq, Eq)]
enum Ev { Item(u32), Err(u32), Notice }

fn id_of(conn: usize, pos: usize) -> u32 { (conn * 100 + pos) as u32 }
fn conn_of(id: u32) -> usize { (id / 100) as usize }
fn pos_of(id: u32) -> usize { (id % 100) as usize }

fn describe(policy: &ReconnectionBackoffPolicy, script: &[Conn], handler: bool) -> String {
    let s: Vec<String> = script.iter().map(|c| match c {
        Conn::Fail => "init-fails".to_string(),
        Conn::Up(items) => format!("up{:?}", items),
    }).collect();
    format!("policy(initial={}ms, x{}, max={}ms) script=[{}] error_handler={handler}", policy.backoff_ms_initial, policy.backoff_multiplier, policy.backoff_ms_max, s.join(", "))
}

struct Reference { events: Vec<(u64, Ev)>, handled: Vec<u32>, end_ms: u64 }

/// waits: initial, initial*m, ... capped at max, reset after a success; a connection delivers its items up to its end or
/// first terminal error, then exactly one notice
fn reference(policy: &ReconnectionBackoffPolicy, script: &[Conn], handler: bool) -> Reference {
    let (mut t, mut wait) = (0u64, policy.backoff_ms_initial);
    let mut r = Reference { events: vec![], handled: vec![], end_ms: 0 };
    for (c, conn) in script.iter().enumerate() {
        match conn {
            Conn::Fail => {
                t += wait;
                wait = std::cmp::min(wait * policy.backoff_multiplier as u64, policy.backoff_ms_max);
            }
            Conn::Up(items) => {
                wait = policy.backoff_ms_initial;
                for (p, it) in items.iter().enumerate() {
                    match it {
                        It::Ok => r.events.push((t, Ev::Item(id_of(c, p)))),
                        It::Soft if handler => r.handled.push(id_of(c, p)),
                        It::Soft => r.events.push((t, Ev::Err(id_of(c, p)))),
                        It::Hard => break,
                    }
                }
                r.events.push((t, Ev::Notice));
            }
        }
    }
    r.end_ms = t;
    r
}

struct Observed { events: Vec<(u64, Ev)>, handled: Vec<u32>, end_ms: u64, attempts_consumed: usize, bad_origin: bool }

async fn observe(policy: &ReconnectionBackoffPolicy, script: &[Conn], handler: bool) -> Observed {
    let key = StreamKey::new("c12_replay", ExchangeId::Mock, Some("scripted"));
    let consumed = Arc::new(AtomicUsize::new(0));
    let attempts: Vec<Result<futures::stream::Iter<std::vec::IntoIter<Item>>, &'static str>> = script.iter().enumerate().map(|(c, conn)| match conn {
        Conn::Fail => Err("init failed"),
        Conn::Up(items) => Ok(futures::stream::iter(items.iter().enumerate().map(|(p, it)| match it {
            It::Ok => Ok(id_of(c, p)),
            It::Soft => Err(Er { id: id_of(c, p), terminal: false }),
            It::Hard => Err(Er { id: id_of(c, p), terminal: true }),
        }).collect::<Vec<Item>>())),
    }).collect();
    let counter = consumed.clone();
    let source = futures::stream::iter(attempts).inspect(move |_| { counter.fetch_add(1, Ordering::SeqCst); });
    // composed as in barter-data/src/streams/consumer.rs::init_market_stream
    let stream = source
        .with_reconnect_backoff::<_, &'static str>(policy.clone(), key)
        .with_termination_on_error(|e: &Er| e.terminal, key)
        .with_reconnection_events(ExchangeId::Mock);
    let t0 = Instant::now();
    let mut out = Observed { events: vec![], handled: vec![], end_ms: 0, attempts_consumed: 0, bad_origin: false };
    let ms = |t0: Instant| Instant::now().duration_since(t0).as_millis() as u64;
    if handler {
        let log: Rc<RefCell<Vec<u32>>> = Rc::new(RefCell::new(vec![]));
        let sink = log.clone();
        let mut stream = Box::pin(stream.with_error_handler(move |e: Er| sink.borrow_mut().push(e.id)));
        while let Some(ev) = stream.next().await {
            out.events.push((ms(t0), match ev {
                Event::Item(v) => Ev::Item(v),
                Event::Reconnecting(o) => { out.bad_origin |= o != ExchangeId::Mock; Ev::Notice }
            }));
        }
        out.handled = log.borrow().clone();
    } else {
        let mut stream = Box::pin(stream);
        while let Some(ev) = stream.next().await {
            out.events.push((ms(t0), match ev {
                Event::Item(Ok(v)) => Ev::Item(v),
                Event::Item(Err(e)) => Ev::Err(e.id),
                Event::Reconnecting(o) => { out.bad_origin |= o != ExchangeId::Mock; Ev::Notice }
            }));
        }
    }
    out.end_ms = ms(t0);
    out.attempts_consumed = consumed.load(Ordering::SeqCst);
    out
}

fn check(policy: &ReconnectionBackoffPolicy, script: &[Conn], handler: bool, obs: &Observed, seen: &mut HashSet<&'static str>) {
    let want = reference(policy, script, handler);
    let input = || describe(policy, script, handler);
    let mut fail = |label: &'static str, observed: String, expected: String| {
        if seen.insert(label) { report(label, input(), observed, expected); }
    };
    let o: Vec<Ev> = obs.events.iter().map(|e| e.1).collect();
    let w: Vec<Ev> = want.events.iter().map(|e| e.1).collect();
    let show = |v: &[(u64, Ev)]| format!("{:?}", v.iter().map(|(t, e)| format!("{e:?}@{t}ms")).collect::<Vec<_>>());
    let mut diverged = false;

    // nothing of a connection may be delivered at / after its first terminal error
    let handled: Vec<Ev> = obs.handled.iter().map(|id| Ev::Err(*id)).collect();
    for e in o.iter().chain(handled.iter()) {
        let id = match e { Ev::Item(id) | Ev::Err(id) => *id, Ev::Notice => continue };
        if let Some(Conn::Up(items)) = script.get(conn_of(id)) {
            if let Some(h) = items.iter().position(|i| *i == It::Hard) {
                if pos_of(id) >= h {
                    diverged = true;
                    fail(L_TERMINAL, format!("delivered {e:?} of connection #{} whose first terminal error is at position {h}; all events {}, handed to the error handler {:?}", conn_of(id), show(&obs.events), obs.handled), format!("{}, handler {:?}", show(&want.events), want.handled));
                    break;
                }
            }
        }
    }
    // the stream of connections ends only when the source of attempts ends
    if obs.attempts_consumed < script.len() {
        diverged = true;
        let after_fail = obs.attempts_consumed >= 1 && script[obs.attempts_consumed - 1] == Conn::Fail;
        fail(L_FAILED, format!("stream ended by itself after {} of {} scripted attempts (last consumed attempt {}); delivered {}", obs.attempts_consumed, script.len(), if after_fail { "failed" } else { "succeeded" }, show(&obs.events)), format!("every later connection delivered: {}", show(&want.events)));
    }
    if !diverged && o != w {
        let items = |v: &[Ev]| v.iter().filter(|e| matches!(e, Ev::Item(_))).cloned().collect::<Vec<_>>();
        let skeleton = |v: &[Ev]| v.iter().filter(|e| !matches!(e, Ev::Err(_))).cloned().collect::<Vec<_>>();
        let label = if items(&o) != items(&w) { L_ITEMS } else if skeleton(&o) != skeleton(&w) { L_NOTICE } else { L_SOFT };
        diverged = true;
        fail(label, show(&obs.events), show(&want.events));
    }
    if obs.bad_origin { fail(L_NOTICE, "reconnecting notice with a foreign origin".into(), "origin of the stream".into()); }
    if handler && !diverged && obs.handled != want.handled {
        fail(L_HANDLER, format!("errors handed to the handler {:?}", obs.handled), format!("{:?}", want.handled));
    }
    if !diverged && (obs.events != want.events || obs.end_ms != want.end_ms) {
        fail(L_BACKOFF, format!("{} end@{}ms", show(&obs.events), obs.end_ms), format!("{} end@{}ms", show(&want.events), want.end_ms));
    }
}

fn policies() -> Vec<ReconnectionBackoffPolicy> {
    vec![
        ReconnectionBackoffPolicy::new(100, 3, 1000),
        ReconnectionBackoffPolicy::new(125, 2, 60000), // STREAM_RECONNECTION_POLICY
        ReconnectionBackoffPolicy::new(50, 1, 50),     // multiplier 1, max == initial
        ReconnectionBackoffPolicy::new(10, 2, 10),     // max == initial
        ReconnectionBackoffPolicy::new(100, 1, 1000),  // multiplier 1 never grows
        ReconnectionBackoffPolicy::new(7, 5, 100),
        ReconnectionBackoffPolicy::new(1, 2, 4),
        ReconnectionBackoffPolicy::new(1000, 2, 1500),
        ReconnectionBackoffPolicy::new(3, 255, 10_000),
    ]
}

fn shapes() -> Vec<Conn> {
    use It::*;
    vec![
        Conn::Fail,
        Conn::Up(vec![]),
        Conn::Up(vec![Ok]),
        Conn::Up(vec![Ok, Ok, Ok]),
        Conn::Up(vec![Ok, Soft, Ok]),
        Conn::Up(vec![Ok, Hard, Ok]),
        Conn::Up(vec![Hard]),
        Conn::Up(vec![Soft, Hard, Soft, Ok, Hard, Ok]),
    ]
}

// ------------------------------------------------------------------------------------------------- forward_to
#[derive(Debug, Clone)]
struct FlakyTx { sent: Arc<Mutex<Vec<Ev>>>, attempts: Arc<AtomicUsize>, fail_after: usize }
#[derive(Debug)]
struct Closed;
impl Unrecoverable for Closed { fn is_unrecoverable(&self) -> bool { true } }
impl Tx for FlakyTx {
    type Item = Ev;
    type Error = Closed;
    fn send<I: Into<Ev>>(&self, item: I) -> Result<(), Closed> {
        self.attempts.fetch_add(1, Ordering::SeqCst);
        let mut sent = self.sent.lock().unwrap();
        if sent.len() >= self.fail_after { return Err(Closed); }
        sent.push(item.into());
        Ok(())
    }
}

async fn forward_cases(seen: &mut HashSet<&'static str>) -> u64 {
    let mut n = 0;
    let source: Vec<Ev> = vec![Ev::Item(1), Ev::Item(2), Ev::Notice, Ev::Item(103), Ev::Err(104), Ev::Notice];
    for len in 0..=source.len() {
        for fail_after in 0..=len + 1 {
            let events = source[..len].to_vec();
            let tx = FlakyTx { sent: Default::default(), attempts: Default::default(), fail_after };
            futures::stream::iter(events.clone()).forward_to(tx.clone()).await;
            n += 1;
            let sent = tx.sent.lock().unwrap().clone();
            let want: Vec<Ev> = events.iter().take(fail_after).cloned().collect();
            let want_attempts = std::cmp::min(len, fail_after + 1);
            if (sent != want || tx.attempts.load(Ordering::SeqCst) != want_attempts) && seen.insert(L_FORWARD) {
                report(L_FORWARD, format!("events {events:?}, receiver refuses after {fail_after} sends"), format!("forwarded {sent:?} with {} send attempts", tx.attempts.load(Ordering::SeqCst)), format!("{want:?} in order, forwarding stops at the first refused send ({want_attempts} attempts)"));
            }
        }
        // the real unbounded channel: live receiver, receiver dropped up front
        let events = source[..len].to_vec();
        let (tx, mut rx) = mpsc_unbounded::<Ev>();
        futures::stream::iter(events.clone()).forward_to(tx).await;
        let mut got = vec![];
        while let Ok(e) = rx.rx.try_recv() { got.push(e); }
        n += 1;
        if got != events && seen.insert(L_FORWARD) { report(L_FORWARD, format!("events {events:?} into an unbounded channel"), format!("{got:?}"), format!("{events:?}")); }
        let (tx, rx) = mpsc_unbounded::<Ev>();
        drop(rx);
        futures::stream::iter(events).forward_to(tx).await; // has to complete
        n += 1;
    }
    n
}

// ------------------------------------------------------------------------------------------------- merge
#[derive(Clone, Copy, Debug, PartialEq, Eq)]
enum Act { L, R, CloseL, CloseR, Poll }

fn merge_case(acts: &[Act], seen: &mut HashSet<&'static str>) {
    let waker = futures::task::noop_waker_ref();
    let mut cx = std::task::Context::from_waker(waker);
    let (ltx, lrx) = mpsc_unbounded::<u32>();
    let (rtx, rrx) = mpsc_unbounded::<u32>();
    let (mut ltx, mut rtx) = (Some(ltx), Some(rtx));
    let mut stream = Box::pin(merge(lrx.into_stream(), rrx.into_stream()));
    let (mut next_l, mut next_r) = (0u32, 1000u32);
    // sent and not yet delivered per input; whether a close is pending delivery
    let (mut pend_l, mut pend_r): (Vec<u32>, Vec<u32>) = (vec![], vec![]);
    let (mut closing_l, mut closing_r, mut ended) = (false, false, false);
    let mut fail = |observed: String, expected: String| {
        if seen.insert(L_MERGE) { report(L_MERGE, format!("actions {acts:?} (L/R = send the next item on the left/right input, Poll = poll until pending)"), observed, expected); }
    };
    let mut all = acts.to_vec();
    all.push(Act::Poll);
    for (k, a) in all.iter().enumerate() {
        match a {
            Act::L => if let Some(tx) = &ltx { let _ = tx.send(next_l); if !ended { pend_l.push(next_l); } next_l += 1; },
            Act::R => if let Some(tx) = &rtx { let _ = tx.send(next_r); if !ended { pend_r.push(next_r); } next_r += 1; },
            Act::CloseL => { if ltx.take().is_some() { closing_l = true; } }
            Act::CloseR => { if rtx.take().is_some() { closing_r = true; } }
            Act::Poll => {
                let mut got: Vec<u32> = vec![];
                let mut none = false;
                for _ in 0..64 {
                    match stream.poll_next_unpin(&mut cx) {
                        Poll::Ready(Some(v)) => { if none { fail(format!("item {v} after the merged stream ended (step {k})"), "fused: nothing after the end".into()); return; } got.push(v) }
                        Poll::Ready(None) => { if none { break; } none = true; }
                        Poll::Pending => break,
                    }
                }
                let gl: Vec<u32> = got.iter().filter(|v| **v < 1000).cloned().collect();
                let gr: Vec<u32> = got.iter().filter(|v| **v >= 1000).cloned().collect();
                let prefix = |g: &[u32], p: &[u32]| g.len() <= p.len() && g == &p[..g.len()];
                let want_end = ended || closing_l || closing_r;
                let ok = if ended {
                    got.is_empty() && none
                } else if !want_end {
                    !none && gl == pend_l && gr == pend_r
                } else {
                    // every item of an input that ended is delivered before the end; the other input's items in order
                    none && prefix(&gl, &pend_l) && prefix(&gr, &pend_r)
                        && ((closing_l && gl == pend_l) || (closing_r && gr == pend_r))
                };
                if !ok {
                    fail(format!("step {k}: delivered {got:?}, ended={none}"), format!("left pending {pend_l:?} (closing={closing_l}), right pending {pend_r:?} (closing={closing_r}), already ended={ended}: each input's order kept, nothing lost before either input ends, end iff an input ended"));
                    return;
                }
                if want_end { ended = true; }
                pend_l.clear();
                pend_r.clear();
            }
        }
    }
}

fn merge_cases(seed: u64, thorough: bool, seen: &mut HashSet<&'static str>) -> u64 {
    let mut n = 0;
    let alphabet = [Act::L, Act::R, Act::CloseL, Act::CloseR, Act::Poll];
    // strict interleavings (poll after every action) and batched ones, exhaustively up to a small length
    let max_len = if thorough { 7 } else { 5 };
    for len in 1..=max_len {
        let total = alphabet.len().pow(len as u32);
        for code in 0..total {
            let mut c = code;
            let acts: Vec<Act> = (0..len).map(|_| { let a = alphabet[c % alphabet.len()]; c /= alphabet.len(); a }).collect();
            merge_case(&acts, seen);
            n += 1;
            let strict: Vec<Act> = acts.iter().filter(|a| **a != Act::Poll).flat_map(|a| [*a, Act::Poll]).collect();
            merge_case(&strict, seen);
            n += 1;
        }
    }
    let mut rng = Rng::seeded(seed, 12);
    for _ in 0..if thorough { 20_000 } else { 1_000 } {
        let len = 4 + rng.below(20) as usize;
        let acts: Vec<Act> = (0..len).map(|_| match rng.below(12) { 0 => Act::CloseL, 1 => Act::CloseR, 2..=4 => Act::Poll, 5..=8 => Act::L, _ => Act::R }).collect();
        merge_case(&acts, seen);
        n += 1;
    }
    n
}

pub fn run(seed: u64, thorough: bool) -> u64 {
    let mut seen: HashSet<&'static str> = HashSet::new();
    let mut n = 0u64;
    let rt = tokio::runtime::Builder::new_current_thread().enable_time().start_paused(true).build().expect("runtime");
    let pols = policies();
    let shapes = shapes();
    rt.block_on(async {
        // 1. long outages: k consecutive failed attempts between two connections, then a reset
        for policy in &pols {
            for k in 0..=12usize {
                for handler in [false, true] {
                    let mut script = vec![Conn::Up(vec![It::Ok, It::Ok])];
                    script.extend(std::iter::repeat(Conn::Fail).take(k));
                    script.push(Conn::Up(vec![It::Ok]));
                    script.push(Conn::Fail);
                    script.push(Conn::Up(vec![It::Soft, It::Ok, It::Hard, It::Ok]));
                    script.extend(std::iter::repeat(Conn::Fail).take(k / 2));
                    let obs = observe(policy, &script, handler).await;
                    check(policy, &script, handler, &obs, &mut seen);
                    n += 1;
                }
            }
        }
        // 2. every script of connection shapes up to a small length
        let max_len = if thorough { 5 } else { 3 };
        for (pi, policy) in pols.iter().enumerate() {
            if !thorough && pi >= 4 { break; }
            for len in 1..=max_len {
                let total = shapes.len().pow(len as u32);
                for code in 0..total {
                    let mut c = code;
                    let script: Vec<Conn> = (0..len).map(|_| { let s = shapes[c % shapes.len()].clone(); c /= shapes.len(); s }).collect();
                    let handler = code % 2 == 1;
                    let obs = observe(policy, &script, handler).await;
                    check(policy, &script, handler, &obs, &mut seen);
                    n += 1;
                }
            }
        }
        // 3. seeded random scripts (outage heavy)
        let mut rng = Rng::seeded(seed, 12);
        for _ in 0..if thorough { 60_000 } else { 3_000 } {
            let policy = if rng.chance(1, 3) {
                let initial = 1 + rng.below(200);
                ReconnectionBackoffPolicy::new(initial, 1 + rng.below(4) as u8, initial + rng.below(2_000))
            } else { pols[rng.below(pols.len() as u64) as usize].clone() };
            let len = 1 + rng.below(14) as usize;
            let script: Vec<Conn> = (0..len).map(|_| if rng.chance(1, 2) { Conn::Fail } else {
                let m = rng.below(6) as usize;
                Conn::Up((0..m).map(|_| match rng.below(6) { 0 => It::Hard, 1 => It::Soft, _ => It::Ok }).collect())
            }).collect();
            let handler = rng.chance(1, 2);
            let obs = observe(&policy, &script, handler).await;
            check(&policy, &script, handler, &obs, &mut seen);
            n += 1;
        }
        n += forward_cases(&mut seen).await;
        // 4. the REAL init_market_stream on a scripted exchange
        n += market_stream::cases(seed, thorough, &pols, &mut seen).await;
    });
    n += merge_cases(seed, thorough, &mut seen);
    n
}

// ------------------------------------------------------------------------------------------------- the REAL init_market_stream
/// Drives `barter_data::streams::consumer::init_market_stream::<ScriptedExchange, Instr, Kind>` itself (not a re-composition
/// of the utilities): a fake exchange whose `MarketStream::init` pops the next scripted attempt outcome, records the
/// subscriptions it was handed and the virtual time of the call. The expected output is computed from the property
/// statement: per successfully initialised connection its entries up to (excluding) the first terminal error
/// (`DataError::InvalidSequence`), non-terminal errors passed through, then exactly one `Reconnecting(ScriptedExchange::ID)`;
/// failed attempts deliver nothing and are followed by waits initial, initial*m, .. capped at max, reset after a success;
/// a failing FIRST attempt / empty subscriptions make `init_market_stream` itself return the error.
mod market_stream {
    use super::{Conn, It, conn_of, id_of, pos_of};
    use crate::{report, rng::Rng};
    use barter_data::{
        Identifier, MarketStream, NoInitialSnapshots, SnapshotFetcher,
        error::DataError,
        event::MarketEvent,
        exchange::{Connector, StreamSelector, binance::subscription::BinanceSubResponse, subscription::ExchangeSub},
        instrument::InstrumentData,
        streams::{
            consumer::init_market_stream,
            reconnect::{Event, stream::ReconnectionBackoffPolicy},
        },
        subscriber::{WebSocketSubscriber, validator::WebSocketSubValidator},
        subscription::{Subscription, SubscriptionKind},
    };
    use barter_instrument::{exchange::ExchangeId, instrument::market_data::kind::MarketDataInstrumentKind};
    use barter_integration::{error::SocketError, protocol::websocket::WsMessage};
    use futures::{Stream, StreamExt};
    use std::{
        collections::{HashSet, VecDeque},
        pin::Pin,
        sync::Mutex,
        task::{Context, Poll},
        time::Duration,
    };
    use tokio::time::{Instant, timeout};

    const L_CUT: &str = "C12.bounded.market_stream.connection_cut_at_first_terminal_error";
    const L_SOFT: &str = "C12.bounded.market_stream.nonterminal_error_passed_through";
    const L_NOTICE: &str = "C12.bounded.market_stream.one_notice_per_connection";
    const L_SUBS: &str = "C12.bounded.market_stream.every_attempt_uses_all_subscriptions";
    const L_BACKOFF: &str = "C12.bounded.market_stream.backoff_waits";
    const L_FIRST: &str = "C12.bounded.market_stream.first_attempt_failure_is_an_error";
    const L_EMPTY: &str = "C12.bounded.market_stream.empty_subscriptions_is_an_error";
    /// catch-all for an item lost / duplicated / reordered / foreign that none of the labels above describes
    const L_ITEMS: &str = "C12.bounded.market_stream.items_exactly_once_in_order";

    /// longest silence (virtual time) after which a run is considered over; above every backoff maximum used below
    const IDLE: Duration = Duration::from_secs(600);

    // ---- the fake exchange
    #[derive(Clone, Copy, Default, Debug, PartialEq, Eq, serde::Deserialize, serde::Serialize)]
    pub struct ScriptedExchange;
    #[derive(Clone, Debug, PartialEq, Eq)]
    pub struct ScChannel(&'static str);
    impl AsRef<str> for ScChannel { fn as_ref(&self) -> &str { self.0 } }
    #[derive(Clone, Debug, PartialEq, Eq)]
    pub struct ScMarket(String);
    impl AsRef<str> for ScMarket { fn as_ref(&self) -> &str { &self.0 } }

    #[derive(Clone, Debug, PartialEq, Eq)]
    pub struct Instr { key: u32, kind: MarketDataInstrumentKind }
    impl InstrumentData for Instr {
        type Key = u32;
        fn key(&self) -> &u32 { &self.key }
        fn kind(&self) -> &MarketDataInstrumentKind { &self.kind }
    }
    impl std::fmt::Display for Instr { fn fmt(&self, f: &mut std::fmt::Formatter<'_>) -> std::fmt::Result { write!(f, "instr{}", self.key) } }

    #[derive(Clone, Copy, Debug, PartialEq, Eq)]
    pub enum Kind { Ticks, Quotes }
    impl SubscriptionKind for Kind {
        type Event = u32;
        fn as_str(&self) -> &'static str { match self { Kind::Ticks => "ticks", Kind::Quotes => "quotes" } }
    }
    impl std::fmt::Display for Kind { fn fmt(&self, f: &mut std::fmt::Formatter<'_>) -> std::fmt::Result { write!(f, "{}", self.as_str()) } }

    type Sub = Subscription<ScriptedExchange, Instr, Kind>;
    type Mev = MarketEvent<u32, u32>;
    type Entry = Result<Mev, DataError>;
    type Out = Event<ExchangeId, Entry>;

    impl Connector for ScriptedExchange {
        const ID: ExchangeId = ExchangeId::Simulated;
        type Channel = ScChannel;
        type Market = ScMarket;
        type Subscriber = WebSocketSubscriber;
        type SubValidator = WebSocketSubValidator;
        type SubResponse = BinanceSubResponse;
        fn url() -> Result<url::Url, SocketError> { unreachable!("the scripted exchange opens no socket") }
        fn requests(_: Vec<ExchangeSub<ScChannel, ScMarket>>) -> Vec<WsMessage> { unreachable!("the scripted exchange opens no socket") }
    }
    impl Identifier<ScChannel> for Sub { fn id(&self) -> ScChannel { ScChannel(self.kind.as_str()) } }
    impl Identifier<ScMarket> for Sub { fn id(&self) -> ScMarket { ScMarket(format!("market{}", self.instrument.key)) } }
    impl StreamSelector<Instr, Kind> for ScriptedExchange {
        type SnapFetcher = NoInitialSnapshots;
        type Stream = ScriptedStream;
    }

    /// one call of `ScriptedStream::init`
    #[derive(Clone, Debug)]
    struct Call { at_ms: u64, subs: Vec<Sub> }
    struct State { t0: Instant, attempts: VecDeque<Result<Vec<Entry>, DataError>>, calls: Vec<Call> }
    /// script of the current case (the cases run one after the other)
    static STATE: Mutex<Option<State>> = Mutex::new(None);

    pub struct ScriptedStream { entries: VecDeque<Entry>, finite: bool }
    impl Stream for ScriptedStream {
        type Item = Entry;
        fn poll_next(mut self: Pin<&mut Self>, _: &mut Context<'_>) -> Poll<Option<Entry>> {
            match self.entries.pop_front() {
                Some(entry) => Poll::Ready(Some(entry)),
                None if self.finite => Poll::Ready(None),
                None => Poll::Pending, // script exhausted: stays up, silent, for ever
            }
        }
    }
    #[async_trait::async_trait]
    impl MarketStream<ScriptedExchange, Instr, Kind> for ScriptedStream {
        async fn init<SnapFetcher>(subscriptions: &[Sub]) -> Result<Self, DataError>
        where
            SnapFetcher: SnapshotFetcher<ScriptedExchange, Kind>,
        {
            let mut guard = STATE.lock().unwrap();
            let Some(state) = guard.as_mut() else { return Ok(ScriptedStream { entries: VecDeque::new(), finite: false }) };
            state.calls.push(Call { at_ms: Instant::now().duration_since(state.t0).as_millis() as u64, subs: subscriptions.to_vec() });
            match state.attempts.pop_front() {
                Some(Ok(entries)) => Ok(ScriptedStream { entries: entries.into(), finite: true }),
                Some(Err(error)) => Err(error),
                None => Ok(ScriptedStream { entries: VecDeque::new(), finite: false }),
            }
        }
    }

    // ---- scripts -> what the fake exchange does
    fn subs(n: usize) -> Vec<Sub> {
        (0..n).map(|i| Subscription {
            exchange: ScriptedExchange,
            instrument: Instr { key: 70 + i as u32, kind: if i % 2 == 0 { MarketDataInstrumentKind::Spot } else { MarketDataInstrumentKind::Perpetual } },
            kind: if i % 3 == 1 { Kind::Quotes } else { Kind::Ticks },
        }).collect()
    }
    fn init_error(attempt: usize) -> DataError { DataError::Socket(format!("scripted init failure of attempt #{attempt}")) }
    /// `flavour` picks which non-terminal DataError variant a `Soft` entry is
    fn entry(conn: usize, pos: usize, it: It, flavour: usize, n_subs: usize) -> Entry {
        let id = id_of(conn, pos);
        match it {
            It::Ok => Ok(MarketEvent {
                time_exchange: chrono::DateTime::from_timestamp(1_700_000_000 + id as i64, 0).unwrap(),
                time_received: chrono::DateTime::from_timestamp(1_700_000_001 + id as i64, 0).unwrap(),
                exchange: ScriptedExchange::ID,
                instrument: 70 + (id as usize % n_subs.max(1)) as u32,
                kind: id,
            }),
            It::Soft if (pos + flavour) % 2 == 0 => Err(DataError::Socket(format!("soft#{id}"))),
            It::Soft => Err(DataError::InitialSnapshotInvalid(format!("soft#{id}"))),
            It::Hard => Err(DataError::InvalidSequence { prev_last_update_id: id as u64, first_update_id: id as u64 + 2 }),
        }
    }
    fn id_in(entry: &Entry) -> Option<u32> {
        match entry {
            Ok(event) => Some(event.kind),
            Err(DataError::Socket(s)) | Err(DataError::InitialSnapshotInvalid(s)) => s.rsplit('#').next().and_then(|d| d.parse().ok()),
            Err(DataError::InvalidSequence { prev_last_update_id, .. }) => Some(*prev_last_update_id as u32),
            Err(_) => None,
        }
    }
    fn show_out(out: &Out) -> String {
        match out {
            Event::Reconnecting(origin) => format!("Reconnecting({origin})"),
            Event::Item(Ok(event)) => format!("Item#{}", event.kind),
            Event::Item(Err(error)) => {
                let name = match error { DataError::Socket(_) => "Socket", DataError::InitialSnapshotInvalid(_) => "InitialSnapshotInvalid", DataError::InvalidSequence { .. } => "InvalidSequence", _ => "other" };
                match id_in(&Err(error.clone())) { Some(id) => format!("Err({name})#{id}"), None => format!("Err({error:?})") }
            }
        }
    }
    fn show(events: &[(u64, Out)]) -> String { format!("{:?}", events.iter().map(|(t, e)| format!("{}@{t}ms", show_out(e))).collect::<Vec<_>>()) }

    struct Case<'a> { policy: &'a ReconnectionBackoffPolicy, script: &'a [Conn], n_subs: usize, flavour: usize }
    impl Case<'_> {
        fn describe(&self) -> String {
            let s: Vec<String> = self.script.iter().enumerate().map(|(c, conn)| match conn {
                Conn::Fail => "init-fails".to_string(),
                Conn::Up(items) => format!("up[{}]", items.iter().enumerate().map(|(p, it)| match entry(c, p, *it, self.flavour, self.n_subs) {
                    Ok(_) => "item".to_string(),
                    Err(DataError::Socket(_)) => "Err(Socket)".to_string(),
                    Err(DataError::InitialSnapshotInvalid(_)) => "Err(InitialSnapshotInvalid)".to_string(),
                    Err(_) => "Err(InvalidSequence)".to_string(),
                }).collect::<Vec<_>>().join(", ")),
            }).collect();
            format!("init_market_stream::<ScriptedExchange, _, _>(policy(initial={}ms, x{}, max={}ms), {} subscriptions); outcomes of ScriptedStream::init in order=[{}], afterwards a silent connection (entries are numbered #<100*attempt+position>)",
                self.policy.backoff_ms_initial, self.policy.backoff_multiplier, self.policy.backoff_ms_max, self.n_subs, s.join(", "))
        }
    }

    // ---- expected, from the property statement
    struct Want { refused: Option<DataError>, events: Vec<(u64, Out)>, call_times: Vec<u64> }
    fn oracle(case: &Case<'_>) -> Want {
        let mut want = Want { refused: None, events: vec![], call_times: vec![] };
        if case.n_subs == 0 { want.refused = Some(DataError::SubscriptionsEmpty); return want; }
        if case.script[0] == Conn::Fail { want.refused = Some(init_error(0)); want.call_times.push(0); return want; }
        let policy = case.policy;
        let (mut t, mut wait) = (0u64, policy.backoff_ms_initial);
        for (c, conn) in case.script.iter().enumerate() {
            want.call_times.push(t);
            match conn {
                Conn::Fail => {
                    t += wait;
                    wait = std::cmp::min(wait * policy.backoff_multiplier as u64, policy.backoff_ms_max);
                }
                Conn::Up(items) => {
                    wait = policy.backoff_ms_initial;
                    for (p, it) in items.iter().enumerate() {
                        if *it == It::Hard { break; }
                        want.events.push((t, Event::Item(entry(c, p, *it, case.flavour, case.n_subs))));
                    }
                    want.events.push((t, Event::Reconnecting(ScriptedExchange::ID)));
                }
            }
        }
        want.call_times.push(t); // the attempt after the script: succeeds, stays silent
        want
    }

    // ---- observed, on the real function
    enum Outcome { Streaming, Refused(DataError), Hung }
    struct Seen { outcome: Outcome, events: Vec<(u64, Out)>, calls: Vec<Call>, ended: bool, cut_short: bool }
    async fn observe(case: &Case<'_>, subscriptions: Vec<Sub>, cap: usize) -> Seen {
        let t0 = Instant::now();
        let attempts = case.script.iter().enumerate().map(|(c, conn)| match conn {
            Conn::Fail => Err(init_error(c)),
            Conn::Up(items) => Ok(items.iter().enumerate().map(|(p, it)| entry(c, p, *it, case.flavour, case.n_subs)).collect()),
        }).collect();
        *STATE.lock().unwrap() = Some(State { t0, attempts, calls: vec![] });
        let mut seen = Seen { outcome: Outcome::Streaming, events: vec![], calls: vec![], ended: false, cut_short: false };
        match timeout(IDLE, init_market_stream::<ScriptedExchange, Instr, Kind>(case.policy.clone(), subscriptions)).await {
            Err(_) => seen.outcome = Outcome::Hung,
            Ok(Err(error)) => seen.outcome = Outcome::Refused(error),
            Ok(Ok(stream)) => {
                let mut stream = Box::pin(stream);
                loop {
                    match timeout(IDLE, stream.next()).await {
                        Ok(Some(out)) => {
                            seen.events.push((Instant::now().duration_since(t0).as_millis() as u64, out));
                            if seen.events.len() >= cap { seen.cut_short = true; break; }
                        }
                        Ok(None) => { seen.ended = true; break; }
                        Err(_) => break,
                    }
                }
            }
        }
        seen.calls = STATE.lock().unwrap().take().map(|s| s.calls).unwrap_or_default();
        seen
    }

    fn check(case: &Case<'_>, subscriptions: &[Sub], got: &Seen, seen: &mut HashSet<&'static str>) {
        let want = oracle(case);
        let mut fail = |label: &'static str, observed: String, expected: String| {
            if seen.insert(label) { report(label, case.describe(), observed, expected); }
        };
        // every attempt is made with all the subscriptions, in the original order
        for (k, call) in got.calls.iter().enumerate() {
            if call.subs != subscriptions {
                let keys = |s: &[Sub]| s.iter().map(|s| format!("{}/{}", s.instrument, s.kind)).collect::<Vec<_>>();
                fail(L_SUBS, format!("attempt #{k} (at {}ms) was initialised with {:?}", call.at_ms, keys(&call.subs)), format!("{:?}", keys(subscriptions)));
                break;
            }
        }
        let call_times: Vec<u64> = got.calls.iter().map(|c| c.at_ms).collect();
        if let Some(error) = &want.refused {
            let label = if case.n_subs == 0 { L_EMPTY } else { L_FIRST };
            let observed = match &got.outcome {
                Outcome::Refused(e) if e == error && call_times == want.call_times => return,
                Outcome::Refused(e) => format!("Err({e:?}) after init attempts at {call_times:?}ms"),
                Outcome::Streaming => format!("Ok(stream) which delivered {} after init attempts at {call_times:?}ms", show(&got.events)),
                Outcome::Hung => format!("did not resolve within {}s; init attempts at {call_times:?}ms", IDLE.as_secs()),
            };
            fail(label, observed, format!("Err({error:?}) after init attempts at {:?}ms", want.call_times));
            return;
        }
        match &got.outcome {
            Outcome::Streaming => {}
            Outcome::Refused(e) => { fail(L_ITEMS, format!("init_market_stream returned Err({e:?})"), format!("Ok(stream) delivering {}", show(&want.events))); return; }
            Outcome::Hung => { fail(L_ITEMS, format!("init_market_stream did not resolve within {}s", IDLE.as_secs()), format!("Ok(stream) delivering {}", show(&want.events))); return; }
        }
        let o: Vec<&Out> = got.events.iter().map(|e| &e.1).collect();
        let w: Vec<&Out> = want.events.iter().map(|e| &e.1).collect();
        let expected = || format!("{}; init attempts at {:?}ms", show(&want.events), want.call_times);
        let observed = || format!("{}{}; init attempts at {call_times:?}ms", show(&got.events), if got.ended { " then the stream ENDED" } else if got.cut_short { " .. (collection stopped)" } else { "" });
        // nothing of a connection is delivered at / after its first terminal error
        for out in &o {
            let Event::Item(entry) = out else { continue };
            let Some(id) = id_in(entry) else { continue };
            if let Some(Conn::Up(items)) = case.script.get(conn_of(id)) {
                if let Some(h) = items.iter().position(|i| *i == It::Hard) {
                    if pos_of(id) >= h {
                        fail(L_CUT, format!("delivered {} of connection #{} whose first terminal error is at position {h}; all: {}", show_out(out), conn_of(id), observed()), expected());
                        return;
                    }
                }
            }
        }
        if o != w {
            let i = (0..o.len().max(w.len())).find(|i| o.get(*i) != w.get(*i)).unwrap();
            let soft = |out: &Out| matches!(out, Event::Item(Err(_)));
            let notice = |out: &Out| matches!(out, Event::Reconnecting(_));
            let same_conn = |a: &Out, b: &Out| match (a, b) {
                (Event::Item(a), Event::Item(b)) => id_in(a).zip(id_in(b)).is_some_and(|(a, b)| conn_of(a) == conn_of(b)),
                _ => false,
            };
            let label = match (o.get(i), w.get(i)) {
                // a non-terminal error was due here: dropped, altered, or it ended the connection
                (_, Some(w_i)) if soft(w_i) => L_SOFT,
                // the connection ended right after a non-terminal error had been passed through
                (Some(o_i), Some(w_i)) if notice(o_i) && i > 0 && soft(w[i - 1]) && same_conn(w[i - 1], w_i) => L_SOFT,
                (_, Some(w_i)) if notice(w_i) => L_NOTICE,
                (Some(o_i), None) if notice(o_i) => L_NOTICE,
                _ => L_ITEMS,
            };
            fail(label, format!("first difference at event {i}: {}", observed()), expected());
            return;
        }
        // waits between attempts, and each connection's entries delivered when it came up
        if got.events != want.events || call_times != want.call_times || got.ended {
            fail(L_BACKOFF, observed(), expected());
        }
    }

    /// every script of at most `max_attempts` attempts, connections of at most `max_conn` entries over {item, non-terminal
    /// error, terminal error}, at most `budget` entries in total
    fn scripts(max_attempts: usize, max_conn: usize, budget: usize) -> Vec<Vec<Conn>> {
        fn conns(len: usize) -> Vec<Vec<It>> {
            let alphabet = [It::Ok, It::Soft, It::Hard];
            (0..alphabet.len().pow(len as u32)).map(|code| { let mut c = code; (0..len).map(|_| { let it = alphabet[c % 3]; c /= 3; it }).collect() }).collect()
        }
        fn grow(prefix: &mut Vec<Conn>, left: usize, max_conn: usize, budget: usize, out: &mut Vec<Vec<Conn>>) {
            if !prefix.is_empty() { out.push(prefix.clone()); }
            if left == 0 { return; }
            // whatever follows a failed FIRST attempt is never reached: one follower is enough
            if prefix.len() >= 2 && prefix[0] == Conn::Fail { return; }
            prefix.push(Conn::Fail);
            grow(prefix, left - 1, max_conn, budget, out);
            prefix.pop();
            for len in 0..=max_conn.min(budget) {
                for items in conns(len) {
                    prefix.push(Conn::Up(items));
                    grow(prefix, left - 1, max_conn, budget - len, out);
                    prefix.pop();
                }
            }
        }
        let mut out = vec![];
        grow(&mut vec![], max_attempts, max_conn, budget, &mut out);
        // smallest first, so that the first failing case reported under a label is a small one
        out.sort_by_key(|script| (script.len(), script.iter().map(|c| match c { Conn::Up(items) => items.len(), Conn::Fail => 0 }).sum::<usize>()));
        out
    }

    pub async fn cases(seed: u64, thorough: bool, pols: &[ReconnectionBackoffPolicy], seen: &mut HashSet<&'static str>) -> u64 {
        let mut n = 0u64;
        // 1. empty subscriptions: refused before any attempt is made
        for policy in pols {
            let script = [Conn::Up(vec![It::Ok])];
            let case = Case { policy, script: &script, n_subs: 0, flavour: 0 };
            let got = observe(&case, vec![], 8).await;
            check(&case, &[], &got, seen);
            n += 1;
        }
        // 2. exhaustive small scripts
        let all = if thorough { scripts(5, 4, 6) } else { scripts(4, 4, 6) };
        for (k, script) in all.iter().enumerate() {
            let has_soft = script.iter().any(|c| matches!(c, Conn::Up(items) if items.contains(&It::Soft)));
            let has_fail = script.iter().skip(1).any(|c| *c == Conn::Fail);
            let n_pol = if thorough && has_fail { pols.len() } else if has_fail { 3 } else { 1 };
            for j in 0..n_pol {
                let policy = &pols[(k + j) % pols.len()];
                for flavour in 0..if has_soft { 2 } else { 1 } {
                    let case = Case { policy, script, n_subs: 1 + (k + j + flavour) % 4, flavour };
                    let subscriptions = subs(case.n_subs);
                    let cap = script.iter().map(|c| match c { Conn::Up(items) => items.len() + 1, Conn::Fail => 0 }).sum::<usize>() + 8;
                    let got = observe(&case, subscriptions.clone(), cap).await;
                    check(&case, &subscriptions, &got, seen);
                    n += 1;
                }
            }
        }
        // 3. seeded random longer scripts (outage heavy)
        let mut rng = Rng::seeded(seed, 1212);
        for _ in 0..if thorough { 100_000 } else { 5_000 } {
            let policy = if rng.chance(1, 3) {
                let initial = 1 + rng.below(200);
                ReconnectionBackoffPolicy::new(initial, 1 + rng.below(4) as u8, initial + rng.below(2_000))
            } else { pols[rng.below(pols.len() as u64) as usize].clone() };
            let len = 1 + rng.below(14) as usize;
            let script: Vec<Conn> = (0..len).map(|c| if rng.chance(if c == 0 { 1 } else { 5 }, 10) { Conn::Fail } else {
                let m = rng.below(9) as usize;
                Conn::Up((0..m).map(|_| match rng.below(6) { 0 => It::Hard, 1 | 2 => It::Soft, _ => It::Ok }).collect())
            }).collect();
            let case = Case { policy: &policy, script: &script, n_subs: 1 + rng.below(5) as usize, flavour: rng.below(2) as usize };
            let subscriptions = subs(case.n_subs);
            let cap = script.iter().map(|c| match c { Conn::Up(items) => items.len() + 1, Conn::Fail => 0 }).sum::<usize>() + 8;
            let got = observe(&case, subscriptions.clone(), cap).await;
            check(&case, &subscriptions, &got, seen);
            n += 1;
        }
        n
    }
}
