//! C04 BOUNDED stand-in (never counted as proved): the constructors `IndexedInstruments::new`, `IndexedInstrumentsBuilder`
//! (`add_instrument` .. `build`) and `generate_execution_instrument_map` are iterator pipelines out of the verifier's reach.
//! Here every assignment of up to `max_instr` spot instruments over up to `max_ex` exchanges (base/quote names from a pool with
//! shared names, every definition order being a different tuple) is built with the REAL constructors, and the executable
//! rendering of the map well-formedness + the look-up contracts is evaluated for every exchange's map and every global index /
//! name.
//! The tuples INCLUDE the same definition repeated (adjacent and non-adjacent, with definitions of the same and of other
//! exchanges in between, the same pair also defined on another exchange); seeded random collections chain two or three
//! instrument lists that overlap (merged strategy / configuration lists). Both real entry points are used
//! (`IndexedInstruments::new(lists chained)` and `IndexedInstruments::builder()` + `add_instrument` per definition + `build`).
//! On top of the round-trip clauses: every distinct definition (instrument, exchange, exchange asset) has exactly one index.
use crate::{report, rng::Rng};
use barter_execution::{
    indexer::AccountEventIndexer,
    map::generate_execution_instrument_map,
    order::{OrderEvent, OrderKey, id::{ClientOrderId, StrategyId}},
};
use barter_instrument::{
    Underlying, asset::Asset, exchange::ExchangeId, index::IndexedInstruments, instrument::Instrument,
};
use std::{collections::HashSet, sync::Arc};

const EXCHANGES: [ExchangeId; 3] = [ExchangeId::BinanceSpot, ExchangeId::Kraken, ExchangeId::Coinbase];
const PAIRS: [(&str, &str); 4] = [("btc", "usdt"), ("eth", "usdt"), ("eth", "btc"), ("sol", "usd")];
const L_ONE_INDEX: &str = "C04.bounded.repeated_definition_has_one_index";

/// user-supplied internal names that do NOT carry the exchange ("btc_usdt" for the listing on every exchange): the listings are different
/// instruments all the same - each has its own index and translates to and from its own exchange's name
static PLAIN_NAMES: std::sync::atomic::AtomicBool = std::sync::atomic::AtomicBool::new(false);
fn plain() -> bool { PLAIN_NAMES.load(std::sync::atomic::Ordering::Relaxed) }
fn instrument(ex: ExchangeId, base: &str, quote: &str) -> Instrument<ExchangeId, Asset> {
    Instrument::spot(ex, if plain() { format!("{base}_{quote}") } else { format!("{}-{base}_{quote}", ex.as_str()) }, format!("{}{}", base.to_uppercase(), quote.to_uppercase()),
                     Underlying::new(Asset::from(base), Asset::from(quote)), None)
}

/// (exchange, pair) positions in EXCHANGES / PAIRS
type Def = (usize, usize);

fn make(d: &Def) -> Instrument<ExchangeId, Asset> { instrument(EXCHANGES[d.0], PAIRS[d.1].0, PAIRS[d.1].1) }
fn show(d: &Def) -> String { format!("{}:{}/{}", EXCHANGES[d.0].as_str(), PAIRS[d.1].0, PAIRS[d.1].1) }

#[derive(Clone, Copy, PartialEq, Eq)]
enum Entry { New, Builder }

/// the lists are merged in the given order
fn build(lists: &[Vec<Def>], entry: Entry) -> IndexedInstruments {
    match entry {
        Entry::New => IndexedInstruments::new(lists.iter().flat_map(|l| l.iter().map(make))),
        Entry::Builder => lists.iter().flatten().fold(IndexedInstruments::builder(), |b, d| b.add_instrument(make(d))).build(),
    }
}

struct Checker { seen: HashSet<&'static str>, n: u64 }

impl Checker {
    fn rep(&mut self, label: &'static str, input: String, observed: String, expected: String) { if self.seen.insert(label) { report(label, input, observed, expected); } }

    fn collection(&mut self, lists: &[Vec<Def>], entry: Entry) {
        let indexed = build(lists, entry);
        let defs: Vec<Def> = lists.iter().flatten().copied().collect();
        let cfg = format!("{}{}; instruments (definition order{}): {}", if plain() { "internal names WITHOUT the exchange (shared by the listings of a pair on different exchanges); " } else { "" },
            match entry { Entry::New => "IndexedInstruments::new(lists chained)", Entry::Builder => "IndexedInstruments::builder(), add_instrument per definition, build()" },
            if lists.len() > 1 { ", lists merged in this order" } else { "" },
            lists.iter().map(|l| format!("{:?}", l.iter().map(show).collect::<Vec<_>>())).collect::<Vec<_>>().join(" ++ "));
        self.one_index_each(&indexed, &defs, &cfg);
        self.round_trips(&indexed, &cfg);
    }

    /// every distinct definition - instrument, exchange, (exchange, asset) - has exactly one index, however often and wherever it was repeated
    fn one_index_each(&mut self, indexed: &IndexedInstruments, defs: &[Def], cfg: &str) {
        let mut distinct: Vec<Def> = vec![];
        for d in defs { if !distinct.contains(d) { distinct.push(*d); } }
        let listing = || indexed.instruments().iter().map(|k| format!("{:?}={}:{}", k.key, k.value.exchange.value.as_str(), k.value.name_exchange)).collect::<Vec<_>>();
        for d in &distinct {
            let wanted = make(d);
            let held: Vec<_> = indexed.instruments().iter().filter(|k| k.value.exchange.value == wanted.exchange && k.value.name_exchange == wanted.name_exchange && k.value.name_internal == wanted.name_internal).map(|k| k.key).collect();
            if held.len() != 1 {
                let times = defs.iter().filter(|e| *e == d).count();
                self.rep(L_ONE_INDEX, format!("{cfg}; definition {} (given {times}x)", show(d)), format!("indices {held:?}; indexed instruments {:?}", listing()), "exactly one InstrumentIndex".into());
            }
        }
        if indexed.instruments().len() != distinct.len() {
            self.rep(L_ONE_INDEX, cfg.to_string(), format!("{} indexed instruments {:?}", indexed.instruments().len(), listing()), format!("{} (one per distinct definition)", distinct.len()));
        }
        let mut exchanges: Vec<ExchangeId> = vec![];
        let mut assets: Vec<(ExchangeId, &str)> = vec![];
        for d in &distinct {
            if !exchanges.contains(&EXCHANGES[d.0]) { exchanges.push(EXCHANGES[d.0]); }
            for a in [PAIRS[d.1].0, PAIRS[d.1].1] { if !assets.contains(&(EXCHANGES[d.0], a)) { assets.push((EXCHANGES[d.0], a)); } }
        }
        for e in &exchanges {
            let held: Vec<_> = indexed.exchanges().iter().filter(|k| k.value == *e).map(|k| k.key).collect();
            if held.len() != 1 { self.rep(L_ONE_INDEX, format!("{cfg}; exchange {e}"), format!("indices {held:?}; indexed exchanges {:?}", indexed.exchanges()), "exactly one ExchangeIndex".into()); }
        }
        for (e, a) in &assets {
            let held: Vec<_> = indexed.assets().iter().filter(|k| k.value.exchange == *e && k.value.asset.name_exchange.as_ref() == *a).map(|k| k.key).collect();
            if held.len() != 1 { self.rep(L_ONE_INDEX, format!("{cfg}; asset {a} of {e}"), format!("indices {held:?}; indexed assets {:?}", indexed.assets().iter().map(|k| format!("{:?}={}:{}", k.key, k.value.exchange.as_str(), k.value.asset.name_exchange)).collect::<Vec<_>>()), "exactly one AssetIndex".into()); }
        }
        if indexed.exchanges().len() != exchanges.len() || indexed.assets().len() != assets.len() {
            self.rep(L_ONE_INDEX, cfg.to_string(), format!("{} indexed exchanges, {} indexed assets", indexed.exchanges().len(), indexed.assets().len()), format!("{} exchanges, {} exchange assets (one index per distinct one)", exchanges.len(), assets.len()));
        }
    }

    fn round_trips(&mut self, indexed: &IndexedInstruments, cfg: &str) {
        for ex in indexed.exchanges() {
            let Ok(map) = generate_execution_instrument_map(indexed, ex.value) else {
                self.rep("C04.bounded.map_builds", cfg.to_string(), format!("no map for {}", ex.value), "map".into());
                continue;
            };
            self.n += 1;
            let indexer = AccountEventIndexer::new(Arc::new(map.clone()));
            // instruments: index -> name translates exactly this exchange's instruments, to their own exchange name, and back
            for ki in indexed.instruments() {
                let own = ki.value.exchange.value == ex.value;
                let got = map.find_instrument_name_exchange(ki.key);
                match (own, &got) {
                    (true, Ok(name)) => {
                        if **name != ki.value.name_exchange {
                            self.rep("C04.map.instrument_name.keyed_not_positional", format!("{cfg}; map of {}; index {:?}", ex.value, ki.key), format!("{name}"), format!("{}", ki.value.name_exchange));
                        }
                        match map.find_instrument_index(name) {
                            Ok(back) if back == ki.key => {}
                            other => self.rep("C04.bounded.instrument_round_trip", format!("{cfg}; map of {}; index {:?} -> {name}", ex.value, ki.key), format!("{other:?}"), format!("{:?}", ki.key)),
                        }
                    }
                    (true, Err(e)) => self.rep("C04.map.instrument_name.only_indices_of_this_exchange", format!("{cfg}; map of {}; OWN index {:?}", ex.value, ki.key), format!("Err({e})"), "Ok(own name)".into()),
                    (false, Ok(name)) => self.rep("C04.map.instrument_name.only_indices_of_this_exchange", format!("{cfg}; map of {}; FOREIGN index {:?}", ex.value, ki.key), format!("Ok({name})"), "Err".into()),
                    (false, Err(_)) => {}
                }
                // outbound request addressing through the real indexer
                let req = OrderEvent { key: OrderKey { exchange: ki.value.exchange.key, instrument: ki.key, strategy: StrategyId::new("s"), cid: ClientOrderId::new("c") }, state: () };
                match (own, indexer.order_request(&req)) {
                    (true, Ok(out)) => if out.key.exchange != ex.value || *out.key.instrument != ki.value.name_exchange {
                        self.rep("C04.indexer.order_request.addressed_to_named_instrument", format!("{cfg}; request for {:?}", ki.key), format!("{:?}", out.key), format!("{} {}", ex.value, ki.value.name_exchange));
                    },
                    (true, Err(e)) => self.rep("C04.indexer.order_request.ok_iff_own", format!("{cfg}; map of {}; request for OWN {:?}", ex.value, ki.key), format!("Err({e})"), "Ok".into()),
                    (false, Ok(out)) => self.rep("C04.indexer.order_request.ok_iff_own", format!("{cfg}; map of {}; request for FOREIGN {:?}", ex.value, ki.key), format!("Ok({:?})", out.key), "Err".into()),
                    (false, Err(_)) => {}
                }
            }
            // assets
            for ka in indexed.assets() {
                let own = ka.value.exchange == ex.value;
                match (own, map.find_asset_name_exchange(ka.key)) {
                    (true, Ok(name)) => {
                        if *name != ka.value.asset.name_exchange {
                            self.rep("C04.map.asset_name.keyed_not_positional", format!("{cfg}; map of {}; asset {:?}", ex.value, ka.key), format!("{name}"), format!("{}", ka.value.asset.name_exchange));
                        }
                        match map.find_asset_index(name) {
                            Ok(back) if back == ka.key => {}
                            other => self.rep("C04.bounded.asset_round_trip", format!("{cfg}; map of {}; asset {:?} -> {name}", ex.value, ka.key), format!("{other:?}"), format!("{:?}", ka.key)),
                        }
                    }
                    (true, Err(e)) => self.rep("C04.map.asset_name.only_indices_of_this_exchange", format!("{cfg}; map of {}; OWN asset {:?}", ex.value, ka.key), format!("Err({e})"), "Ok".into()),
                    (false, Ok(name)) => self.rep("C04.map.asset_name.only_indices_of_this_exchange", format!("{cfg}; map of {}; FOREIGN asset {:?}", ex.value, ka.key), format!("Ok({name})"), "Err".into()),
                    (false, Err(_)) => {}
                }
            }
        }
    }
}

pub fn run(seed: u64, thorough: bool) -> u64 {
    let (max_ex, max_instr) = if thorough { (3usize, 5usize) } else { (3usize, 4usize) };
    let mut ck = Checker { seen: HashSet::new(), n: 0 };
    // choices per instrument slot: (exchange, pair)
    let choices: Vec<Def> = (0..max_ex).flat_map(|e| (0..PAIRS.len()).map(move |p| (e, p))).collect();

    // ---- every tuple of definitions, repeated definitions included (a repeat next to its twin, or with definitions of the same /
    // of other exchanges in between); short tuples through both entry points, longer ones alternate
    for len in 1..=max_instr {
        let total = choices.len().pow(len as u32);
        for code in 0..total {
            let mut c = code;
            let mut defs = vec![];
            for _ in 0..len { defs.push(choices[c % choices.len()]); c /= choices.len(); }
            let lists = [defs];
            if len <= 3 {
                ck.collection(&lists, Entry::New);
                ck.collection(&lists, Entry::Builder);
                PLAIN_NAMES.store(true, std::sync::atomic::Ordering::Relaxed);
                ck.collection(&lists, Entry::New);
                ck.collection(&lists, Entry::Builder);
                PLAIN_NAMES.store(false, std::sync::atomic::Ordering::Relaxed);
            } else {
                ck.collection(&lists, if (code / choices.len() + code) % 2 == 0 { Entry::New } else { Entry::Builder });
            }
        }
    }

    // ---- whole lists merged with themselves: in the same order, reversed, rotated, interleaved with a second copy
    let all = choices.clone();
    let reversed: Vec<Def> = all.iter().rev().copied().collect();
    let by_pair: Vec<Def> = (0..PAIRS.len()).flat_map(|p| (0..max_ex).rev().map(move |e| (e, p))).collect();
    for entry in [Entry::New, Entry::Builder] {
        ck.collection(&[all.clone(), all.clone()], entry);
        ck.collection(&[all.clone(), reversed.clone()], entry);
        ck.collection(&[reversed.clone(), all.clone(), by_pair.clone()], entry);
        ck.collection(&[by_pair.clone(), all.clone()], entry);
        for k in 1..all.len() {
            let mut rotated = all.clone();
            rotated.rotate_left(k);
            ck.collection(&[all.clone(), rotated.clone()], entry);
            ck.collection(&[rotated, by_pair.clone()], entry);
        }
        let doubled: Vec<Def> = all.iter().flat_map(|d| [*d, *d]).collect();
        ck.collection(&[doubled], entry);
        let interleaved: Vec<Def> = all.iter().zip(reversed.iter()).flat_map(|(a, b)| [*a, *b]).collect();
        ck.collection(&[interleaved], entry);
    }

    // ---- seeded random: two or three overlapping instrument lists (strategies / configuration files) merged
    let mut rng = Rng::seeded(seed, 4);
    for _ in 0..if thorough { 60_000 } else { 4_000 } {
        let n_lists = 2 + rng.below(2) as usize;
        let n_ex = 1 + rng.below(max_ex as u64) as usize;
        let pool: Vec<Def> = choices.iter().filter(|d| d.0 < n_ex).copied().collect();
        let mut lists: Vec<Vec<Def>> = vec![];
        for _ in 0..n_lists {
            let len = 1 + rng.below(5) as usize;
            let mut list: Vec<Def> = (0..len).map(|_| pool[rng.below(pool.len() as u64) as usize]).collect();
            // make sure something of an earlier list comes again, at a random place
            if let Some(earlier) = lists.last() {
                if rng.chance(3, 4) {
                    let again = earlier[rng.below(earlier.len() as u64) as usize];
                    list.insert(rng.below(list.len() as u64 + 1) as usize, again);
                }
            }
            lists.push(list);
        }
        ck.collection(&lists, Entry::New);
        ck.collection(&lists, Entry::Builder);
    }
    ck.n
}
