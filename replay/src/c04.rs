//! C04 BOUNDED stand-in (never counted as proved): the constructors `IndexedInstruments::new` and
//! `generate_execution_instrument_map` are iterator pipelines out of the verifier's reach. Here every assignment of
//! up to `max_instr` spot instruments over up to `max_ex` exchanges (base/quote names from a pool with shared names, every
//! definition order being a different tuple) is built with the REAL constructors, and the executable rendering of the map
//! well-formedness + the look-up contracts is evaluated for every exchange's map and every global index / name.
use crate::report;
use barter_execution::{
    indexer::AccountEventIndexer,
    map::generate_execution_instrument_map,
    order::{OrderEvent, OrderKey, id::{ClientOrderId, StrategyId}},
};
use barter_instrument::{
    Underlying, asset::Asset, exchange::ExchangeId, index::IndexedInstruments, instrument::Instrument,
};
use std::{collections::HashSet, sync::Arc};

const EXCHANGES: [ExchangeId; 3] = [ExchangeId::BinanceSpot, ExchangeId::Kraken, ExchangeId::Coinbase];
const PAIRS: [(&str, &str); 4] = [("btc", "usdt"), ("eth", "usdt"), ("eth", "btc"), ("sol", "usd")];

fn instrument(ex: ExchangeId, base: &str, quote: &str) -> Instrument<ExchangeId, Asset> {
    Instrument::spot(ex, format!("{}-{base}_{quote}", ex.as_str()), format!("{}{}", base.to_uppercase(), quote.to_uppercase()),
                     Underlying::new(Asset::from(base), Asset::from(quote)), None)
}

pub fn run(seed: u64, thorough: bool) -> u64 {
    let (max_ex, max_instr) = if thorough { (3usize, 5usize) } else { (3usize, 4usize) };
    let mut n = 0u64;
    let mut seen: HashSet<&'static str> = HashSet::new();
    let mut rep = |label: &'static str, input: String, observed: String, expected: String| { if seen.insert(label) { report(label, input, observed, expected); } };
    // choices per instrument slot: (exchange, pair)
    let choices: Vec<(usize, usize)> = (0..max_ex).flat_map(|e| (0..PAIRS.len()).map(move |p| (e, p))).collect();
    let _ = seed;
    for len in 1..=max_instr {
        let total = choices.len().pow(len as u32);
        for code in 0..total {
            let mut c = code;
            let mut defs = vec![];
            for _ in 0..len { defs.push(choices[c % choices.len()]); c /= choices.len(); }
            // skip tuples with a repeated definition (IndexedInstruments dedups them; covered by other tuples)
            let set: HashSet<_> = defs.iter().collect();
            if set.len() != defs.len() { continue; }
            let instruments: Vec<_> = defs.iter().map(|(e, p)| instrument(EXCHANGES[*e], PAIRS[*p].0, PAIRS[*p].1)).collect();
            let indexed = IndexedInstruments::new(instruments);
            let cfg = format!("instruments (definition order): {:?}", defs.iter().map(|(e, p)| format!("{}:{}/{}", EXCHANGES[*e].as_str(), PAIRS[*p].0, PAIRS[*p].1)).collect::<Vec<_>>());
            for ex in indexed.exchanges() {
                let Ok(map) = generate_execution_instrument_map(&indexed, ex.value) else {
                    rep("C04.bounded.map_builds", cfg.clone(), format!("no map for {}", ex.value), "map".into());
                    continue;
                };
                n += 1;
                // instruments: index -> name translates exactly this exchange's instruments, to their own exchange name, and back
                for ki in indexed.instruments() {
                    let own = ki.value.exchange.value == ex.value;
                    let got = map.find_instrument_name_exchange(ki.key);
                    match (own, &got) {
                        (true, Ok(name)) => {
                            if **name != ki.value.name_exchange {
                                rep("C04.map.instrument_name.keyed_not_positional", format!("{cfg}; map of {}; index {:?}", ex.value, ki.key), format!("{name}"), format!("{}", ki.value.name_exchange));
                            }
                            match map.find_instrument_index(name) {
                                Ok(back) if back == ki.key => {}
                                other => rep("C04.bounded.instrument_round_trip", format!("{cfg}; map of {}; index {:?} -> {name}", ex.value, ki.key), format!("{other:?}"), format!("{:?}", ki.key)),
                            }
                        }
                        (true, Err(e)) => rep("C04.map.instrument_name.only_indices_of_this_exchange", format!("{cfg}; map of {}; OWN index {:?}", ex.value, ki.key), format!("Err({e})"), "Ok(own name)".into()),
                        (false, Ok(name)) => rep("C04.map.instrument_name.only_indices_of_this_exchange", format!("{cfg}; map of {}; FOREIGN index {:?}", ex.value, ki.key), format!("Ok({name})"), "Err".into()),
                        (false, Err(_)) => {}
                    }
                    // outbound request addressing through the real indexer
                    let indexer = AccountEventIndexer::new(Arc::new(map.clone()));
                    let req = OrderEvent { key: OrderKey { exchange: ki.value.exchange.key, instrument: ki.key, strategy: StrategyId::new("s"), cid: ClientOrderId::new("c") }, state: () };
                    match (own, indexer.order_request(&req)) {
                        (true, Ok(out)) => if out.key.exchange != ex.value || *out.key.instrument != ki.value.name_exchange {
                            rep("C04.indexer.order_request.addressed_to_named_instrument", format!("{cfg}; request for {:?}", ki.key), format!("{:?}", out.key), format!("{} {}", ex.value, ki.value.name_exchange));
                        },
                        (true, Err(e)) => rep("C04.indexer.order_request.ok_iff_own", format!("{cfg}; map of {}; request for OWN {:?}", ex.value, ki.key), format!("Err({e})"), "Ok".into()),
                        (false, Ok(out)) => rep("C04.indexer.order_request.ok_iff_own", format!("{cfg}; map of {}; request for FOREIGN {:?}", ex.value, ki.key), format!("Ok({:?})", out.key), "Err".into()),
                        (false, Err(_)) => {}
                    }
                }
                // assets
                for ka in indexed.assets() {
                    let own = ka.value.exchange == ex.value;
                    match (own, map.find_asset_name_exchange(ka.key)) {
                        (true, Ok(name)) => {
                            if *name != ka.value.asset.name_exchange {
                                rep("C04.map.asset_name.keyed_not_positional", format!("{cfg}; map of {}; asset {:?}", ex.value, ka.key), format!("{name}"), format!("{}", ka.value.asset.name_exchange));
                            }
                            match map.find_asset_index(name) {
                                Ok(back) if back == ka.key => {}
                                other => rep("C04.bounded.asset_round_trip", format!("{cfg}; map of {}; asset {:?} -> {name}", ex.value, ka.key), format!("{other:?}"), format!("{:?}", ka.key)),
                            }
                        }
                        (true, Err(e)) => rep("C04.map.asset_name.only_indices_of_this_exchange", format!("{cfg}; map of {}; OWN asset {:?}", ex.value, ka.key), format!("Err({e})"), "Ok".into()),
                        (false, Ok(name)) => rep("C04.map.asset_name.only_indices_of_this_exchange", format!("{cfg}; map of {}; FOREIGN asset {:?}", ex.value, ka.key), format!("Ok({name})"), "Err".into()),
                        (false, Err(_)) => {}
                    }
                }
            }
        }
    }
    n
}
