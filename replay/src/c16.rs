//! C16 witness search / bounded stand-in: histories of closed positions (`PositionExited`, most of them produced by the REAL
//! `PositionManager` from an entry and an exit fill, some constructed directly) through the REAL `TearSheetGenerator` and
//! `TradingSummaryGenerator`, compared on EVERY prefix with an independent model that keeps the whole history.
//!
//! Documented definitions followed (summary/pnl.rs, summary/instrument.rs, metric/win_rate.rs, metric/profit_factor.rs):
//!  * return of a closed position = pnl_realised / (price_entry_average * quantity_abs_max); a position is a LOSS iff its return is
//!    negative, so a break-even position (return 0) is not a loss;
//!  * pnl_sum        tear sheet pnl == sum of pnl_realised (exact)
//!  * win_rate       None without positions, else (number of positions whose return is not negative) / (number of positions)
//!  * profit_factor  gross winning returns / |gross losing returns|; None when both are zero (no positions, or break-even only),
//!                   Decimal::MAX when there are wins but no losses, Decimal::MIN when there are losses but no wins
//!  * summary_per_instrument  every instrument's generator inside a TradingSummaryGenerator is in exactly the state of a stand-alone
//!                   TearSheetGenerator fed that instrument's positions in arrival order - whatever the exit times of the OTHER
//!                   instruments were (ties, out-of-order exits, update_time_now in between), addressed by index or by name; the
//!                   generated summary carries those tear sheets and time_engine_end = the summary clock (set by update_time_now,
//!                   advanced - never moved back - by a later exit time)
//! Tolerance: returns, win rate and profit factor divide: |diff| <= 1e-12 * (1 + |expected|); pnl and generator states exact.
use crate::{report, rng::Rng};
use barter::{
    engine::state::position::{PositionExited, PositionManager},
    statistic::{
        summary::{TradingSummaryGenerator, instrument::{TearSheet, TearSheetGenerator}},
        time::Daily,
    },
};
use barter_execution::{
    order::id::{OrderId, StrategyId},
    trade::{AssetFees, Trade, TradeId},
};
use barter_instrument::{Side, asset::QuoteAsset, instrument::{InstrumentIndex, name::InstrumentNameInternal}};
use barter_integration::collection::FnvIndexMap;
use chrono::{DateTime, TimeDelta, Utc};
use rust_decimal::Decimal;
use rust_decimal_macros::dec;
use std::collections::HashSet;

const L_PNL: &str = "C16.bounded.pnl_sum";
const L_WIN: &str = "C16.bounded.win_rate";
const L_PF: &str = "C16.bounded.profit_factor";
const L_SUM: &str = "C16.bounded.summary_per_instrument";

type Exited = PositionExited<QuoteAsset, InstrumentIndex>;
fn near(a: Decimal, b: Decimal) -> bool {
    // Decimal::MAX / MIN (the documented 'no losses' / 'no wins' profit factors) only equal themselves
    a == b || (a.abs() < dec!(1000000000000) && b.abs() < dec!(1000000000000) && (a - b).abs() <= dec!(0.000000000001) * (Decimal::ONE + b.abs()))
}
fn day(k: i64) -> DateTime<Utc> { DateTime::<Utc>::from_timestamp(1_704_067_200, 0).unwrap() + TimeDelta::days(k) }

/// (long, entry price, exit price, quantity, fee per fill)
type Shape = (bool, Decimal, Decimal, Decimal, Decimal);
/// a closed position out of the REAL PositionManager: entry fill one hour before the exit fill
fn closed(instrument: usize, shape: Shape, t_exit: DateTime<Utc>) -> Exited {
    let (long, entry, exit, qty, fee) = shape;
    let fill = |side: Side, price: Decimal, t: DateTime<Utc>, id: &str| Trade {
        id: TradeId::new(id), order_id: OrderId::new("o"), instrument: InstrumentIndex(instrument), strategy: StrategyId::new("s"),
        time_exchange: t, side, price, quantity: qty, fees: AssetFees { asset: QuoteAsset, fees: fee },
    };
    let (open, close) = if long { (Side::Buy, Side::Sell) } else { (Side::Sell, Side::Buy) };
    let mut m: PositionManager = PositionManager::default();
    m.update_from_trade(&fill(open, entry, t_exit - TimeDelta::hours(1), "in"));
    m.update_from_trade(&fill(close, exit, t_exit, "out")).expect("an opposite fill of the same quantity closes the position")
}
fn direct(instrument: usize, pnl: Decimal, entry: Decimal, qty: Decimal, t_exit: DateTime<Utc>) -> Exited {
    PositionExited {
        instrument: InstrumentIndex(instrument), side: Side::Buy, price_entry_average: entry, quantity_abs_max: qty, pnl_realised: pnl,
        fees_enter: AssetFees { asset: QuoteAsset, fees: dec!(0) }, fees_exit: AssetFees { asset: QuoteAsset, fees: dec!(0) },
        time_enter: t_exit - TimeDelta::hours(1), time_exit: t_exit, trades: vec![],
    }
}
fn by_name(p: &Exited, names: &[InstrumentNameInternal]) -> PositionExited<QuoteAsset, InstrumentNameInternal> {
    PositionExited {
        instrument: names[p.instrument.index()].clone(), side: p.side, price_entry_average: p.price_entry_average, quantity_abs_max: p.quantity_abs_max,
        pnl_realised: p.pnl_realised, fees_enter: p.fees_enter.clone(), fees_exit: p.fees_exit.clone(), time_enter: p.time_enter, time_exit: p.time_exit, trades: p.trades.clone(),
    }
}
fn show(h: &[&Exited]) -> String {
    h.iter().map(|p| format!("[instrument {} pnl {} entry {} x {} exit {}]", p.instrument.index(), p.pnl_realised, p.price_entry_average, p.quantity_abs_max, p.time_exit.format("%m-%d %H:%M"))).collect::<Vec<_>>().join(" ")
}

/// the model: pnl, win rate, profit factor of a whole history
struct Expect { pnl: Decimal, win_rate: Option<Decimal>, profit_factor: Option<Decimal>, wins: usize, profits: Decimal, losses: Decimal }
fn expect(h: &[&Exited]) -> Expect {
    let returns: Vec<Decimal> = h.iter().map(|p| p.pnl_realised / (p.price_entry_average * p.quantity_abs_max)).collect();
    let wins = returns.iter().filter(|r| **r >= Decimal::ZERO).count();
    let profits: Decimal = returns.iter().filter(|r| **r > Decimal::ZERO).copied().sum();
    let losses: Decimal = returns.iter().filter(|r| **r < Decimal::ZERO).map(|r| r.abs()).sum();
    Expect {
        pnl: h.iter().map(|p| p.pnl_realised).sum(),
        win_rate: (!h.is_empty()).then(|| Decimal::from(wins as u64) / Decimal::from(h.len() as u64)),
        profit_factor: if profits.is_zero() && losses.is_zero() { None } else if losses.is_zero() { Some(Decimal::MAX) } else if profits.is_zero() { Some(Decimal::MIN) } else { Some(profits / losses) },
        wins, profits, losses,
    }
}
type Fail = (&'static str, String, String);
fn opt_near(a: Option<Decimal>, b: Option<Decimal>) -> bool { match (a, b) { (None, None) => true, (Some(a), Some(b)) => near(a, b), _ => false } }
fn check_sheet(sheet: &TearSheet<Daily>, h: &[&Exited], out: &mut Vec<Fail>) {
    let e = expect(h);
    if sheet.pnl != e.pnl { out.push((L_PNL, format!("tear sheet pnl {}", sheet.pnl), format!("sum of pnl_realised = {}", e.pnl))); }
    let wr = sheet.win_rate.as_ref().map(|w| w.value);
    if !opt_near(wr, e.win_rate) { out.push((L_WIN, format!("win rate {wr:?}"), format!("{} of {} positions have a return that is not negative: {:?}", e.wins, h.len(), e.win_rate))); }
    let pf = sheet.profit_factor.as_ref().map(|w| w.value);
    if !opt_near(pf, e.profit_factor) { out.push((L_PF, format!("profit factor {pf:?}"), format!("gross winning returns {} / gross losing returns {} -> {:?} (None: both zero, MAX: no losses, MIN: no wins)", e.profits, e.losses, e.profit_factor))); }
}

struct Search { seen: HashSet<&'static str>, n: u64 }
impl Search {
    fn fails(&mut self, fails: &[Fail], what: impl Fn() -> String) {
        for (label, obs, exp) in fails { if self.seen.insert(*label) { report(label, what(), obs.clone(), exp.clone()); } }
    }
    /// one instrument: every history over `shapes` up to `depth`, exits one day apart
    fn dfs_sheet(&mut self, shapes: &[Exited], depth: usize, g: &TearSheetGenerator, h: &mut Vec<Exited>) {
        if h.len() == depth { return; }
        for s in shapes {
            let mut p = s.clone();
            p.time_exit = day(1 + h.len() as i64); p.time_enter = p.time_exit - TimeDelta::hours(1);
            let mut g2 = g.clone();
            g2.update_from_position(&p);
            h.push(p);
            let ok = self.sheet_of(&g2, h);
            if ok { self.dfs_sheet(shapes, depth, &g2, h); }
            h.pop();
        }
    }
    fn sheet_of(&mut self, g: &TearSheetGenerator, h: &[Exited]) -> bool {
        let sheet = g.clone().generate(Decimal::ZERO, Daily);
        let refs: Vec<&Exited> = h.iter().collect();
        let mut out = vec![];
        check_sheet(&sheet, &refs, &mut out);
        self.n += 1;
        self.fails(&out, || format!("TearSheetGenerator fed the closed positions {}", show(&refs)));
        out.is_empty()
    }
    fn history(&mut self, h: &[Exited]) {
        let mut g = TearSheetGenerator::init(day(0));
        if !self.sheet_of(&g, &[]) { return; }
        for k in 0..h.len() {
            g.update_from_position(&h[k]);
            if !self.sheet_of(&g, &h[..=k]) { return; }
        }
    }
}

/// a step of a trading-summary history
#[derive(Clone, Debug)]
enum Ev { Pos(Exited), TimeNow(DateTime<Utc>) }
struct Summary { by_index: TradingSummaryGenerator, by_name: TradingSummaryGenerator, alone: Vec<TearSheetGenerator>, own: Vec<Vec<Exited>>, clock: DateTime<Utc>, names: Vec<InstrumentNameInternal>, trace: Vec<Ev> }
impl Clone for Summary {
    fn clone(&self) -> Self { Summary { by_index: self.by_index.clone(), by_name: self.by_name.clone(), alone: self.alone.clone(), own: self.own.clone(), clock: self.clock, names: self.names.clone(), trace: self.trace.clone() } }
}
impl Summary {
    fn new(n: usize) -> Self {
        let names: Vec<InstrumentNameInternal> = (0..n).map(|i| InstrumentNameInternal::new(format!("venue{i}_btc_usdt"))).collect();
        let instruments: FnvIndexMap<InstrumentNameInternal, TearSheetGenerator> = names.iter().map(|name| (name.clone(), TearSheetGenerator::init(day(0)))).collect();
        let g = TradingSummaryGenerator::new(Decimal::ZERO, day(0), day(0), instruments, FnvIndexMap::default());
        Summary { by_index: g.clone(), by_name: g, alone: vec![TearSheetGenerator::init(day(0)); n], own: vec![vec![]; n], clock: day(0), names, trace: vec![] }
    }
    fn step(&mut self, ev: &Ev) -> Vec<Fail> {
        self.trace.push(ev.clone());
        match ev {
            Ev::TimeNow(t) => { self.by_index.update_time_now(*t); self.by_name.update_time_now(*t); self.clock = *t; }
            Ev::Pos(p) => {
                self.by_index.update_from_position(p);
                self.by_name.update_from_position(&by_name(p, &self.names));
                let i = p.instrument.index();
                self.alone[i].update_from_position(p);
                self.own[i].push(p.clone());
                if self.clock < p.time_exit { self.clock = p.time_exit; }
            }
        }
        let mut out: Vec<Fail> = vec![];
        for (how, g) in [("by index", &self.by_index), ("by name", &self.by_name)] {
            let generated = g.clone().generate(Daily);
            if generated.time_engine_end != self.clock || generated.time_engine_start != day(0) || generated.instruments.len() != self.names.len() {
                out.push((L_SUM, format!("summary ({how}): {} instruments, start {} end {}", generated.instruments.len(), generated.time_engine_start, generated.time_engine_end), format!("{} instruments, start {} end {}", self.names.len(), day(0), self.clock)));
            }
            for i in 0..self.names.len() {
                let refs: Vec<&Exited> = self.own[i].iter().collect();
                match g.instruments.get_index(i) {
                    Some((name, inner)) if *name == self.names[i] && *inner == self.alone[i] => {}
                    other => {
                        let e = expect(&refs);
                        out.push((L_SUM, format!("summary ({how}): generator of instrument {i} = {:?}", other.map(|(name, g)| (name.0.as_str(), g.pnl_returns.pnl_raw, g.pnl_returns.total.count, g.pnl_returns.losses.count, g.time_engine_now))),
                            format!("the state of a TearSheetGenerator fed exactly its own positions {}: pnl {} from {} positions, {} losses, now {}", show(&refs), e.pnl, refs.len(), refs.len() - e.wins, self.alone[i].time_engine_now)));
                        continue;
                    }
                }
                if let Some((_, sheet)) = generated.instruments.get_index(i) {
                    let before = out.len();
                    check_sheet(sheet, &refs, &mut out);
                    // a wrong figure in a summary's tear sheet is a summary failure as well
                    if out.len() > before { out.push((L_SUM, format!("summary ({how}): tear sheet of instrument {i}: pnl {} win rate {:?} profit factor {:?}", sheet.pnl, sheet.win_rate, sheet.profit_factor), format!("the figures of its own positions {}", show(&refs)))); }
                }
            }
            if !out.is_empty() { break; }
        }
        out
    }
    fn show(&self) -> String {
        self.trace.iter().map(|e| match e { Ev::TimeNow(t) => format!("update_time_now({})", t.format("%m-%d %H:%M")), Ev::Pos(p) => format!("position{}", show(&[p])) }).collect::<Vec<_>>().join(" ; ")
    }
}
impl Search {
    fn summary_step(&mut self, s: &mut Summary, ev: &Ev) -> bool {
        let fails = s.step(ev);
        self.n += 1;
        self.fails(&fails, || format!("TradingSummaryGenerator over {} instruments (start = now = 01-01 00:00): {}", s.names.len(), s.show()));
        fails.is_empty()
    }
    fn summary_events(&mut self, n: usize, evs: &[Ev]) {
        let mut s = Summary::new(n);
        for ev in evs { if !self.summary_step(&mut s, ev) { return; } }
    }
    /// every history over (instrument, shape, exit time relative to the latest exit: tie / later / earlier) up to `depth`
    fn dfs_summary(&mut self, shapes: &[Shape], depth: usize, s: &Summary, last_day: i64, len: usize) {
        if len == depth { return; }
        for i in 0..s.names.len() {
            for shape in shapes {
                for rel in [0i64, 1, -1] {
                    let d = last_day + rel;
                    if d < 1 { continue; }
                    let mut s2 = s.clone();
                    if self.summary_step(&mut s2, &Ev::Pos(closed(i, *shape, day(d)))) { self.dfs_summary(shapes, depth, &s2, d.max(last_day), len + 1); }
                }
            }
        }
    }
}

pub fn run(seed: u64, thorough: bool) -> u64 {
    let mut s = Search { seen: HashSet::new(), n: 0 };
    // shapes through the real PositionManager: wins, losses, break-even after fees (long) and flat (short), different sizes / entry prices
    let shapes: [Shape; 7] = [
        (true, dec!(100), dec!(110), dec!(1), dec!(0)),     // +10   return +0.1
        (true, dec!(100), dec!(115), dec!(2), dec!(0)),     // +30   return +0.15
        (true, dec!(50), dec!(52), dec!(1), dec!(1)),       // 0     break-even after 1 + 1 fees
        (false, dec!(100), dec!(110), dec!(1), dec!(0)),    // -10   return -0.1
        (true, dec!(50), dec!(30), dec!(1), dec!(0)),       // -20   return -0.4
        (false, dec!(100), dec!(100), dec!(2), dec!(0)),    // 0     break-even short
        (true, dec!(50), dec!(55), dec!(2), dec!(2.5)),     // +5    return +0.05
    ];
    let made: Vec<Exited> = shapes.iter().map(|sh| closed(0, *sh, day(1))).collect();
    // crafted: the witness of the fixed defect (+0.1 +0.2 +0.3 -0.1), only wins, only losses, only break-even, a single position of each kind
    let d = |pnls: &[i64]| -> Vec<Exited> { pnls.iter().enumerate().map(|(k, p)| direct(0, Decimal::from(*p), dec!(100), dec!(1), day(1 + k as i64))).collect() };
    for h in [d(&[10, 20, 30, -10]), d(&[10, 20, 30]), d(&[-10, -20, -30]), d(&[0, 0, 0]), d(&[0]), d(&[10]), d(&[-10]), d(&[0, -10]), d(&[0, 10]), d(&[10, 0, -10, 0, 10]), d(&[-10, 0, 0, 0])] { s.history(&h); }
    s.dfs_sheet(&made, if thorough { 6 } else { 5 }, &TearSheetGenerator::init(day(0)), &mut vec![]);

    // trading summary, crafted: ties in exit time across two instruments, out-of-order exits, update_time_now at / after the exit
    let (win, loss, even) = (shapes[0], shapes[3], shapes[2]);
    for (a, b) in [(win, loss), (loss, win), (even, win), (win, even), (loss, even)] {
        s.summary_events(2, &[Ev::Pos(closed(0, a, day(1))), Ev::Pos(closed(1, b, day(1)))]);
        s.summary_events(2, &[Ev::Pos(closed(0, a, day(2))), Ev::Pos(closed(1, b, day(1))), Ev::Pos(closed(0, b, day(3))), Ev::Pos(closed(1, a, day(3)))]);
        s.summary_events(2, &[Ev::TimeNow(day(1)), Ev::Pos(closed(0, a, day(1))), Ev::TimeNow(day(5)), Ev::Pos(closed(1, b, day(2))), Ev::Pos(closed(0, b, day(6)))]);
        s.summary_events(3, &[Ev::Pos(closed(2, a, day(4))), Ev::Pos(closed(0, b, day(4))), Ev::Pos(closed(1, a, day(3))), Ev::TimeNow(day(2)), Ev::Pos(closed(1, b, day(2)))]);
        s.summary_events(1, &[Ev::Pos(closed(0, a, day(1))), Ev::Pos(closed(0, b, day(1))), Ev::Pos(closed(0, a, day(1)))]);
    }
    s.dfs_summary(&[win, loss, even], if thorough { 4 } else { 3 }, &Summary::new(2), 1, 0);

    // seeded random: longer histories over 3 instruments, random shapes / direct positions, random exit days (ties, out of order), clock updates
    let mut rng = Rng::seeded(seed, 0xC16);
    for _ in 0..(if thorough { 20_000 } else { 1_500 }) {
        let len = 4 + rng.below(9) as usize;
        let n = 1 + rng.below(3) as usize;
        let mut evs = vec![];
        for _ in 0..len {
            let t = day(1 + rng.below(6) as i64) + TimeDelta::hours(rng.below(2) as i64 * 12);
            if rng.chance(1, 8) { evs.push(Ev::TimeNow(t)); continue; }
            let i = rng.below(n as u64) as usize;
            evs.push(Ev::Pos(if rng.chance(2, 3) { closed(i, shapes[rng.below(7) as usize], t) } else {
                direct(i, Decimal::new(rng.below(41) as i64 - 20, 1), [dec!(100), dec!(0.5), dec!(2500)][rng.below(3) as usize], [dec!(1), dec!(0.01), dec!(3)][rng.below(3) as usize], t)
            }));
        }
        s.summary_events(n, &evs);
        // the same positions as one instrument's history (arrival order)
        let h: Vec<Exited> = evs.iter().filter_map(|e| match e { Ev::Pos(p) => Some(p.clone()), _ => None }).collect();
        s.history(&h);
    }
    s.n
}
