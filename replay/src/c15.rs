//! C15 witness search: fills and priced market events through the real PositionManager / Position on the real code.
use crate::report;
use barter::engine::state::position::{Position, PositionManager};
use barter_execution::{
    order::id::{OrderId, StrategyId},
    trade::{AssetFees, Trade, TradeId},
};
use barter_instrument::{Side, asset::QuoteAsset, instrument::InstrumentIndex};
use chrono::{DateTime, Utc};
use rust_decimal::Decimal;
use rust_decimal_macros::dec;
use std::collections::HashSet;

fn fill(side: Side, price: Decimal, qty: Decimal, fee: Decimal, k: i64) -> Trade<QuoteAsset, InstrumentIndex> {
    Trade {
        id: TradeId::new(format!("t{k}")), order_id: OrderId::new("o"), instrument: InstrumentIndex(0), strategy: StrategyId::new("s"),
        time_exchange: DateTime::<Utc>::from_timestamp(1_700_000_000 + k, 0).unwrap(), side, price, quantity: qty,
        fees: AssetFees { asset: QuoteAsset, fees: fee },
    }
}
/// the documented estimate: price move on the open quantity minus pro-rata estimated exit fees
fn estimate(p: &Position<QuoteAsset, InstrumentIndex>, price: Decimal) -> Decimal {
    let mv = match p.side { Side::Buy => (price - p.price_entry_average) * p.quantity_abs, Side::Sell => (p.price_entry_average - price) * p.quantity_abs };
    mv - (p.quantity_abs / p.quantity_abs_max) * p.fees_enter.fees
}
fn close(a: Decimal, b: Decimal) -> bool { (a - b).abs() < dec!(0.0000000001) }

pub fn run(_seed: u64) -> u64 {
    let mut n = 0;
    let mut seen: HashSet<&'static str> = HashSet::new();
    let sides = [Side::Buy, Side::Sell];
    let prices = [dec!(100), dec!(110)];
    let qtys = [dec!(1), dec!(2)];
    let fees = [dec!(0), dec!(1)];
    for s1 in sides { for p1 in prices { for q1 in qtys { for f1 in fees {
        // (1) opening fill from flat
        let mut m: PositionManager = PositionManager::default();
        let t1 = fill(s1, p1, q1, f1, 0);
        m.update_from_trade(&t1);
        n += 1;
        if let Some(pos) = &m.current {
            if !close(pos.pnl_unrealised, estimate(pos, p1)) && seen.insert("C15.opening_fill.unrealised_at_fill_price") {
                report("C15.opening_fill.unrealised_at_fill_price", format!("flat, then fill {s1:?} {q1} @ {p1} fee {f1}"),
                       format!("pnl_unrealised={}", pos.pnl_unrealised), format!("estimate at the fill price = {}", estimate(pos, p1)));
            }
        }
        // (2) second fill on the existing position
        for s2 in sides { for p2 in prices { for q2 in qtys { for f2 in fees {
            let mut m2 = m.clone();
            let before = m2.current.clone();
            let t2 = fill(s2, p2, q2, f2, 1);
            let closed = m2.update_from_trade(&t2);
            n += 1;
            if let (Some(pos), None, Some(_)) = (&m2.current, &closed, &before) {
                if !close(pos.pnl_unrealised, estimate(pos, p2)) && seen.insert("C15.manager.unrealised_at_fill_price") {
                    report("C15.manager.unrealised_at_fill_price", format!("position {before:?}; fill {s2:?} {q2} @ {p2} fee {f2}"),
                           format!("pnl_unrealised={}", pos.pnl_unrealised), format!("{}", estimate(pos, p2)));
                }
            }
            if let (Some(pos), Some(_)) = (&m2.current, &closed) {
                if !close(pos.pnl_unrealised, estimate(pos, p2)) && seen.insert("C15.opening_fill.unrealised_at_fill_price") {
                    report("C15.opening_fill.unrealised_at_fill_price", format!("flip: position {before:?}; fill {s2:?} {q2} @ {p2} fee {f2}"),
                           format!("pnl_unrealised={}", pos.pnl_unrealised), format!("{}", estimate(pos, p2)));
                }
            }
            // (3) re-mark at a market price
            if let Some(pos) = &mut m2.current {
                for px in [dec!(90), dec!(105)] {
                    pos.update_pnl_unrealised(px);
                    n += 1;
                    if !close(pos.pnl_unrealised, estimate(pos, px)) && seen.insert("C02.update_pnl_unrealised.estimate") {
                        report("C02.update_pnl_unrealised.estimate", format!("{pos:?} price {px}"), format!("{}", pos.pnl_unrealised), format!("{}", estimate(pos, px)));
                    }
                }
            }
        }}}}
    }}}}
    n
}
