//! C08 bounded checker, last clause: "account snapshots and trade queries reflect exactly the accepted orders".
//! Drives the REAL `MockExchange` (a) through its `run()` loop with OpenOrder / FetchTrades / FetchAccountSnapshot /
//! FetchBalances requests over the request channel, with advancing (and tying) request times under tokio's paused clock,
//! and (b) directly (`open_order` + `ack_trade` as `run()` does, then `AccountState::trades(time_since)` and
//! `account_snapshot()`), and compares with a ledger of the accepted orders.
//! Request times are also NON-MONOTONE (fills are stamped from the requesting client's clock: fills at t=5, t=10, then t=6): a trade
//! query returns exactly the fills with time_exchange >= time_since in the order they were made, whatever the order of their stamps.
use crate::{rng::Rng, report};
use barter_execution::{
    UnindexedAccountSnapshot,
    balance::{AssetBalance, Balance},
    client::mock::MockExecutionConfig,
    exchange::mock::{MockExchange, request::MockExchangeRequest},
    order::{
        OrderEvent, OrderKey, OrderKind, TimeInForce,
        id::{ClientOrderId, StrategyId},
        request::RequestOpen,
    },
    trade::Trade,
};
use barter_instrument::{
    Side, Underlying,
    asset::{QuoteAsset, name::AssetNameExchange},
    exchange::ExchangeId,
    instrument::{Instrument, name::InstrumentNameExchange},
};
use chrono::{DateTime, TimeDelta, Utc};
use fnv::FnvHashMap;
use rust_decimal::Decimal;
use rust_decimal_macros::dec;
use std::collections::HashSet;
use tokio::sync::{broadcast, mpsc, oneshot};

const L_INCLUSIVE: &str = "C08.bounded.trades_query_inclusive_at_fill_time";
const L_EXACT: &str = "C08.bounded.trades_query_exactly_the_accepted_fills";
const L_DIRECT: &str = "C08.bounded.trades_query_account_state";
/// the fills were not made in time_exchange order (fills are stamped from the REQUEST's clock: a second client / a lagging clock)
const L_OOO: &str = "C08.bounded.trades_query_out_of_order_times";
const L_CLIENT: &str = "C08.bounded.trades_query_through_the_client";
const L_SNAP_BAL: &str = "C08.bounded.snapshot_balances_equal_ledger";
const L_SNAP_ORD: &str = "C08.bounded.snapshot_no_resting_orders";
const L_NOTIFY: &str = "C08.bounded.one_balance_and_one_trade_notification_per_fill";
const L_SNAP_FETCH: &str = "C08.bounded.snapshot_agrees_with_fetch_balances";

#[derive(Clone, Copy, Debug, PartialEq, Eq)]
enum Kind { Buy, Sell, TooBig, UnknownInstrument, Limit }
#[derive(Clone, Copy, Debug)]
struct Step { dt_ms: i64, kind: Kind, qty: Decimal }

const PRICE: Decimal = dec!(5);

fn t0() -> DateTime<Utc> { DateTime::<Utc>::from_timestamp(1_700_000_000, 0).unwrap() }

fn exchange(fee: Decimal, latency_ms: u64) -> (MockExchange, mpsc::UnboundedSender<MockExchangeRequest>, broadcast::Receiver<barter_execution::UnindexedAccountEvent>) {
    let bal = |a: &str, v: Decimal| AssetBalance { asset: AssetNameExchange::new(a), balance: Balance { total: v, free: v }, time_exchange: t0() };
    let config = MockExecutionConfig {
        mocked_exchange: ExchangeId::Mock,
        initial_state: UnindexedAccountSnapshot { exchange: ExchangeId::Mock, balances: vec![bal("btc", dec!(10)), bal("usdt", dec!(100)), bal("eth", dec!(7))], instruments: vec![] },
        latency_ms,
        fees_percent: fee,
    };
    let (tx, rx) = mpsc::unbounded_channel();
    let (etx, erx) = broadcast::channel(64);
    let mut instruments = FnvHashMap::default();
    instruments.insert(InstrumentNameExchange::new("BTCUSDT"), Instrument::spot(ExchangeId::Mock, "mock-btc_usdt", "BTCUSDT", Underlying::new("btc", "usdt"), None));
    (MockExchange::new(config, rx, etx, instruments), tx, erx)
}

fn request(k: usize, s: &Step) -> barter_execution::order::request::OrderRequestOpen<ExchangeId, InstrumentNameExchange> {
    let (side, qty, instr, kind) = match s.kind {
        Kind::Buy => (Side::Buy, s.qty, "BTCUSDT", OrderKind::Market),
        Kind::Sell => (Side::Sell, s.qty, "BTCUSDT", OrderKind::Market),
        Kind::TooBig => (Side::Sell, dec!(1000), "BTCUSDT", OrderKind::Market),
        Kind::UnknownInstrument => (Side::Buy, s.qty, "XXXUSDT", OrderKind::Market),
        Kind::Limit => (Side::Buy, s.qty, "BTCUSDT", OrderKind::Limit),
    };
    OrderEvent {
        key: OrderKey { exchange: ExchangeId::Mock, instrument: InstrumentNameExchange::new(instr), strategy: StrategyId::new("s"), cid: ClientOrderId::new(format!("c{k}")) },
        state: RequestOpen { side, price: PRICE, quantity: qty, kind, time_in_force: TimeInForce::ImmediateOrCancel },
    }
}

/// ledger of the accepted orders
struct Ledger { btc: Decimal, usdt: Decimal, fills: Vec<(DateTime<Utc>, Side, Decimal, Decimal)> }
impl Ledger {
    fn new() -> Self { Ledger { btc: dec!(10), usdt: dec!(100), fills: vec![] } }
    /// true iff accepted
    fn apply(&mut self, s: &Step, fee: Decimal, time: DateTime<Utc>) -> bool {
        match s.kind {
            Kind::Buy => {
                let need = PRICE * s.qty * (Decimal::ONE + fee);
                if self.usdt < need { return false; }
                self.usdt -= need;
                self.fills.push((time, Side::Buy, s.qty, PRICE * s.qty * fee));
                true
            }
            Kind::Sell => {
                let need = s.qty * (Decimal::ONE + fee);
                if self.btc < need { return false; }
                self.btc -= need;
                self.fills.push((time, Side::Sell, s.qty, s.qty * fee * PRICE));
                true
            }
            _ => false,
        }
    }
    fn balances(&self) -> Vec<(String, Decimal, Decimal)> {
        vec![("btc".to_string(), self.btc, self.btc), ("eth".to_string(), dec!(7), dec!(7)), ("usdt".to_string(), self.usdt, self.usdt)]
    }
}

type T = Trade<QuoteAsset, InstrumentNameExchange>;
fn brief(t: &T) -> String { format!("#{}@{}+{}ms {:?} qty={} fees={}", t.order_id.0, t.time_exchange.timestamp() - t0().timestamp(), t.time_exchange.timestamp_subsec_millis(), t.side, t.quantity, t.fees.fees) }
fn sorted(b: impl Iterator<Item = AssetBalance<AssetNameExchange>>) -> Vec<(String, Decimal, Decimal)> {
    let mut v: Vec<_> = b.map(|b| (b.asset.to_string(), b.balance.total, b.balance.free)).collect();
    v.sort();
    v
}

fn queries(times: &[DateTime<Utc>], fills: &[DateTime<Utc>]) -> Vec<DateTime<Utc>> {
    let mut q = vec![DateTime::<Utc>::MIN_UTC, DateTime::<Utc>::MAX_UTC, t0() - TimeDelta::milliseconds(1), t0()];
    for t in times.iter().chain(fills.iter()) {
        q.push(*t - TimeDelta::milliseconds(1));
        q.push(*t);
        q.push(*t + TimeDelta::milliseconds(1));
    }
    q.sort();
    q.dedup();
    q
}

struct Checker<'a> { seen: &'a mut HashSet<&'static str>, input: String }
impl Checker<'_> {
    fn fail(&mut self, label: &'static str, observed: String, expected: String) { if self.seen.insert(label) { report(label, self.input.clone(), observed, expected); } }
    /// `accepted`: the fills of the accepted orders as acknowledged in the open-order responses
    fn trades(&mut self, path: &str, since: DateTime<Utc>, got: &[T], accepted: &[T], direct: bool) {
        let want: Vec<&T> = accepted.iter().filter(|t| t.time_exchange >= since).collect();
        if got.iter().collect::<Vec<_>>() != want {
            let tie = accepted.iter().any(|t| t.time_exchange == since);
            let monotone = accepted.windows(2).all(|w| w[0].time_exchange <= w[1].time_exchange);
            let label = if !monotone { L_OOO } else if direct { L_DIRECT } else if tie { L_INCLUSIVE } else { L_EXACT };
            let rel = since.signed_duration_since(t0());
            self.fail(label, format!("{path}(time_since = t0{:+}ms) -> [{}]", rel.num_milliseconds(), got.iter().map(brief).collect::<Vec<_>>().join(", ")),
                format!("exactly the accepted orders' fills with time_exchange >= time_since, in order: [{}]", want.iter().map(|t| brief(t)).collect::<Vec<_>>().join(", ")));
        }
    }
}

fn expected_trade(resp_id: &barter_execution::order::id::OrderId, time: DateTime<Utc>, side: Side, qty: Decimal, fees: Decimal) -> T {
    Trade {
        id: barter_execution::trade::TradeId(resp_id.0.clone()),
        order_id: resp_id.clone(),
        instrument: InstrumentNameExchange::new("BTCUSDT"),
        strategy: StrategyId::new("s"),
        time_exchange: time,
        side,
        price: PRICE,
        quantity: qty,
        fees: barter_execution::trade::AssetFees::quote_fees(fees),
    }
}

fn monotone_times(accepted: &[T]) -> bool { accepted.windows(2).all(|w| w[0].time_exchange <= w[1].time_exchange) }

/// `subscribed == false`: nobody listens to the account-event broadcast (a polling-only client): the ledger, the trade log and the queries are the same
async fn case_run_loop(steps: &[Step], fee: Decimal, latency_ms: u64, subscribed: bool, seen: &mut HashSet<&'static str>) {
    let (ex, tx, erx) = exchange(fee, latency_ms);
    let _erx = if subscribed { Some(erx) } else { drop(erx); None };
    let handle = tokio::spawn(ex.run());
    let half = TimeDelta::milliseconds(latency_ms as i64 / 2);
    let mut ledger = Ledger::new();
    let mut accepted: Vec<T> = vec![];
    let mut times: Vec<DateTime<Utc>> = vec![];
    let mut now = t0();
    let input = format!("MockExchange::run{}, fee={fee}, latency_ms={latency_ms}, price={PRICE}, balances(btc=10, usdt=100, eth=7); open-order requests (time offset ms, kind, qty): {:?}",
        if subscribed { "" } else { " with NO subscriber of the account-event broadcast" }, steps.iter().scan(0i64, |t, s| { *t += s.dt_ms; Some((*t, s.kind, s.qty)) }).collect::<Vec<_>>());
    let mut ck = Checker { seen, input };
    for (k, s) in steps.iter().enumerate() {
        now += TimeDelta::milliseconds(s.dt_ms);
        let (rtx, rrx) = oneshot::channel();
        if tx.send(MockExchangeRequest::open_order(now, rtx, request(k, s))).is_err() { return; }
        let Ok(resp) = rrx.await else { ck.fail(L_EXACT, format!("no response to open-order request #{k}"), "a response".into()); return; };
        let t_ex = now + half;
        times.push(t_ex);
        let was = ledger.fills.len();
        let should = ledger.apply(s, fee, t_ex);
        match (&resp.state, should) {
            (Ok(open), true) => { let f = ledger.fills[was]; accepted.push(expected_trade(&open.id, f.0, f.1, f.2, f.3)); }
            (Err(_), false) => {}
            // acceptance itself is the business of the C08 open-order checks: keep the ledger in step with the exchange
            _ => return,
        }
    }
    let fill_times: Vec<DateTime<Utc>> = accepted.iter().map(|t| t.time_exchange).collect();
    now += TimeDelta::milliseconds(1);
    for since in queries(&times, &fill_times) {
        let (rtx, rrx) = oneshot::channel();
        if tx.send(MockExchangeRequest::fetch_trades(now, rtx, since)).is_err() { return; }
        let Ok(got) = rrx.await else { return; };
        ck.trades("FetchTrades", since, &got, &accepted, false);
    }
    // the same queries through the REAL client (MockExecution::fetch_trades builds the request from its own clock and the asked cut-off):
    // the client's clock reads `now`, later than every fill, so a cut-off different from `now` tells the two request fields apart
    if monotone_times(&accepted) {
        use barter_execution::client::{ExecutionClient, mock::MockExecution};
        let (_etx2, erx2) = broadcast::channel(4);
        let clock_now = now;
        let client = MockExecution { mocked_exchange: ExchangeId::Mock, clock: move || clock_now, request_tx: tx.clone(), event_rx: erx2 };
        for since in queries(&times, &fill_times) {
            let Ok(got) = client.fetch_trades(since).await else { return; };
            let want: Vec<&T> = accepted.iter().filter(|t| t.time_exchange >= since).collect();
            if got.iter().collect::<Vec<_>>() != want {
                ck.fail(L_CLIENT, format!("MockExecution::fetch_trades(time_since = t0 + {:?}) with the client clock at t0 + {:?} returned {} trade(s)", since.signed_duration_since(t0()), now.signed_duration_since(t0()), got.len()),
                    format!("the {} accepted fill(s) stamped at or after the asked cut-off", want.len()));
            }
        }
    }
    let (rtx, rrx) = oneshot::channel();
    if tx.send(MockExchangeRequest::fetch_account_snapshot(now, rtx)).is_err() { return; }
    let Ok(snap) = rrx.await else { return; };
    let got = sorted(snap.balances.iter().cloned());
    if got != ledger.balances() || snap.exchange != ExchangeId::Mock {
        ck.fail(L_SNAP_BAL, format!("exchange {:?}, balances (asset, total, free) {got:?}", snap.exchange), format!("exchange Mock, {:?}", ledger.balances()));
    }
    if snap.instruments.iter().any(|i| !i.orders.is_empty()) {
        ck.fail(L_SNAP_ORD, format!("{:?}", snap.instruments), "every accepted (market) order is filled at once: no resting orders".into());
    }
    let (rtx, rrx) = oneshot::channel();
    if tx.send(MockExchangeRequest::fetch_balances(now, rtx)).is_err() { return; }
    let Ok(bals) = rrx.await else { return; };
    if sorted(bals.into_iter()) != got { ck.fail(L_SNAP_FETCH, "FetchBalances differs from the snapshot taken at the same time".into(), format!("{got:?}")); }
    drop(tx);
    let _ = handle.await;
}

/// 'each accepted order ... announced by one balance and one trade notification' - whoever still waits for the response: the requester of
/// the requests in `abandon` drops its response receiver at once (a timed-out / cancelled request future); a subscriber of the broadcast listens
async fn case_notifications(steps: &[Step], fee: Decimal, latency_ms: u64, abandon: &[bool], seen: &mut HashSet<&'static str>) {
    let (ex, tx, mut erx) = exchange(fee, latency_ms);
    let handle = tokio::spawn(ex.run());
    let mut now = t0();
    let input = format!("MockExchange::run with one subscriber of the account-event broadcast, fee={fee}, latency_ms={latency_ms}, price={PRICE}, balances(btc=10, usdt=100, eth=7); open-order requests (time offset ms, kind, qty, requester stops waiting for the response at once?): {:?}",
        steps.iter().zip(abandon).scan(0i64, |t, (s, a)| { *t += s.dt_ms; Some((*t, s.kind, s.qty, *a)) }).collect::<Vec<_>>());
    let mut ck = Checker { seen, input };
    for (k, s) in steps.iter().enumerate() {
        now += TimeDelta::milliseconds(s.dt_ms);
        let (rtx, rrx) = oneshot::channel();
        if abandon[k] { drop(rrx); if tx.send(MockExchangeRequest::open_order(now, rtx, request(k, s))).is_err() { return; } }
        else { if tx.send(MockExchangeRequest::open_order(now, rtx, request(k, s))).is_err() { return; } if rrx.await.is_err() { return; } }
    }
    // let every latency timer fire
    tokio::time::sleep(std::time::Duration::from_millis(2 * latency_ms + 50)).await;
    now += TimeDelta::milliseconds(1);
    let (rtx, rrx) = oneshot::channel();
    if tx.send(MockExchangeRequest::fetch_trades(t0() + TimeDelta::days(1), rtx, t0() - TimeDelta::days(1))).is_err() { return; }
    let _ = now;
    let Ok(logged) = rrx.await else { return; };
    let (mut trades, mut balances) = (0usize, 0usize);
    while let Ok(ev) = erx.try_recv() {
        match ev.kind { barter_execution::AccountEventKind::Trade(_) => trades += 1, barter_execution::AccountEventKind::BalanceSnapshot(_) => balances += 1, _ => {} }
    }
    if trades != logged.len() || balances != logged.len() {
        ck.fail(L_NOTIFY, format!("{} fill(s) in the trade log; {trades} trade and {balances} balance notification(s) on the broadcast", logged.len()), "one trade and one balance notification per fill".into());
    }
    drop(tx);
    let _ = handle.await;
}

/// the same without the run loop: `open_order` + `ack_trade` (what `run()` does), then `AccountState::trades` / `account_snapshot`
fn case_direct(steps: &[Step], fee: Decimal, seen: &mut HashSet<&'static str>) {
    let (mut ex, _tx, _erx) = exchange(fee, 0);
    let mut ledger = Ledger::new();
    let mut accepted: Vec<T> = vec![];
    let mut times = vec![];
    let mut now = t0();
    let input = format!("MockExchange::open_order + AccountState::ack_trade, fee={fee}, price={PRICE}, balances(btc=10, usdt=100, eth=7); open-order requests (time offset ms, kind, qty): {:?}",
        steps.iter().scan(0i64, |t, s| { *t += s.dt_ms; Some((*t, s.kind, s.qty)) }).collect::<Vec<_>>());
    let mut ck = Checker { seen, input };
    for (k, s) in steps.iter().enumerate() {
        now += TimeDelta::milliseconds(s.dt_ms);
        ex.time_exchange_latest = now;
        ex.account.update_time_exchange(now);
        times.push(now);
        let Ok((resp, notes)) = std::panic::catch_unwind(std::panic::AssertUnwindSafe(|| ex.open_order(request(k, s)))) else { return; };
        let was = ledger.fills.len();
        let should = ledger.apply(s, fee, now);
        match (&resp.state, should, notes) {
            (Ok(open), true, Some(notes)) => {
                let f = ledger.fills[was];
                let want = expected_trade(&open.id, f.0, f.1, f.2, f.3);
                if notes.trade != want { ck.fail(L_DIRECT, format!("fill notified for request #{k}: {}", brief(&notes.trade)), brief(&want)); return; }
                ex.account.ack_trade(notes.trade);
                accepted.push(want);
            }
            (Err(_), false, None) => {}
            _ => return,
        }
    }
    let fill_times: Vec<DateTime<Utc>> = accepted.iter().map(|t| t.time_exchange).collect();
    for since in queries(&times, &fill_times) {
        let got: Vec<T> = ex.account.trades(since).cloned().collect();
        ck.trades("AccountState::trades", since, &got, &accepted, true);
    }
    let snap = ex.account_snapshot();
    let got = sorted(snap.balances.iter().cloned());
    if got != ledger.balances() { ck.fail(L_SNAP_BAL, format!("account_snapshot() balances (asset, total, free) {got:?}"), format!("{:?}", ledger.balances())); }
    if snap.instruments.iter().any(|i| !i.orders.is_empty()) { ck.fail(L_SNAP_ORD, format!("{:?}", snap.instruments), "no resting orders".into()); }
}

pub fn run(seed: u64, thorough: bool) -> u64 {
    let mut seen: HashSet<&'static str> = HashSet::new();
    let mut n = 0u64;
    let rt = tokio::runtime::Builder::new_current_thread().enable_time().start_paused(true).build().expect("runtime");
    let alphabet: Vec<(i64, Kind, Decimal)> = {
        let mut v = vec![];
        for dt in [0i64, 1, 1000] {
            for (kind, qty) in [(Kind::Buy, dec!(1)), (Kind::Sell, dec!(2)), (Kind::TooBig, dec!(1)), (Kind::UnknownInstrument, dec!(1))] { v.push((dt, kind, qty)); }
        }
        v.push((1000, Kind::Limit, dec!(1)));
        v.push((0, Kind::Buy, dec!(15))); // funded only while the quote balance lasts
        v
    };
    rt.block_on(async {
        // every sequence of requests up to a small length
        let max_len = if thorough { 4 } else { 3 };
        for len in 1..=max_len {
            let total = alphabet.len().pow(len as u32);
            for code in 0..total {
                let mut c = code;
                let steps: Vec<Step> = (0..len).map(|_| { let (dt_ms, kind, qty) = alphabet[c % alphabet.len()]; c /= alphabet.len(); Step { dt_ms, kind, qty } }).collect();
                let fee = if code % 2 == 0 { dec!(0) } else { dec!(0.1) };
                let latency = if code % 3 == 2 { 6 } else { 0 };
                case_run_loop(&steps, fee, latency, true, &mut seen).await;
                if code % 4 == 1 || thorough { case_run_loop(&steps, fee, latency, false, &mut seen).await; }
                if len <= 2 || thorough { for pat in 0..(1usize << len) { let abandon: Vec<bool> = (0..len).map(|k| pat >> k & 1 == 1).collect(); case_notifications(&steps, fee, [0u64, 6][code % 2], &abandon, &mut seen).await; } }
                if code % 4 == 0 || thorough { case_direct(&steps, fee, &mut seen); }
                n += 1;
            }
        }
        // NON-MONOTONE exchange times: every assignment of request times from {0, 5, 6, 10} ms (and the same in seconds) to 3 (thorough: 4)
        // accepted market orders - contains (5, 10, 6): fills at t=5, t=10, then t=6 - optionally with a rejected request in between;
        // `queries` asks before / at / after every request and fill time, i.e. also BETWEEN the fill times
        let grid = [0i64, 5, 6, 10];
        for len in 2..=if thorough { 4usize } else { 3 } {
            for code in 0..grid.len().pow(len as u32) {
                for variant in 0..if thorough { 8u8 } else { 4 } {
                    let (scale, reject_at) = (if variant & 1 == 0 { 1 } else { 1000 }, if variant & 2 == 0 { None } else { Some(1usize) });
                    let mut c = code;
                    let mut at = 0i64;
                    let mut steps: Vec<Step> = vec![];
                    for k in 0..len {
                        let t = grid[c % grid.len()] * scale; c /= grid.len();
                        if reject_at == Some(k) { steps.push(Step { dt_ms: 0, kind: if k % 2 == 0 { Kind::TooBig } else { Kind::UnknownInstrument }, qty: dec!(1) }); }
                        steps.push(Step { dt_ms: t - at, kind: if (k + (variant as usize >> 2)) % 2 == 0 { Kind::Buy } else { Kind::Sell }, qty: Decimal::from(1 + k as i64) });
                        at = t;
                    }
                    let fee = if variant & 4 == 0 { dec!(0) } else { dec!(0.1) };
                    case_run_loop(&steps, fee, if code % 3 == 1 { 6 } else { 0 }, true, &mut seen).await;
                    case_direct(&steps, fee, &mut seen);
                    n += 1;
                }
            }
        }
        // seeded random with clocks that step back (two clients: each request is stamped from one of two clocks, one lagging)
        let mut rng = Rng::seeded(seed, 9);
        for _ in 0..if thorough { 10_000 } else { 200 } {
            let len = 2 + rng.below(7) as usize;
            let lag = [1i64, 4, 1000, 3500][rng.below(4) as usize];
            let (mut clock, mut at) = (0i64, 0i64);
            let steps: Vec<Step> = (0..len).map(|_| {
                clock += match rng.below(4) { 0 => 0, 1 => 1, 2 => 5, _ => rng.below(3_000) as i64 };
                let t = if rng.chance(1, 3) { (clock - lag).max(0) } else { clock };
                let s = Step { dt_ms: t - at, kind: match rng.below(8) { 0 => Kind::TooBig, 1 => Kind::UnknownInstrument, 2 | 3 | 4 => Kind::Sell, _ => Kind::Buy }, qty: Decimal::new(1 + rng.below(20) as i64, 1) };
                at = t;
                s
            }).collect();
            let fee = [dec!(0), dec!(0.1)][rng.below(2) as usize];
            case_run_loop(&steps, fee, [0, 6][rng.below(2) as usize], rng.chance(3, 4), &mut seen).await;
            case_direct(&steps, fee, &mut seen);
            n += 1;
        }
        // seeded random, longer
        let mut rng = Rng::seeded(seed, 8);
        for _ in 0..if thorough { 20_000 } else { 300 } {
            let len = 2 + rng.below(9) as usize;
            let steps: Vec<Step> = (0..len).map(|_| Step {
                dt_ms: match rng.below(4) { 0 | 1 => 0, 2 => 1, _ => rng.below(5_000) as i64 },
                kind: match rng.below(8) { 0 => Kind::TooBig, 1 => Kind::UnknownInstrument, 2 => Kind::Limit, 3 | 4 => Kind::Sell, _ => Kind::Buy },
                qty: Decimal::new(1 + rng.below(40) as i64, 1),
            }).collect();
            let fee = [dec!(0), dec!(0.1), dec!(0.01)][rng.below(3) as usize];
            case_run_loop(&steps, fee, [0, 0, 6, 11][rng.below(4) as usize], rng.chance(3, 4), &mut seen).await;
            case_direct(&steps, fee, &mut seen);
            n += 1;
        }
    });
    n
}
