//! xorshift generator shared by the harness modules (kept apart from eng.rs so that modules which only need
//! random numbers keep compiling when the engine scenario helpers do not)
pub struct Rng(pub u64);
impl Rng {
    pub fn seeded(seed: u64, salt: u64) -> Self { Rng((0x9E3779B97F4A7C15 ^ seed.wrapping_mul(0xD1B54A32D192ED03) ^ salt.wrapping_mul(0xA24BAED4963EE407)) | 1) }
    pub fn next(&mut self) -> u64 { self.0 ^= self.0 << 13; self.0 ^= self.0 >> 7; self.0 ^= self.0 << 17; self.0 }
    pub fn below(&mut self, n: u64) -> u64 { self.next() % n }
    pub fn chance(&mut self, num: u64, den: u64) -> bool { self.below(den) < num }
}

