use crate::report;
use barter_execution::{
    UnindexedAccountSnapshot,
    balance::{AssetBalance, Balance},
    client::mock::MockExecutionConfig,
    exchange::mock::MockExchange,
    order::{
        OrderEvent, OrderKey, OrderKind, TimeInForce,
        id::{ClientOrderId, StrategyId},
        request::RequestOpen,
    },
};
use barter_instrument::{
    Side, Underlying,
    asset::name::AssetNameExchange,
    exchange::ExchangeId,
    instrument::{Instrument, name::InstrumentNameExchange},
};
use chrono::{DateTime, Utc};
use fnv::FnvHashMap;
use rust_decimal::Decimal;
use rust_decimal_macros::dec;
use std::collections::HashSet;
use tokio::sync::{broadcast, mpsc};

fn exchange(base: Decimal, quote: Decimal, fee: Decimal) -> MockExchange {
    let t0 = DateTime::<Utc>::from_timestamp(1_700_000_000, 0).unwrap();
    let bal = |a: &str, v: Decimal| AssetBalance { asset: AssetNameExchange::new(a), balance: Balance { total: v, free: v }, time_exchange: t0 };
    let config = MockExecutionConfig {
        mocked_exchange: ExchangeId::Mock,
        initial_state: UnindexedAccountSnapshot { exchange: ExchangeId::Mock, balances: vec![bal("btc", base), bal("usdt", quote), bal("eth", dec!(7))], instruments: vec![] },
        latency_ms: 0,
        fees_percent: fee,
    };
    let (_tx, rx) = mpsc::unbounded_channel();
    let (etx, _erx) = broadcast::channel(8);
    let mut instruments = FnvHashMap::default();
    instruments.insert(
        InstrumentNameExchange::new("BTCUSDT"),
        Instrument::spot(ExchangeId::Mock, "mock-btc_usdt", "BTCUSDT", Underlying::new("btc", "usdt"), None),
    );
    MockExchange::new(config, rx, etx, instruments)
}

fn balances(e: &MockExchange) -> Vec<(String, Decimal, Decimal)> {
    let mut v: Vec<_> = e.account.balances().map(|b| (b.asset.to_string(), b.balance.total, b.balance.free)).collect();
    v.sort();
    v
}

pub fn run(_seed: u64) -> u64 {
    let mut n = 0;
    let mut seen: HashSet<&'static str> = HashSet::new();
    let mut rep = |label: &'static str, input: String, observed: String, expected: String| {
        if seen.insert(label) {
            report(label, input, observed, expected);
        }
    };
    let price = dec!(5);
    for side in [Side::Buy, Side::Sell] {
        for qty in [dec!(1), dec!(2)] {
            for fee in [dec!(0), dec!(0.1)] {
                let need = match side {
                    Side::Buy => price * qty * (Decimal::ONE + fee),
                    Side::Sell => qty * (Decimal::ONE + fee),
                };
                for have_spent in [dec!(0), need - dec!(0.01), need, need + dec!(3)] {
                    if have_spent.is_sign_negative() { continue; }
                    for (instr, kind) in [("BTCUSDT", OrderKind::Market), ("XXXUSDT", OrderKind::Market), ("BTCUSDT", OrderKind::Limit)] {
                        // the asset NOT being spent gets a balance that would flip the decision if it were used instead
                        let other = if have_spent >= need { dec!(0) } else { dec!(1000) };
                        let (base, quote) = match side { Side::Buy => (other, have_spent), Side::Sell => (have_spent, other) };
                        let mut e = exchange(base, quote, fee);
                        let before = balances(&e);
                        let seq0 = e.order_sequence;
                        let req = OrderEvent {
                            key: OrderKey { exchange: ExchangeId::Mock, instrument: InstrumentNameExchange::new(instr), strategy: StrategyId::new("s"), cid: ClientOrderId::new("c") },
                            state: RequestOpen { side, price, quantity: qty, kind, time_in_force: TimeInForce::ImmediateOrCancel },
                        };
                        let input = format!("side={side:?} price={price} qty={qty} fee={fee} instrument={instr} kind={kind:?} balances(btc={base}, usdt={quote})");
                        let result = std::panic::catch_unwind(std::panic::AssertUnwindSafe(|| e.open_order(req)));
                        n += 1;
                        let Ok((resp, notes)) = result else {
                            rep("C08.safety.open_order", input, "panicked".into(), "no panic".into());
                            continue;
                        };
                        let after = balances(&e);
                        let should_accept = instr == "BTCUSDT" && kind == OrderKind::Market && have_spent >= need;
                        let accepted = resp.state.is_ok();
                        if accepted != should_accept {
                            rep("C08.open_order.accepted_iff_funded", input.clone(), format!("accepted={accepted}"), format!("accepted={should_accept}"));
                        }
                        if accepted != notes.is_some() {
                            rep("C08.open_order.notifications_iff_accepted", input.clone(), format!("notifications={}", notes.is_some()), format!("{accepted}"));
                        }
                        if !accepted {
                            if before != after || e.order_sequence != seq0 {
                                rep("C08.open_order.rejected_no_change", input.clone(), format!("{after:?}"), format!("{before:?}"));
                            }
                        } else {
                            let spent = match side { Side::Buy => "usdt", Side::Sell => "btc" };
                            let want: Vec<_> = before.iter().map(|(a, t, f)| if a == spent { (a.clone(), *t - need, *f - need) } else { (a.clone(), *t, *f) }).collect();
                            if after != want {
                                rep("C08.open_order.debits_spent_asset_exactly", input.clone(), format!("{after:?}"), format!("{want:?}"));
                            }
                            if e.order_sequence != seq0 + 1 {
                                rep("C08.open_order.fresh_id", input.clone(), format!("{}", e.order_sequence), format!("{}", seq0 + 1));
                            }
                            if let Some(nt) = &notes {
                                if nt.trade.fees.fees != price * qty * fee {
                                    rep("C08.open_order.fee_is_percentage", input.clone(), format!("{}", nt.trade.fees.fees), format!("{}", price * qty * fee));
                                }
                            }
                        }
                        if after.iter().any(|(_, t, f)| t.is_sign_negative() && !t.is_zero() || f.is_sign_negative() && !f.is_zero()) {
                            rep("C08.open_order.never_negative", input.clone(), format!("{after:?}"), "all balances >= 0".into());
                        }
                    }
                }
            }
        }
    }
    n
}
