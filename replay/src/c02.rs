//! C02 witness search / bounded stand-in: fill sequences on ONE instrument through the REAL `PositionManager::update_from_trade`
//! against an independent cash-flow / cost-basis model (the model never computes a running average the way the code does: it keeps
//! the signed net quantity, the net cash flow, the cost basis of the open inventory - a reduce removes its pro-rata share - and, per
//! position, the cash flow and the fee shares of the fill portions that belong to it).
//!
//! After EVERY fill:
//!  * net_signed_size            signed size of `current` (0 when None) == signed sum of the fill quantities (exact); quantity_abs_max
//!                               == largest size the open position ever had
//!  * closes_exactly_at_zero     a PositionExited is returned iff the sum was non-zero and reaches or crosses zero; `current` is None iff
//!                               the sum is zero; the record carries the old side, the peak size, enter / exit time and every fill id
//!  * flips_side                 on a sign change the manager holds the opposite position: |sum|, entered at the fill price / time, one id
//!  * pnl_conserves_cash_flows   sum(closed.pnl_realised) + open.pnl_realised == sell proceeds - buy cost - fees + signed open quantity *
//!                               average entry; every closed record's pnl == cash flow of its own fill portions
//!  * fees_attributed_once       entry + exit fees over all positions == fees of the fills; an increasing fill's fee goes to fees_enter, a
//!                               reducing / closing one to fees_exit, a crossing one is split by quantity (closed part -> exit, rest -> enter)
//!  * entry_average_weighted_mean  price_entry_average == cost basis / open quantity (quantity-weighted mean of the entries, a reduce
//!                               leaves it unchanged)
//! Tolerance: the real code divides for the average entry (weighted mean) and for the pro-rata fee split of a crossing fill; every clause
//! that involves one of the two is compared with |diff| <= 1e-12 (values here are < 1e9, Decimal carries 28 digits); sizes, sides, times,
//! ids and un-split fees are compared exactly.
use crate::{report, rng::Rng};
use barter::engine::state::position::{PositionExited, PositionManager};
use barter_execution::{
    order::id::{OrderId, StrategyId},
    trade::{AssetFees, Trade, TradeId},
};
use barter_instrument::{Side, asset::QuoteAsset, instrument::InstrumentIndex};
use chrono::{DateTime, Utc};
use rust_decimal::Decimal;
use rust_decimal_macros::dec;
use std::collections::HashSet;

const L_NET: &str = "C02.bounded.net_signed_size";
const L_CLOSE: &str = "C02.bounded.closes_exactly_at_zero";
const L_FLIP: &str = "C02.bounded.flips_side";
const L_PNL: &str = "C02.bounded.pnl_conserves_cash_flows";
const L_FEES: &str = "C02.bounded.fees_attributed_once";
const L_AVG: &str = "C02.bounded.entry_average_weighted_mean";
const TOL: Decimal = dec!(0.000000000001);

#[derive(Clone, Copy, Debug, PartialEq)]
struct Fill { buy: bool, price: Decimal, qty: Decimal, fee: Decimal }
impl Fill { fn show(&self) -> String { format!("{} {} @ {} fee {}", if self.buy { "Buy" } else { "Sell" }, self.qty, self.price, self.fee) } }

fn time(k: usize) -> DateTime<Utc> { DateTime::<Utc>::from_timestamp(1_700_000_000 + k as i64, 0).unwrap() }
fn trade(f: &Fill, k: usize) -> Trade<QuoteAsset, InstrumentIndex> {
    Trade {
        id: TradeId::new(format!("t{k}")), order_id: OrderId::new("o"), instrument: InstrumentIndex(0), strategy: StrategyId::new("s"),
        time_exchange: time(k), side: if f.buy { Side::Buy } else { Side::Sell }, price: f.price, quantity: f.qty,
        fees: AssetFees { asset: QuoteAsset, fees: f.fee },
    }
}

/// the open position as the model sees it
#[derive(Clone, Debug)]
struct Open { cost: Decimal, max: Decimal, cash: Decimal, fees_enter: Decimal, fees_exit: Decimal, t_enter: usize, ids: Vec<usize> }
#[derive(Clone, Debug, Default)]
struct Model {
    /// signed sum of fill quantities (Buy +)
    net: Decimal,
    /// sell proceeds - buy cost - fees over all fills
    cash: Decimal,
    fees: Decimal,
    open: Option<Open>,
    /// what the REAL code reported for closed positions so far
    closed_pnl: Decimal,
    closed_fees: Decimal,
}
/// what the model expects of the record of a position closed by this fill
struct ClosedExp { long: bool, max: Decimal, cash: Decimal, fees_enter: Decimal, fees_exit: Decimal, t_enter: usize, ids: Vec<usize> }

impl Model {
    /// apply fill number k; returns the expected closed record (if the fill closes a position)
    fn apply(&mut self, f: &Fill, k: usize) -> Option<ClosedExp> {
        let signed = if f.buy { f.qty } else { -f.qty };
        let flow = if f.buy { -(f.price * f.qty) } else { f.price * f.qty };
        let before = self.net;
        self.net += signed;
        self.cash += flow - f.fee;
        self.fees += f.fee;
        let fresh = |qty: Decimal, fee: Decimal, cash: Decimal| Open { cost: f.price * qty, max: qty, cash, fees_enter: fee, fees_exit: Decimal::ZERO, t_enter: k, ids: vec![k] };
        let Some(mut o) = self.open.take() else {
            self.open = Some(fresh(f.qty, f.fee, flow - f.fee));
            return None;
        };
        let long = before > Decimal::ZERO;
        let q_open = before.abs();
        o.ids.push(k);
        if long == f.buy {
            // increase: the entry joins the cost basis
            o.cost += f.price * f.qty;
            o.cash += flow - f.fee;
            o.fees_enter += f.fee;
            if self.net.abs() > o.max { o.max = self.net.abs(); }
            self.open = Some(o);
            None
        } else if f.qty < q_open {
            // reduce: the sold part leaves the cost basis pro rata (the mean of the remaining entries is unchanged)
            o.cost = o.cost * (q_open - f.qty) / q_open;
            o.cash += flow - f.fee;
            o.fees_exit += f.fee;
            self.open = Some(o);
            None
        } else if f.qty == q_open {
            o.cash += flow - f.fee;
            o.fees_exit += f.fee;
            Some(ClosedExp { long, max: o.max, cash: o.cash, fees_enter: o.fees_enter, fees_exit: o.fees_exit, t_enter: o.t_enter, ids: o.ids })
        } else {
            // crossing fill: the closing part (q_open of f.qty) and the remainder share cash flow and fee by quantity
            let rest = f.qty - q_open;
            let fee_close = f.fee * q_open / f.qty;
            let fee_rest = f.fee - fee_close;
            let flow_close = if f.buy { -(f.price * q_open) } else { f.price * q_open };
            let flow_rest = flow - flow_close;
            o.cash += flow_close - fee_close;
            o.fees_exit += fee_close;
            self.open = Some(fresh(rest, fee_rest, flow_rest - fee_rest));
            Some(ClosedExp { long, max: o.max, cash: o.cash, fees_enter: o.fees_enter, fees_exit: o.fees_exit, t_enter: o.t_enter, ids: o.ids })
        }
    }
}

fn near(a: Decimal, b: Decimal) -> bool { (a - b).abs() <= TOL }
fn ids(v: &[usize]) -> Vec<TradeId> { v.iter().map(|k| TradeId::new(format!("t{k}"))).collect() }
type Fail = (&'static str, String, String);

/// one fill on the real manager and on the model; every clause that fails
fn step(m: &mut PositionManager, model: &mut Model, f: &Fill, k: usize) -> Vec<Fail> {
    let mut out: Vec<Fail> = vec![];
    let before = model.net;
    let closed: Option<PositionExited<QuoteAsset, InstrumentIndex>> = m.update_from_trade(&trade(f, k));
    let exp_closed = model.apply(f, k);
    let net = model.net;
    let crossed = (before > Decimal::ZERO && net < Decimal::ZERO) || (before < Decimal::ZERO && net > Decimal::ZERO);

    // net signed size
    let real_net = m.current.as_ref().map(|p| if p.side == Side::Buy { p.quantity_abs } else { -p.quantity_abs }).unwrap_or(Decimal::ZERO);
    if real_net != net {
        out.push((L_NET, format!("open position {:?} -> signed size {real_net}", m.current.as_ref().map(|p| (p.side, p.quantity_abs))), format!("signed sum of the fill quantities = {net}")));
    } else if let (Some(p), Some(o)) = (&m.current, &model.open) {
        if p.quantity_abs_max != o.max { out.push((L_NET, format!("quantity_abs_max = {}", p.quantity_abs_max), format!("largest size this position ever had = {}", o.max))); }
    }

    // closed exactly when the sum reaches or crosses zero
    let must_close = !before.is_zero() && (net.is_zero() || crossed);
    if closed.is_some() != must_close {
        out.push((L_CLOSE, format!("sum {before} -> {net}: PositionExited returned = {}", closed.is_some()), format!("returned = {must_close}")));
    }
    if m.current.is_none() != net.is_zero() {
        out.push((L_CLOSE, format!("sum {before} -> {net}: current position is {}", if m.current.is_some() { "Some" } else { "None" }), format!("{}", if net.is_zero() { "None (flat)" } else { "Some (not flat)" })));
    }
    if let (Some(c), Some(e)) = (&closed, &exp_closed) {
        let side = if e.long { Side::Buy } else { Side::Sell };
        if c.side != side || c.quantity_abs_max != e.max || c.time_enter != time(e.t_enter) || c.time_exit != time(k) || c.trades != ids(&e.ids) || c.instrument != InstrumentIndex(0) {
            out.push((L_CLOSE, format!("record: side {:?} quantity_abs_max {} enter {} exit {} trades {:?}", c.side, c.quantity_abs_max, c.time_enter, c.time_exit, c.trades),
                format!("side {side:?} quantity_abs_max {} enter {} exit {} trades {:?}", e.max, time(e.t_enter), time(k), ids(&e.ids))));
        }
        // the record's realised PnL is the cash flow of its own fill portions
        if !near(c.pnl_realised, e.cash) {
            out.push((L_PNL, format!("closed record pnl_realised = {}", c.pnl_realised), format!("cash flow of the fill portions of that position (proceeds - cost - its fee shares) = {}", e.cash)));
        }
        if !near(c.fees_enter.fees, e.fees_enter) || !near(c.fees_exit.fees, e.fees_exit) {
            out.push((L_FEES, format!("closed record fees_enter {} fees_exit {}", c.fees_enter.fees, c.fees_exit.fees), format!("fees_enter {} fees_exit {} (a crossing fill's fee is split by quantity: closed part / fill quantity)", e.fees_enter, e.fees_exit)));
        }
        model.closed_pnl += c.pnl_realised;
        model.closed_fees += c.fees_enter.fees + c.fees_exit.fees;
    } else if let Some(c) = &closed {
        model.closed_pnl += c.pnl_realised;
        model.closed_fees += c.fees_enter.fees + c.fees_exit.fees;
    }

    // flip: the opposite position with the remainder
    if crossed {
        let side = if net > Decimal::ZERO { Side::Buy } else { Side::Sell };
        match &m.current {
            Some(p) if p.side == side && p.quantity_abs == net.abs() && p.quantity_abs_max == net.abs() && p.price_entry_average == f.price
                && p.time_enter == time(k) && p.trades == ids(&[k]) && near(p.pnl_realised, -p.fees_enter.fees) => {}
            other => out.push((L_FLIP, format!("sum {before} -> {net}: current = {:?}", other.as_ref().map(|p| (p.side, p.quantity_abs, p.quantity_abs_max, p.price_entry_average, p.time_enter, p.trades.clone(), p.pnl_realised))),
                format!("{side:?} position of {} (max {}) entered at {} / {} with trades {:?} and pnl_realised = -(its share of the fee)", net.abs(), net.abs(), f.price, time(k), ids(&[k])))),
        }
    }

    // open position: entry average, fee shares
    if let (Some(p), Some(o)) = (&m.current, &model.open) {
        let mean = o.cost / net.abs();
        if !near(p.price_entry_average, mean) {
            out.push((L_AVG, format!("price_entry_average = {}", p.price_entry_average), format!("cost basis of the open quantity / open quantity = {} / {} = {mean}", o.cost, net.abs())));
        }
        if !near(p.fees_enter.fees, o.fees_enter) || !near(p.fees_exit.fees, o.fees_exit) {
            out.push((L_FEES, format!("open position fees_enter {} fees_exit {}", p.fees_enter.fees, p.fees_exit.fees), format!("fees_enter {} fees_exit {}", o.fees_enter, o.fees_exit)));
        }
    }
    // every fee attributed exactly once
    let open_fees = m.current.as_ref().map(|p| p.fees_enter.fees + p.fees_exit.fees).unwrap_or(Decimal::ZERO);
    if !near(model.closed_fees + open_fees, model.fees) {
        out.push((L_FEES, format!("entry + exit fees over all positions = {} (closed {} + open {open_fees})", model.closed_fees + open_fees, model.closed_fees), format!("sum of the fill fees = {}", model.fees)));
    }
    // conservation of cash
    let open_pnl = m.current.as_ref().map(|p| p.pnl_realised).unwrap_or(Decimal::ZERO);
    let basis = m.current.as_ref().map(|p| if p.side == Side::Buy { p.quantity_abs * p.price_entry_average } else { -(p.quantity_abs * p.price_entry_average) }).unwrap_or(Decimal::ZERO);
    if !near(model.closed_pnl + open_pnl, model.cash + basis) {
        out.push((L_PNL, format!("sum of closed pnl_realised {} + open pnl_realised {open_pnl} = {}", model.closed_pnl, model.closed_pnl + open_pnl),
            format!("sell proceeds - buy cost - fees ({}) + signed open quantity * average entry ({basis}) = {}", model.cash, model.cash + basis)));
    }
    out
}

struct Search { seen: HashSet<&'static str>, n: u64 }
impl Search {
    fn fails(&mut self, fails: &[Fail], trace: &[Fill]) {
        for (label, obs, exp) in fails {
            if self.seen.insert(*label) {
                report(label, format!("fills on one instrument from flat: {}", trace.iter().map(|f| f.show()).collect::<Vec<_>>().join(" ; ")), obs.clone(), exp.clone());
            }
        }
    }
    /// all sequences over `alphabet` up to `depth` (prefixes shared)
    fn dfs(&mut self, alphabet: &[Fill], depth: usize, m: &PositionManager, model: &Model, trace: &mut Vec<Fill>) {
        if trace.len() == depth { return; }
        for f in alphabet {
            let (mut m2, mut model2) = (m.clone(), model.clone());
            trace.push(*f);
            let k = trace.len() - 1;
            let fails = step(&mut m2, &mut model2, f, k);
            self.n += 1;
            self.fails(&fails, trace);
            if fails.is_empty() { self.dfs(alphabet, depth, &m2, &model2, trace); }
            trace.pop();
        }
    }
    fn seq(&mut self, fills: &[Fill]) {
        let (mut m, mut model) = (PositionManager::default(), Model::default());
        for (k, f) in fills.iter().enumerate() {
            let fails = step(&mut m, &mut model, f, k);
            self.n += 1;
            self.fails(&fails, &fills[..=k]);
            if !fails.is_empty() { return; }
        }
    }
}

fn alphabet(prices: &[Decimal], qtys: &[Decimal], fees: &[Decimal]) -> Vec<Fill> {
    let mut v = vec![];
    for buy in [true, false] { for p in prices { for q in qtys { for fee in fees { v.push(Fill { buy, price: *p, qty: *q, fee: *fee }); } } } }
    v
}

pub fn run(seed: u64, thorough: bool) -> u64 {
    let mut s = Search { seen: HashSet::new(), n: 0 };
    // crafted: partial reduce then re-increase at another price, exact close, asymmetric flips (1 -> 4, 3 -> 4, 2 -> 3), repeated flips
    let f = |buy: bool, price: Decimal, qty: Decimal, fee: Decimal| Fill { buy, price, qty, fee };
    for fee in [dec!(0), dec!(1), dec!(3)] {
        for long in [true, false] {
            let (b, sl) = (long, !long);
            s.seq(&[f(b, dec!(100), dec!(2), fee), f(sl, dec!(120), dec!(1), fee), f(b, dec!(120), dec!(1), fee), f(sl, dec!(130), dec!(2), fee)]);
            s.seq(&[f(b, dec!(100), dec!(3), fee), f(sl, dec!(90), dec!(2), fee), f(b, dec!(80), dec!(0.5), fee), f(b, dec!(85), dec!(4), fee), f(sl, dec!(100), dec!(1.5), fee), f(sl, dec!(100), dec!(4), fee)]);
            s.seq(&[f(b, dec!(100), dec!(1), fee), f(sl, dec!(110), dec!(4), fee), f(b, dec!(105), dec!(3), fee)]);
            s.seq(&[f(b, dec!(100), dec!(3), fee), f(sl, dec!(110), dec!(4), fee), f(b, dec!(120), dec!(3), fee), f(sl, dec!(90), dec!(5), fee), f(b, dec!(95), dec!(3), fee)]);
            s.seq(&[f(b, dec!(50), dec!(1), dec!(1)), f(sl, dec!(52), dec!(1), dec!(1))]);
            s.seq(&[f(b, dec!(100), dec!(2), fee), f(sl, dec!(100), dec!(3), fee), f(sl, dec!(100), dec!(1), fee), f(b, dec!(100), dec!(1), fee), f(b, dec!(100), dec!(1), fee)]);
        }
    }
    // exhaustive: every sequence of up to 4 (quick) fills over 2 sides x 2 prices x 3 quantities x 2 fees
    let a24 = alphabet(&[dec!(100), dec!(120)], &[dec!(1), dec!(2), dec!(3)], &[dec!(0), dec!(3)]);
    s.dfs(&a24, 4, &PositionManager::default(), &Model::default(), &mut vec![]);
    if thorough {
        // up to 5 fills over 2 x 2 x 2 x 2, and up to 6 over 2 sides x 3 (price, quantity, fee) shapes
        let a16 = alphabet(&[dec!(100), dec!(90)], &[dec!(1), dec!(3)], &[dec!(0), dec!(1)]);
        s.dfs(&a16, 5, &PositionManager::default(), &Model::default(), &mut vec![]);
        let mut a6 = vec![];
        for buy in [true, false] { for (p, q, fee) in [(dec!(100), dec!(1), dec!(1)), (dec!(110), dec!(2), dec!(0)), (dec!(95), dec!(0.5), dec!(0.3))] { a6.push(f(buy, p, q, fee)); } }
        s.dfs(&a6, 6, &PositionManager::default(), &Model::default(), &mut vec![]);
    }
    // seeded random longer histories: decimal prices / quantities of very different magnitude, fees 0 / flat / proportional
    let mut rng = Rng::seeded(seed, 0xC02);
    let prices = [dec!(90), dec!(100), dec!(100.5), dec!(110), dec!(120), dec!(0.01), dec!(25000)];
    let qtys = [dec!(0.001), dec!(0.5), dec!(1), dec!(1.5), dec!(2), dec!(3), dec!(7), dec!(1000)];
    let rounds = if thorough { 300_000 } else { 30_000 };
    for _ in 0..rounds {
        let len = 3 + rng.below(10) as usize;
        let mut fills = vec![];
        let small = rng.chance(1, 2);
        for _ in 0..len {
            let price = if small { prices[rng.below(5) as usize] } else { prices[rng.below(prices.len() as u64) as usize] };
            let qty = if small { qtys[1 + rng.below(5) as usize] } else { qtys[rng.below(qtys.len() as u64) as usize] };
            let fee = match rng.below(4) { 0 => dec!(0), 1 => dec!(1), 2 => dec!(0.1), _ => price * qty * dec!(0.001) };
            fills.push(f(rng.chance(1, 2), price, qty, fee));
        }
        s.seq(&fills);
    }
    s.n
}
