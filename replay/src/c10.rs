//! C10 bounded checker: "Audit stream is gap-free and sufficient to replicate engine state".
//! Event histories are run through the REAL `sync_run_with_audit` with an audit channel (after taking the initial
//! `audit_snapshot`); the collected AuditTicks are checked (one record per processed event, consecutive sequence, terminal
//! final record) and fed to the REAL `StateReplicaManager`, whose replica must equal the engine state (in-flight markers
//! set aside) for the whole history and for every prefix; a removed record must be rejected, a duplicate skipped.
use crate::{eng::*, report};
use barter::{
    engine::{
        audit::{AuditTick, EngineAudit, state_replica::StateReplicaManager},
        process_with_audit,
        run::sync_run_with_audit,
        state::trading::TradingState,
    },
};
use barter_execution::order::state::ActiveOrderState;
use barter_integration::{Terminal, channel::{ChannelTxDroppable, mpsc_unbounded}};
use std::{collections::HashSet, panic::{AssertUnwindSafe, catch_unwind}, sync::{Arc, Mutex}};

const L_RECORDS: &str = "C10.bounded.one_record_per_event_consecutive";
const L_FINAL: &str = "C10.bounded.final_record_terminal";
const L_REPLICA: &str = "C10.bounded.replica_equals_engine";
const L_GAP: &str = "C10.bounded.gap_rejected";
const L_DUP: &str = "C10.bounded.duplicate_skipped";

type Tick = AuditTick<Audit>;

/// in-flight markers set aside: drop OpenInFlight, CancelInFlight{Some(o)} -> Open(o), drop CancelInFlight{None}
fn normalised(s: &State) -> State {
    let mut s = s.clone();
    for inst in s.instruments.0.values_mut() {
        let orders = std::mem::take(&mut inst.orders.0);
        for (cid, mut o) in orders {
            match o.state.clone() {
                ActiveOrderState::OpenInFlight(_) => continue,
                ActiveOrderState::Open(_) => {}
                ActiveOrderState::CancelInFlight(c) => match c.order { Some(open) => o.state = ActiveOrderState::Open(open), None => continue },
            }
            inst.orders.0.insert(cid, o);
        }
    }
    s
}

fn state_diff(engine: &State, replica: &State) -> Option<String> {
    let (e, r) = (normalised(engine), normalised(replica));
    if e == r { return None; }
    if e.trading != r.trading { return Some(format!("trading: engine {:?} replica {:?}", e.trading, r.trading)); }
    if e.connectivity != r.connectivity { return Some(format!("connectivity: engine {:?} replica {:?}", e.connectivity, r.connectivity)); }
    for ((k, a), (_, b)) in e.assets.0.iter().zip(r.assets.0.iter()) { if a != b { return Some(format!("asset {k:?}: engine balance {:?} replica {:?}", a.balance, b.balance)); } }
    for (i, (a, b)) in e.instruments.0.values().zip(r.instruments.0.values()).enumerate() {
        if a.position != b.position { return Some(format!("instrument {i} position: engine {:?} replica {:?}", a.position.current, b.position.current)); }
        if a.data != b.data { return Some(format!("instrument {i} market data: engine {:?} replica {:?}", a.data, b.data)); }
        if a.tear_sheet != b.tear_sheet { return Some(format!("instrument {i} tear sheet differs")); }
        if a.orders != b.orders {
            let f = |o: &barter::engine::state::order::Orders| { let mut v: Vec<String> = o.0.values().map(|o| format!("{}:{:?}", o.key.cid, o.state)).collect(); v.sort(); v };
            return Some(format!("instrument {i} orders (markers set aside): engine {:?} replica {:?}", f(&a.orders), f(&b.orders)));
        }
    }
    Some("states differ".into())
}

/// feed that queues the scenario's algo script for the tick right before handing out each event
struct Feed<'a> { steps: std::slice::Iter<'a, Step>, lay: &'a Layout, shared: Arc<Mutex<Shared>>, handed: usize }
impl Iterator for Feed<'_> {
    type Item = Event;
    fn next(&mut self) -> Option<Event> {
        let (ev, script) = self.steps.next()?;
        lock(&self.shared).next = script.as_ref().map(|s| (s.cancels.iter().map(CancelReq::real).collect(), s.opens.iter().map(OpenReq::real).collect()));
        self.handed += 1;
        Some(ev.real(self.lay))
    }
}

fn replica_of(snapshot: &AuditTick<State>, records: Vec<Tick>) -> Result<Result<State, String>, ()> {
    catch_unwind(AssertUnwindSafe(|| {
        let mut m = StateReplicaManager::new(snapshot.clone(), records.into_iter());
        m.run::<DisabledOut, DiscOut>().map(|_| m.replica_engine_state().clone())
    })).map_err(|_| ())
}

struct Ctx { seen: HashSet<&'static str> }
impl Ctx { fn fail(&mut self, label: &'static str, input: &dyn Fn() -> String, obs: String, exp: String) { if self.seen.insert(label) { report(label, input(), obs, exp); } } }

fn run_case(ctx: &mut Ctx, lay: &Arc<Layout>, links: [Link; N_EX], trading0: bool, refused: &[String], steps: &[Step], prefixes: bool) {
    let input = || describe(&links, trading0, refused, steps);
    let trading = if trading0 { TradingState::Enabled } else { TradingState::Disabled };
    let risk = || { let r = SetRisk::default(); lock(&r.refuse).extend(refused.iter().map(barter_execution::order::id::ClientOrderId::new)); r };
    // reference: which event ends the run (Shutdown, or the first one with a request that cannot be delivered)
    let mut model = Model::new(lay, links, trading0, refused);
    let mut stop: Option<(usize, bool)> = None; // (index, fatal?)
    for (k, (ev, script)) in steps.iter().enumerate() {
        let cmd = model.apply_event(lay, ev);
        let algo = if model.expects_algo(ev, &cmd) { model.apply_algo(script.as_ref()) } else { vec![] };
        if matches!(ev, Ev::Shutdown) { stop = Some((k, false)); break; }
        if cmd.iter().chain(algo.iter()).any(|e| e.outcome == Outcome::Failed) { stop = Some((k, true)); break; }
    }
    let processed = stop.map(|(k, _)| k + 1).unwrap_or(steps.len());

    // the run under test
    let mut rig = build(lay, links, trading, risk());
    let (audit_tx, mut audit_rx) = mpsc_unbounded::<Tick>();
    let mut audit_tx = ChannelTxDroppable::new(audit_tx);
    let snapshot = {
        use barter::engine::audit::Auditor;
        Auditor::<Audit>::audit_snapshot(&mut rig.engine)
    };
    let mut feed = Feed { steps: steps.iter(), lay, shared: rig.shared.clone(), handed: 0 };
    let Ok(final_audit) = catch_unwind(AssertUnwindSafe(|| sync_run_with_audit(&mut feed, &mut rig.engine, &mut audit_tx))) else {
        ctx.fail(L_RECORDS, &input, "panic in sync_run_with_audit".into(), "no panic".into());
        return;
    };
    let handed = feed.handed;
    drop(audit_tx);
    let mut records: Vec<Tick> = vec![];
    while let Ok(r) = audit_rx.rx.try_recv() { records.push(r); }

    // one record per processed event, carrying it, consecutive sequence numbers after the snapshot's
    let short = |r: &Tick| match &r.event { EngineAudit::FeedEnded => format!("#{} FeedEnded", r.context.sequence.0), EngineAudit::Process(p) => format!("#{} errors={} terminal={}", r.context.sequence.0, p.errors.len(), p.is_terminal()) };
    let want_len = if stop.is_some() { processed } else { steps.len() + 1 };
    let mut ok = records.len() == want_len && handed == processed;
    for (k, r) in records.iter().enumerate() {
        if r.context.sequence.0 != snapshot.context.sequence.0 + 1 + k as u64 { ok = false; }
        match &r.event {
            EngineAudit::Process(p) => { if k >= steps.len() || p.event != steps[k].0.real(lay) { ok = false; } if k + 1 < records.len() && p.is_terminal() { ok = false; } }
            EngineAudit::FeedEnded => if k + 1 != records.len() || k != steps.len() { ok = false; },
        }
    }
    if !ok {
        ctx.fail(L_RECORDS, &input, format!("snapshot #{}; {} events taken from the feed; records {:?}", snapshot.context.sequence.0, handed, records.iter().map(short).collect::<Vec<_>>()), format!("{want_len} records (#{}..), record k carries event k, run ends after event index {:?}", snapshot.context.sequence.0 + 1, stop));
    }
    let final_ok = match (records.last(), stop) {
        (Some(AuditTick { event: EngineAudit::FeedEnded, .. }), None) => true,
        (Some(AuditTick { event: EngineAudit::Process(p), .. }), Some((k, fatal))) => p.is_terminal() && p.event == steps[k].0.real(lay) && (p.errors.is_empty() != fatal) && records.last().map(|r| &r.event) == Some(&final_audit),
        _ => false,
    };
    if !final_ok {
        ctx.fail(L_FINAL, &input, format!("final record {:?}; returned audit terminal={}", records.last().map(short), final_audit.is_terminal()), match stop { None => "FeedEnded".to_string(), Some((k, true)) => format!("fatal-error record for event index {k}"), Some((k, false)) => format!("Shutdown record for event index {k}") });
    }
    if records.is_empty() { return; }

    // replica of the whole stream
    match replica_of(&snapshot, records.clone()) {
        Ok(Ok(replica)) => { if let Some(d) = state_diff(&rig.engine.state, &replica) { ctx.fail(L_REPLICA, &input, d, "replica equals engine state (in-flight markers set aside)".into()); } }
        Ok(Err(e)) => ctx.fail(L_REPLICA, &input, format!("replica run failed on the clean stream: {e}"), "Ok".into()),
        Err(()) => ctx.fail(L_REPLICA, &input, "replica panicked".into(), "Ok".into()),
    }
    let clean = replica_of(&snapshot, records.clone()).ok().and_then(|r| r.ok());

    // every prefix: replica(records[..k]) against a fresh engine stepped through the first k events
    if prefixes {
        let mut rig2 = build(lay, links, trading, risk());
        let snapshot2 = { use barter::engine::audit::Auditor; Auditor::<Audit>::audit_snapshot(&mut rig2.engine) };
        let n_proc = records.iter().filter(|r| matches!(r.event, EngineAudit::Process(_))).count().min(steps.len());
        for k in 0..n_proc {
            let (ev, script) = &steps[k];
            rig2.queue(script.as_ref());
            let real = ev.real(lay);
            let Ok(tick) = catch_unwind(AssertUnwindSafe(|| process_with_audit(&mut rig2.engine, real))) else { ctx.fail(L_REPLICA, &input, format!("panic at event {k}"), "no panic".into()); break; };
            lock(&rig2.shared).next = None;
            // (error texts embed the Debug rendering of the tx map, which differs between two rigs: compare their number only)
            let same = match (&tick.event, &records[k].event) {
                (EngineAudit::Process(a), EngineAudit::Process(b)) => {
                    let (ra, rb) = (parse_audit(&tick.event), parse_audit(&records[k].event));
                    let reqs = |r: &Reported| r.errors.iter().map(|(q, _)| q.clone()).collect::<Vec<_>>();
                    a.event == b.event && a.errors.len() == b.errors.len() && ra.sent == rb.sent && ra.refused == rb.refused && reqs(&ra) == reqs(&rb) && ra.outputs == rb.outputs
                }
                (a, b) => a == b,
            };
            if !same || tick.context.sequence != records[k].context.sequence {
                ctx.fail(L_RECORDS, &input, format!("record {k} of the run differs from stepping the same events: {:?} vs {:?}", short(&records[k]), short(&tick)), "deterministic".into());
            }
            match replica_of(&snapshot2, records[..=k].to_vec()) {
                Ok(Ok(replica)) => { if let Some(d) = state_diff(&rig2.engine.state, &replica) { ctx.fail(L_REPLICA, &input, format!("after the first {} events: {d}", k + 1), "replica of the record prefix equals the engine state".into()); } }
                Ok(Err(e)) => ctx.fail(L_REPLICA, &input, format!("replica run failed on the prefix of {} records: {e}", k + 1), "Ok".into()),
                Err(()) => ctx.fail(L_REPLICA, &input, "replica panicked".into(), "Ok".into()),
            }
        }
    }

    // a removed record is rejected (the record after the gap must be a Process record); a duplicated one is skipped
    let n_proc = records.iter().filter(|r| matches!(r.event, EngineAudit::Process(_))).count();
    for m in 0..n_proc.saturating_sub(1) {
        let mut gap = records.clone();
        gap.remove(m);
        match replica_of(&snapshot, gap) {
            Ok(Err(_)) => {}
            Ok(Ok(_)) => ctx.fail(L_GAP, &input, format!("record index {m} removed: run() returned Ok"), "Err (out-of-order audit stream)".into()),
            Err(()) => ctx.fail(L_GAP, &input, format!("record index {m} removed: panic"), "Err".into()),
        }
    }
    for m in 0..n_proc {
        let mut dup = records.clone();
        dup.insert(m, records[m].clone());
        match (replica_of(&snapshot, dup), &clean) {
            (Ok(Ok(s)), Some(c)) => { if s != *c { ctx.fail(L_DUP, &input, format!("record index {m} duplicated: final replica differs: {:?}", state_diff(c, &s)), "same final state as the clean stream".into()); } }
            (Ok(Ok(_)), None) => {}
            (Ok(Err(e)), _) => ctx.fail(L_DUP, &input, format!("record index {m} duplicated: run() returned Err({e})"), "Ok, duplicate skipped".into()),
            (Err(()), _) => ctx.fail(L_DUP, &input, format!("record index {m} duplicated: panic"), "Ok".into()),
        }
    }
}

/// crafted histories: order life-cycle with equal-timestamp snapshots, fatal error on an ordinary event, shutdown
fn crafted(lay: &Layout) -> Vec<([Link; N_EX], bool, Vec<String>, Vec<Step>)> {
    let mut v = vec![];
    let h = [Link::Healthy; N_EX];
    for i in 0..lay.n_inst {
        let x = lay.inst_ex[i];
        for (filled0, filled1) in [(0, 5), (5, 5), (0, 10), (5, 0)] {
            for dt in [-1i64, 0, 1] {
                for tail in 0..3 {
                    let mut s: Vec<Step> = vec![
                        (Ev::Trade { i, t: 1, px: 100 }, None),
                        (Ev::CmdOpen(vec![OpenReq { x, i, cid: "k".into() }]), None),
                        (Ev::OrdOpen { i, cid: "k".into(), t: 5, filled: filled0 }, None),
                        (Ev::CmdCancelAll(Filt::Ins(vec![i])), None),
                        (Ev::OrdOpen { i, cid: "k".into(), t: 5 + dt, filled: filled1 }, None),
                    ];
                    match tail { 0 => s.push((Ev::CancelResp { i, cid: "k".into(), ok: false, t: 6 }, None)), 1 => s.push((Ev::CancelResp { i, cid: "k".into(), ok: true, t: 6 }, None)), _ => {} }
                    s.push((Ev::Fill { i, buy: true, px: 100, qty: 5, t: 7, id: 1 }, None));
                    if tail == 2 { s.push((Ev::Shutdown, None)); s.push((Ev::Trade { i, t: 9, px: 1 }, None)); }
                    v.push((h, false, vec![], s));
                }
            }
        }
        // strategy cancel instead of command cancel, trading enabled
        for dt in [-1i64, 0, 1] {
            let s: Vec<Step> = vec![
                (Ev::L1 { i, t: 1, bid: Some(99), ask: Some(101) }, Some(AlgoScript { cancels: vec![], opens: vec![OpenReq { x, i, cid: "q".into() }, OpenReq { x, i, cid: "r1".into() }] })),
                (Ev::OrdOpen { i, cid: "q".into(), t: 3, filled: 0 }, None),
                (Ev::Bal { a: lay.ex_assets[x][0], t: 4, total: 3 }, Some(AlgoScript { cancels: vec![CancelReq { x, i, cid: "q".into(), id: Some(order_id_of("q")) }], opens: vec![] })),
                (Ev::OrdOpen { i, cid: "q".into(), t: 3 + dt, filled: 5 }, None),
                (Ev::CancelResp { i, cid: "q".into(), ok: false, t: 5 }, None),
                (Ev::Trading(false), None),
                (Ev::MktReconn { x }, None),
                (Ev::AcctReconn { x }, None),
                (Ev::Fill { i, buy: false, px: 101, qty: 10, t: 8, id: 1 }, None),
                (Ev::Fill { i, buy: true, px: 100, qty: 10, t: 9, id: 2 }, None),
                (Ev::CmdClose(Filt::None), None),
            ];
            v.push((h, true, vec!["r1".into()], s));
        }
        // closed / missing link: the order generated on an ordinary state-changing event cannot be delivered
        for bad in [Link::Closed, Link::Missing] {
            let mut links = h;
            links[x] = bad;
            for kind in 0..5 {
                let trigger = match kind {
                    0 => Ev::Trade { i, t: 3, px: 123 },
                    1 => Ev::L1 { i, t: 3, bid: Some(120), ask: Some(124) },
                    2 => Ev::Bal { a: lay.ex_assets[x][0], t: 3, total: 77 },
                    3 => Ev::Fill { i, buy: true, px: 100, qty: 10, t: 3, id: 1 },
                    _ => Ev::OrdOpen { i, cid: "ext".into(), t: 3, filled: 5 },
                };
                let other = (i + 1) % lay.n_inst;
                let s: Vec<Step> = vec![
                    (Ev::Trade { i: other, t: 1, px: 100 }, None),
                    (Ev::AcctSnap { x, t: 2, orders: vec![] }, None),
                    (trigger, Some(AlgoScript { cancels: vec![], opens: vec![OpenReq { x, i, cid: "dead".into() }] })),
                    (Ev::Trade { i, t: 4, px: 1 }, None),
                ];
                v.push((links, true, vec![], s.clone()));
                // same, but trading gets enabled by the very event that fails
                let mut s2 = s.clone();
                s2[2] = (Ev::Trading(true), s[2].1.clone());
                v.push((links, false, vec![], s2));
                // fatal error raised by a command
                let mut s3 = s.clone();
                s3[2] = (Ev::CmdOpen(vec![OpenReq { x, i, cid: "dead".into() }]), None);
                v.push((links, false, vec![], s3));
            }
        }
    }
    v
}

pub fn run(seed: u64, thorough: bool) -> u64 {
    let lay = layout();
    let mut ctx = Ctx { seen: HashSet::new() };
    let mut n = 0u64;
    for (links, trading0, refused, steps) in crafted(&lay) {
        run_case(&mut ctx, &lay, links, trading0, &refused, &steps, true);
        n += 1;
    }
    let mut rng = Rng::seeded(seed, 10);
    let rounds = if thorough { 60_000 } else { 5_000 };
    for round in 0..rounds {
        let mut links = [Link::Healthy; N_EX];
        if round % 3 == 0 { for l in links.iter_mut() { *l = match rng.below(5) { 0 => Link::Closed, 1 => Link::Missing, _ => Link::Healthy }; } }
        let trading0 = rng.chance(1, 2);
        let len = 3 + rng.below(12) as usize;
        let orders_strategy = round % 4 != 0;
        let (steps, refused) = {
            let mut g = Gen::new(&mut rng, &lay, GenCfg { monotone: false, odd_keys: false, shutdown: true, reconnects: true });
            let steps: Vec<Step> = (0..len).map(|_| { let e = g.event(); let a = if orders_strategy { g.script() } else { None }; (e, a) }).collect();
            (steps, g.refused.clone())
        };
        run_case(&mut ctx, &lay, links, trading0, &refused, &steps, true);
        n += 1;
    }
    n
}
