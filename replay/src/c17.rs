//! C17 witness search / bounded stand-in: value sequences through the REAL running `DataSetSummary::update` (Welford) against the same
//! statistics computed over the WHOLE prefix at once (two passes: sum / count, then sum of squared deviations), after EVERY value.
//!  * count_sum_mean            count and sum exact; mean == sum / count; low <= mean <= high
//!  * variance_matches_two_pass population variance == sum((x - mean)^2) / n, never negative; std_dev >= 0 and std_dev^2 == variance
//!  * range_low_high            low / high == min / max of the values seen (exact), `activated` after the first value, range() == max - min
//!  * order_independent         every arrival order of the same multiset ends in the same count / sum / low / high (exact) and the same
//!                              mean / variance / std_dev
//! Tolerance: the running mean divides at every step and the variance divides by the count, so mean / variance / std_dev are compared
//! with |diff| <= 1e-12 * |expected| + 1e-18 - RELATIVE, so that tightly clustered data (variance ~1e-14) is held to the same standard (std_dev^2 against the variance with the same bound; Decimal's sqrt is iterative); count, sum,
//! low, high involve no division and are compared exactly.
use crate::{report, rng::Rng};
use barter::statistic::summary::dataset::DataSetSummary;
use rust_decimal::Decimal;
use rust_decimal_macros::dec;
use std::collections::{HashMap, HashSet};

const L_MEAN: &str = "C17.bounded.count_sum_mean";
const L_VAR: &str = "C17.bounded.variance_matches_two_pass";
const L_RANGE: &str = "C17.bounded.range_low_high";
const L_ORDER: &str = "C17.bounded.order_independent";

fn near(a: Decimal, b: Decimal) -> bool { (a - b).abs() <= dec!(0.000000000001) * b.abs() + dec!(0.000000000000000001) }
type Fail = (&'static str, String, String);

/// the statistics of the whole dataset in two passes
struct Batch { count: Decimal, sum: Decimal, mean: Decimal, variance: Decimal, low: Decimal, high: Decimal }
fn batch(xs: &[Decimal]) -> Batch {
    let count = Decimal::from(xs.len() as u64);
    let sum: Decimal = xs.iter().copied().sum();
    let mean = sum / count;
    let variance = xs.iter().map(|x| (*x - mean) * (*x - mean)).sum::<Decimal>() / count;
    Batch { count, sum, mean, variance, low: *xs.iter().min().unwrap(), high: *xs.iter().max().unwrap() }
}

fn check(s: &DataSetSummary, xs: &[Decimal]) -> Vec<Fail> {
    let mut out: Vec<Fail> = vec![];
    let b = batch(xs);
    let d = &s.dispersion;
    if s.count != b.count || s.sum != b.sum || !near(s.mean, b.mean) {
        out.push((L_MEAN, format!("count {} sum {} mean {}", s.count, s.sum, s.mean), format!("count {} sum {} mean {}", b.count, b.sum, b.mean)));
    } else if s.mean < b.low && !near(s.mean, b.low) || s.mean > b.high && !near(s.mean, b.high) {
        out.push((L_MEAN, format!("mean {}", s.mean), format!("within [{}, {}]", b.low, b.high)));
    }
    if !near(d.variance, b.variance) || d.variance.is_sign_negative() && !d.variance.is_zero() {
        out.push((L_VAR, format!("variance {} (recurrence relation M {}, count {})", d.variance, d.recurrence_relation_m, s.count), format!("sum((x - mean)^2) / n = {}", b.variance)));
    } else if d.std_dev.is_sign_negative() && !d.std_dev.is_zero() || !near(d.std_dev * d.std_dev, b.variance) {
        out.push((L_VAR, format!("std_dev {} (squared {})", d.std_dev, d.std_dev * d.std_dev), format!("sqrt of the population variance {}", b.variance)));
    }
    if d.range.low != b.low || d.range.high != b.high || !d.range.activated || d.range.range() != b.high - b.low {
        out.push((L_RANGE, format!("activated {} low {} high {} range() {}", d.range.activated, d.range.low, d.range.high, d.range.range()), format!("activated true low {} high {} range {}", b.low, b.high, b.high - b.low)));
    }
    out
}

struct Search { seen: HashSet<&'static str>, n: u64, by_multiset: HashMap<Vec<Decimal>, (DataSetSummary, Vec<Decimal>)> }
impl Search {
    fn fails(&mut self, fails: Vec<Fail>, xs: &[Decimal]) {
        for (label, obs, exp) in fails {
            if self.seen.insert(label) { report(label, format!("values in arrival order: {xs:?}"), obs, exp); }
        }
    }
    /// same multiset in another order seen before: same summary
    fn order(&mut self, s: &DataSetSummary, xs: &[Decimal]) {
        let mut key = xs.to_vec();
        key.sort();
        let Some((first, first_order)) = self.by_multiset.get(&key) else { self.by_multiset.insert(key, (s.clone(), xs.to_vec())); return; };
        let (a, b) = (&s.dispersion, &first.dispersion);
        if s.count != first.count || s.sum != first.sum || a.range != b.range || !near(s.mean, first.mean) || !near(a.variance, b.variance) || !near(a.std_dev, b.std_dev) {
            let show = |s: &DataSetSummary| format!("count {} sum {} mean {} variance {} std_dev {} low {} high {}", s.count, s.sum, s.mean, s.dispersion.variance, s.dispersion.std_dev, s.dispersion.range.low, s.dispersion.range.high);
            let (obs, exp) = (show(s), format!("as for the order {first_order:?}: {}", show(first)));
            self.fails(vec![(L_ORDER, obs, exp)], xs);
        }
    }
    fn dfs(&mut self, values: &[Decimal], depth: usize, s: &DataSetSummary, xs: &mut Vec<Decimal>) {
        if xs.len() == depth { return; }
        for v in values {
            let mut s2 = s.clone();
            s2.update(*v);
            xs.push(*v);
            self.n += 1;
            let fails = check(&s2, xs);
            let ok = fails.is_empty();
            self.fails(fails, xs);
            self.order(&s2, xs);
            if ok { self.dfs(values, depth, &s2, xs); }
            xs.pop();
        }
    }
    fn seq(&mut self, xs: &[Decimal], orders: bool) {
        let mut s = DataSetSummary::default();
        for (k, v) in xs.iter().enumerate() {
            s.update(*v);
            self.n += 1;
            let fails = check(&s, &xs[..=k]);
            let ok = fails.is_empty();
            self.fails(fails, &xs[..=k]);
            if !ok { return; }
        }
        // a Range seeded through its constructor with the first value of the dataset and updated with the rest is the range of the whole dataset
        if let Some((first, rest)) = xs.split_first() {
            let mut r = barter::statistic::summary::dataset::dispersion::Range::init(*first);
            for v in rest { r.update(*v); }
            let b = batch(xs);
            if r.low != b.low || r.high != b.high || r.range() != b.high - b.low {
                self.fails(vec![(L_RANGE, format!("Range::init(first value) then update with the rest: low {} high {} range() {}", r.low, r.high, r.range()), format!("low {} high {} range {}", b.low, b.high, b.high - b.low))], xs);
            }
        }
        if orders { self.order(&s, xs); }
    }
}

pub fn run(seed: u64, thorough: bool) -> u64 {
    let mut s = Search { seen: HashSet::new(), n: 0, by_multiset: HashMap::new() };
    // crafted: a single value, repeated values, all-negative data, values that arrive exactly on the running mean
    let d = |v: &[i64]| -> Vec<Decimal> { v.iter().map(|x| Decimal::new(*x, 1)).collect() };
    for xs in [d(&[70]), d(&[-70]), d(&[0]), d(&[30, 30, 30, 30]), d(&[-5, -5, -5]), d(&[-30, -10, -20]), d(&[-5, -2, -9]), d(&[-1, -2, -3, -4, -5, -6]),
               d(&[10, 30, 20]), d(&[10, 20, 30]), d(&[-40, 40, 0, 0, 0]), d(&[-5, 5, 0]), d(&[10, 30, 20, 20, 20, 60]), d(&[0, 0, 10, -10, 0]), d(&[100, -100, 0, 50, -50, 0]),
               d(&[11, 12, 13, 14, 6]), d(&[-20, -20, -10, -30, -20])] {
        s.seq(&xs, true);
        let mut r = xs.clone(); r.reverse();
        s.seq(&r, true);
    }
    // tightly clustered data (prices / returns that differ in the 7th decimal place): the variance is ~1e-14 and must still be the dataset's
    let m = |v: &[i64]| -> Vec<Decimal> { v.iter().map(|x| Decimal::new(*x, 7)).collect() };
    for xs in [m(&[10000001, 10000002, 10000003, 10000004]), m(&[3, -3, 3, -3, 2]), m(&[10000001, 10000001, 10000002]), m(&[-50000003, -50000001, -50000002, -50000001]), m(&[1, 2]), m(&[999999999, 1000000000, 1000000001])] {
        s.seq(&xs, true);
        let mut r = xs.clone(); r.reverse();
        s.seq(&r, true);
    }
    // exhaustive: every sequence (hence every order of every multiset) of up to 5 (quick) / 6 (thorough) values over the 9-value set
    let values = [dec!(-2), dec!(-1), dec!(-0.5), dec!(0), dec!(0.5), dec!(1), dec!(2), dec!(3), dec!(10)];
    s.dfs(&values, if thorough { 6 } else { 5 }, &DataSetSummary::default(), &mut vec![]);
    s.by_multiset.clear();
    // seeded random longer sequences: widely different magnitudes, all-negative runs, repeats of the running mean; each in 3 arrival orders
    let mut rng = Rng::seeded(seed, 0xC17);
    let rounds = if thorough { 40_000 } else { 2_000 };
    for _ in 0..rounds {
        let len = 7 + rng.below(30) as usize;
        let kind = rng.below(4);
        let mut xs: Vec<Decimal> = vec![];
        let mut run = DataSetSummary::default();
        for _ in 0..len {
            let mag = match kind { 0 => 1, 1 => 3, _ => rng.below(7) as u32 };
            let mut v = Decimal::new(rng.below(2001) as i64 - 1000, mag);
            if kind == 3 && len % 2 == 0 { v = dec!(1) + Decimal::new(rng.below(41) as i64 - 20, 8); }     // clustered around 1 (differences of 1e-8)
            if kind == 1 { v = -v.abs() - dec!(0.001); }
            if kind == 2 && rng.chance(1, 8) { v *= dec!(100000); }
            // now and then exactly the running mean (when it is a short decimal), or a repeat of an earlier value
            if !xs.is_empty() && rng.chance(1, 6) { v = if run.mean.scale() <= 6 { run.mean } else { xs[rng.below(xs.len() as u64) as usize] }; }
            run.update(v);
            xs.push(v);
        }
        s.seq(&xs, true);
        let mut r = xs.clone(); r.reverse();
        s.seq(&r, true);
        for i in (1..r.len()).rev() { r.swap(i, rng.below(i as u64 + 1) as usize); }
        s.seq(&r, true);
        s.by_multiset.clear();
    }
    s.n
}
