//! C09 bounded checker: "applying events in any order never replaces a held value by one with an older exchange timestamp".
//!
//! Drives the REAL `EngineState` (built as `eng.rs` does) through `update_from_account` / `update_from_market` only. For every item
//! kind that carries an exchange timestamp (asset balance, last traded price, L1, an open order's exchange data) small sets of
//! timestamped updates - distinct and tied timestamps, values that repeat at different times - are delivered in EVERY sequence with
//! repetition (duplicates) up to a bound, streamed and inside full account snapshots (older / equal / newer than what is held), on two
//! exchanges / several assets / several instruments. After EVERY delivery the whole observable state is compared with an oracle that is
//! written from the property statement and keeps nothing but the list of delivered updates per item:
//!
//!   held(item) = the delivered update with the GREATEST exchange timestamp;
//!   among deliveries with equal (greatest) timestamps - rule read off the guards of the unchanged code and its doc comments:
//!     * asset balance  (`AssetState::update_from_balance`, guard `held.time <= update.time`, "at least as recent"): the LAST delivered;
//!     * open order data (`Orders::update_from_order_snapshot`, guards `current.time_exchange <= update.time_exchange`): the LAST delivered;
//!     * last traded price / L1 (`DefaultInstrumentMarketData::process`, guards `held.time < event.time_exchange`): the FIRST delivered.
//!   Re-delivering an update is therefore idempotent, and everything not addressed by a delivery is untouched (checked on the full
//!   `AssetState` / `InstrumentState` values, `trading` and `global`).
//!
//! Market events carry `time_received` = a delivery clock that always advances (receipt order != exchange order), L1 events carry
//! `last_update_time == time_exchange`. Order updates are partially filled Open snapshots only (the property is about OPEN orders'
//! exchange data; a fully filled / inactive snapshot legitimately ends tracking), optionally with the order recorded OpenInFlight before
//! and a cancel recorded in flight in between (the CancelInFlight arms of the guards).
use crate::{rng::Rng, report};
use barter::{
    Timed,
    engine::state::{
        EngineState,
        global::DefaultGlobalData,
        instrument::data::DefaultInstrumentMarketData,
        order::in_flight_recorder::InFlightRequestRecorder,
        trading::TradingState,
    },
};
use barter_data::{
    books::Level,
    event::{DataKind, MarketEvent},
    subscription::{book::OrderBookL1, trade::PublicTrade},
};
use barter_execution::{
    AccountEvent, AccountEventKind, AccountSnapshot, InstrumentAccountSnapshot,
    balance::{AssetBalance, Balance},
    order::{
        Order, OrderKey, OrderKind, TimeInForce,
        id::{ClientOrderId, OrderId, StrategyId},
        request::{OrderRequestCancel, OrderRequestOpen, RequestCancel, RequestOpen},
        state::{ActiveOrderState, CancelInFlight, Open, OpenInFlight, OrderState},
    },
};
use barter_instrument::{
    Side, Underlying,
    asset::{Asset, AssetIndex},
    exchange::{ExchangeId, ExchangeIndex},
    index::IndexedInstruments,
    instrument::{Instrument, InstrumentIndex},
};
use barter_integration::snapshot::Snapshot;
use chrono::{DateTime, Utc};
use rust_decimal::Decimal;
use std::collections::{BTreeMap, HashSet};

type State = EngineState<DefaultGlobalData, DefaultInstrumentMarketData>;

const L_BAL: &str = "C09.bounded.balance_never_rolls_back";
const L_LTP: &str = "C09.bounded.last_traded_price_never_rolls_back";
const L_L1: &str = "C09.bounded.l1_never_rolls_back";
const L_ORD: &str = "C09.bounded.order_data_never_rolls_back";
const L_SNAP: &str = "C09.bounded.full_snapshot_never_rolls_back";
const L_OTHER: &str = "C09.bounded.other_items_untouched";

const RULE_LAST: &str = "greatest exchange timestamp delivered so far; of equal timestamps the LAST delivered (guard `held.time <= update.time`)";
const RULE_FIRST: &str = "greatest exchange timestamp delivered so far; of equal timestamps the FIRST delivered (guard `held.time < update.time`)";

fn t(s: i64) -> DateTime<Utc> { DateTime::<Utc>::from_timestamp(1_700_000_000 + s, 0).unwrap() }
fn tenths(q: i64) -> Decimal { Decimal::new(q, 1) }

// ------------------------------------------------------------------------------------------------- layout
struct Layout {
    indexed: IndexedInstruments,
    ex_ids: Vec<ExchangeId>,
    inst_ex: Vec<usize>,
    /// exchange index of every asset
    asset_ex: Vec<usize>,
    asset_names: Vec<String>,
    inst_names: Vec<String>,
    n_inst: usize,
    n_asset: usize,
}

fn spot(ex: ExchangeId, name: &str, base: &str, quote: &str) -> Instrument<ExchangeId, Asset> {
    Instrument::spot(ex, format!("{}-{name}", ex.as_str()), name.to_uppercase(), Underlying::new(Asset::from(base), Asset::from(quote)), None)
}

/// 2 exchanges; the SAME asset / instrument names on both (an index mix-up shows as `other_items_untouched`)
fn layout() -> Layout {
    let indexed = IndexedInstruments::new(vec![
        spot(ExchangeId::Kraken, "btc_usdt", "btc", "usdt"),
        spot(ExchangeId::BinanceSpot, "btc_usdt", "btc", "usdt"),
        spot(ExchangeId::BinanceSpot, "eth_usdt", "eth", "usdt"),
    ]);
    let ex_ids: Vec<ExchangeId> = indexed.exchanges().iter().map(|k| k.value).collect();
    let inst_ex: Vec<usize> = indexed.instruments().iter().map(|k| k.value.exchange.key.index()).collect();
    let inst_names: Vec<String> = indexed.instruments().iter().map(|k| k.value.name_internal.to_string()).collect();
    let asset_ex: Vec<usize> = indexed.assets().iter().map(|k| ex_ids.iter().position(|e| *e == k.value.exchange).unwrap()).collect();
    let asset_names: Vec<String> = indexed.assets().iter().map(|k| format!("{}:{}", k.value.exchange.as_str(), k.value.asset.name_internal)).collect();
    let (n_inst, n_asset) = (inst_ex.len(), asset_ex.len());
    Layout { indexed, ex_ids, inst_ex, asset_ex, asset_names, inst_names, n_inst, n_asset }
}

/// the state the engine starts from; `seeded`: (exchange, asset name, total) balances given to the builder (stamped time_engine_start = t(0))
fn fresh_state(lay: &Layout, seeded: &[(usize, &str, i64)]) -> State {
    EngineState::builder(&lay.indexed, DefaultGlobalData, DefaultInstrumentMarketData::default)
        .time_engine_start(t(0))
        .trading_state(TradingState::Enabled)
        .balances(seeded.iter().map(|(x, a, v)| (lay.ex_ids[*x], *a, Balance::new(Decimal::from(*v), Decimal::from(*v)))))
        .build()
}

// ------------------------------------------------------------------------------------------------- deliveries
#[derive(Clone, PartialEq)]
enum Dl {
    /// streamed BalanceSnapshot
    Bal { a: usize, t: i64, v: i64 },
    Trade { i: usize, t: i64, px: i64 },
    L1 { i: usize, t: i64, bid: Option<i64>, ask: Option<i64> },
    /// streamed OrderSnapshot of a partially filled Open order
    Ord { i: usize, cid: &'static str, t: i64, filled: i64 },
    /// full account snapshot of exchange x
    Snap { x: usize, bals: Vec<(usize, i64, i64)>, ords: Vec<(usize, &'static str, i64, i64)> },
    /// the engine records a cancel request in flight (not an exchange update; moves the order to CancelInFlight)
    CancelMark { i: usize, cid: &'static str },
}

impl std::fmt::Debug for Dl {
    fn fmt(&self, f: &mut std::fmt::Formatter<'_>) -> std::fmt::Result {
        match self {
            Dl::Bal { a, t, v } => write!(f, "Balance(asset{a} t={t} total={v})"),
            Dl::Trade { i, t, px } => write!(f, "Trade(inst{i} t={t} px={px})"),
            Dl::L1 { i, t, bid, ask } => write!(f, "L1(inst{i} t={t} bid={bid:?} ask={ask:?})"),
            Dl::Ord { i, cid, t, filled } => write!(f, "OrderOpen(inst{i} {cid} t={t} filled={})", tenths(*filled)),
            Dl::Snap { x, bals, ords } => {
                write!(f, "AccountSnapshot(ex{x} balances=[")?;
                for (a, t, v) in bals { write!(f, "(asset{a} t={t} total={v})")?; }
                write!(f, "] orders=[")?;
                for (i, cid, t, fl) in ords { write!(f, "(inst{i} {cid} t={t} filled={})", tenths(*fl))?; }
                write!(f, "])")
            }
            Dl::CancelMark { i, cid } => write!(f, "record_in_flight_cancel(inst{i} {cid})"),
        }
    }
}

fn strategy() -> StrategyId { StrategyId::new("s") }
fn order_id(cid: &str) -> OrderId { OrderId::new(format!("o-{cid}")) }
fn key(lay: &Layout, i: usize, cid: &str) -> OrderKey { OrderKey { exchange: ExchangeIndex(lay.inst_ex[i]), instrument: InstrumentIndex(i), strategy: strategy(), cid: ClientOrderId::new(cid) } }
fn open_state(cid: &str, ts: i64, filled: i64) -> Open { Open { id: order_id(cid), time_exchange: t(ts), filled_quantity: tenths(filled) } }
fn tif() -> TimeInForce { TimeInForce::GoodUntilCancelled { post_only: false } }
fn order_snapshot(lay: &Layout, i: usize, cid: &str, ts: i64, filled: i64) -> Order<ExchangeIndex, InstrumentIndex, OrderState> {
    Order { key: key(lay, i, cid), side: Side::Buy, price: Decimal::from(100), quantity: Decimal::ONE, kind: OrderKind::Limit, time_in_force: tif(), state: OrderState::active(open_state(cid, ts, filled)) }
}
fn balance(a: usize, ts: i64, v: i64) -> AssetBalance<AssetIndex> {
    AssetBalance { asset: AssetIndex(a), balance: Balance::new(Decimal::from(v), Decimal::from(v)), time_exchange: t(ts) }
}
fn account(x: usize, kind: AccountEventKind<ExchangeIndex, AssetIndex, InstrumentIndex>) -> AccountEvent { AccountEvent { exchange: ExchangeIndex(x), kind } }

/// `clock`: the delivery counter (time_received of market events always advances)
fn deliver(state: &mut State, lay: &Layout, d: &Dl, clock: i64) {
    let market = |i: usize, ts: i64, kind: DataKind| MarketEvent { time_exchange: t(ts), time_received: t(100_000 + clock), exchange: lay.ex_ids[lay.inst_ex[i]], instrument: InstrumentIndex(i), kind };
    match d {
        Dl::Bal { a, t: ts, v } => { state.update_from_account(&account(lay.asset_ex[*a], AccountEventKind::BalanceSnapshot(Snapshot(balance(*a, *ts, *v))))); }
        Dl::Trade { i, t: ts, px } => state.update_from_market(&market(*i, *ts, DataKind::Trade(PublicTrade { id: format!("{clock}"), price: *px as f64, amount: 1.0, side: Side::Buy }))),
        Dl::L1 { i, t: ts, bid, ask } => state.update_from_market(&market(*i, *ts, DataKind::OrderBookL1(l1(*ts, *bid, *ask)))),
        Dl::Ord { i, cid, t: ts, filled } => { state.update_from_account(&account(lay.inst_ex[*i], AccountEventKind::OrderSnapshot(Snapshot(order_snapshot(lay, *i, cid, *ts, *filled))))); }
        Dl::Snap { x, bals, ords } => {
            let balances = bals.iter().map(|(a, ts, v)| balance(*a, *ts, *v)).collect();
            let mut by_inst: BTreeMap<usize, Vec<_>> = BTreeMap::new();
            for (i, cid, ts, filled) in ords { by_inst.entry(*i).or_default().push(order_snapshot(lay, *i, cid, *ts, *filled)); }
            let instruments = by_inst.into_iter().map(|(i, orders)| InstrumentAccountSnapshot { instrument: InstrumentIndex(i), orders }).collect();
            state.update_from_account(&account(*x, AccountEventKind::Snapshot(AccountSnapshot { exchange: ExchangeIndex(*x), balances, instruments })));
        }
        Dl::CancelMark { i, cid } => {
            let req = OrderRequestCancel { key: key(lay, *i, cid), state: RequestCancel { id: Some(order_id(cid)) } };
            state.instruments.instrument_index_mut(&InstrumentIndex(*i)).orders.record_in_flight_cancel(&req);
        }
    }
}
fn l1(ts: i64, bid: Option<i64>, ask: Option<i64>) -> OrderBookL1 {
    OrderBookL1 { last_update_time: t(ts), best_bid: bid.map(|p| Level::new(Decimal::from(p), Decimal::ONE)), best_ask: ask.map(|p| Level::new(Decimal::from(p), Decimal::TWO)) }
}
fn record_open(state: &mut State, lay: &Layout, i: usize, cid: &str) {
    let req = OrderRequestOpen { key: key(lay, i, cid), state: RequestOpen { side: Side::Buy, price: Decimal::from(100), quantity: Decimal::ONE, kind: OrderKind::Limit, time_in_force: tif() } };
    state.instruments.instrument_index_mut(&InstrumentIndex(i)).orders.record_in_flight_open(&req);
}

// ------------------------------------------------------------------------------------------------- oracle
#[derive(Clone, Default)]
struct MOrder { oif: bool, cif: bool, delivered: Vec<(i64, i64)> }
/// nothing but what was delivered, per item, in delivery order
#[derive(Clone)]
struct Model {
    bal: Vec<Vec<(i64, i64)>>,
    ltp: Vec<Vec<(i64, i64)>>,
    l1: Vec<Vec<(i64, Option<i64>, Option<i64>)>>,
    ord: Vec<BTreeMap<&'static str, MOrder>>,
}
#[derive(Clone, Copy, PartialEq, Eq, Debug)]
enum Item { Asset(usize), Ltp(usize), L1(usize), Order(usize, &'static str) }

/// the delivered update with the greatest timestamp; ties: the last (`last_wins`) or the first delivered
fn newest<T: Copy>(v: &[T], time: impl Fn(&T) -> i64, last_wins: bool) -> Option<T> {
    let mut best: Option<T> = None;
    for x in v {
        best = match best { None => Some(*x), Some(b) => if time(x) > time(&b) || (last_wins && time(x) == time(&b)) { Some(*x) } else { Some(b) } };
    }
    best
}

impl Model {
    fn new(lay: &Layout) -> Self { Model { bal: vec![vec![]; lay.n_asset], ltp: vec![vec![]; lay.n_inst], l1: vec![vec![]; lay.n_inst], ord: vec![BTreeMap::new(); lay.n_inst] } }
    fn order_update(&mut self, i: usize, cid: &'static str, ts: i64, filled: i64) { self.ord[i].entry(cid).or_default().delivered.push((ts, filled)); }
    /// returns the items the delivery addresses
    fn apply(&mut self, d: &Dl) -> Vec<Item> {
        match d {
            Dl::Bal { a, t, v } => { self.bal[*a].push((*t, *v)); vec![Item::Asset(*a)] }
            Dl::Trade { i, t, px } => { self.ltp[*i].push((*t, *px)); vec![Item::Ltp(*i)] }
            Dl::L1 { i, t, bid, ask } => { self.l1[*i].push((*t, *bid, *ask)); vec![Item::L1(*i)] }
            Dl::Ord { i, cid, t, filled } => { self.order_update(*i, *cid, *t, *filled); vec![Item::Order(*i, *cid)] }
            Dl::Snap { bals, ords, .. } => {
                let mut items = vec![];
                for (a, t, v) in bals { self.bal[*a].push((*t, *v)); items.push(Item::Asset(*a)); }
                for (i, cid, t, fl) in ords { self.order_update(*i, *cid, *t, *fl); items.push(Item::Order(*i, *cid)); }
                items
            }
            Dl::CancelMark { i, cid } => {
                // recording a cancel for an untracked order is ignored by the order manager
                if let Some(o) = self.ord[*i].get_mut(cid) { o.cif = true; }
                vec![Item::Order(*i, *cid)]
            }
        }
    }
    fn balance(&self, a: usize) -> Option<Timed<Balance>> { newest(&self.bal[a], |x| x.0, true).map(|(ts, v)| Timed::new(Balance::new(Decimal::from(v), Decimal::from(v)), t(ts))) }
    fn last_traded(&self, i: usize) -> Option<Timed<Decimal>> { newest(&self.ltp[i], |x| x.0, false).map(|(ts, px)| Timed::new(Decimal::from(px), t(ts))) }
    fn book(&self, i: usize) -> OrderBookL1 { newest(&self.l1[i], |x| x.0, false).map(|(ts, b, a)| l1(ts, b, a)).unwrap_or_default() }
    fn order(&self, i: usize, cid: &'static str) -> Option<ActiveOrderState> {
        let o = self.ord[i].get(cid)?;
        let data = newest(&o.delivered, |x| x.0, true).map(|(ts, fl)| open_state(cid, ts, fl));
        if o.cif { return Some(ActiveOrderState::CancelInFlight(CancelInFlight { order: data })); }
        match data { Some(open) => Some(ActiveOrderState::Open(open)), None if o.oif => Some(ActiveOrderState::OpenInFlight(OpenInFlight)), None => None }
    }
}

// ------------------------------------------------------------------------------------------------- checking
struct Ctx<'a> { lay: &'a Layout, seen: &'a mut HashSet<&'static str>, setup: String, cases: u64 }

fn item_name(lay: &Layout, it: &Item) -> String {
    match it {
        Item::Asset(a) => format!("balance of asset{a} ({})", lay.asset_names[*a]),
        Item::Ltp(i) => format!("last traded price of inst{i} ({})", lay.inst_names[*i]),
        Item::L1(i) => format!("L1 of inst{i} ({})", lay.inst_names[*i]),
        Item::Order(i, cid) => format!("order {cid} of inst{i} ({})", lay.inst_names[*i]),
    }
}

/// compares the engine with the oracle after delivery `d`; `before`: the engine state before the delivery. true iff everything agrees
fn check(cx: &mut Ctx, before: &State, after: &State, m: &Model, d: &Dl, addressed: &[Item], trace: &[Dl]) -> bool {
    let lay = cx.lay;
    let mut fails: Vec<(&'static str, String, String)> = vec![];
    let own = |it: Item| -> &'static str {
        if !addressed.contains(&it) { return L_OTHER; }
        match (d, it) { (Dl::Snap { .. }, _) => L_SNAP, (_, Item::Asset(_)) => L_BAL, (_, Item::Ltp(_)) => L_LTP, (_, Item::L1(_)) => L_L1, (_, Item::Order(..)) => L_ORD }
    };
    let exp_txt = |it: Item, exp: String| -> String {
        if !addressed.contains(&it) { return format!("{exp} (item not addressed by this delivery: untouched)"); }
        format!("{exp} ({})", match it { Item::Asset(_) | Item::Order(..) => RULE_LAST, _ => RULE_FIRST })
    };
    for a in 0..lay.n_asset {
        let (got, exp) = (&after.assets.asset_index(&AssetIndex(a)).balance, m.balance(a));
        if *got != exp { let it = Item::Asset(a); fails.push((own(it), format!("{} = {}", item_name(lay, &it), show_bal(got)), exp_txt(it, show_bal(&exp)))); }
        if !addressed.contains(&Item::Asset(a)) && after.assets.asset_index(&AssetIndex(a)) != before.assets.asset_index(&AssetIndex(a)) {
            fails.push((L_OTHER, format!("AssetState of asset{a} ({}) changed: {:?}", lay.asset_names[a], after.assets.asset_index(&AssetIndex(a))), format!("unchanged: {:?}", before.assets.asset_index(&AssetIndex(a)))));
        }
    }
    for i in 0..lay.n_inst {
        let (sa, sb) = (after.instruments.instrument_index(&InstrumentIndex(i)), before.instruments.instrument_index(&InstrumentIndex(i)));
        let exp = m.last_traded(i);
        if sa.data.last_traded_price != exp { let it = Item::Ltp(i); fails.push((own(it), format!("{} = {}", item_name(lay, &it), show_ltp(&sa.data.last_traded_price)), exp_txt(it, show_ltp(&exp)))); }
        let exp = m.book(i);
        if sa.data.l1 != exp { let it = Item::L1(i); fails.push((own(it), format!("{} = {}", item_name(lay, &it), show_l1(&sa.data.l1)), exp_txt(it, show_l1(&exp)))); }
        let mut cids: Vec<&'static str> = m.ord[i].keys().copied().collect();
        for c in sa.orders.0.keys() { if !cids.iter().any(|k| *k == c.0.as_str()) { cids.push(Box::leak(c.0.to_string().into_boxed_str())); } }
        for cid in cids {
            let got = sa.orders.0.get(&ClientOrderId::new(cid)).map(|o| o.state.clone());
            let exp = m.order(i, cid);
            if got != exp { let it = Item::Order(i, cid); fails.push((own(it), format!("{} = {}", item_name(lay, &it), show_ord(&got)), exp_txt(it, show_ord(&exp)))); }
        }
        let touched = addressed.iter().any(|it| matches!(it, Item::Ltp(j) | Item::L1(j) | Item::Order(j, _) if *j == i));
        if !touched && sa != sb { fails.push((L_OTHER, format!("InstrumentState of inst{i} ({}) changed", lay.inst_names[i]), "unchanged".into())); }
        if touched && (sa.position != sb.position || sa.tear_sheet != sb.tear_sheet || sa.key != sb.key || sa.instrument != sb.instrument) {
            fails.push((L_OTHER, format!("position / tear sheet / definition of inst{i} changed"), "unchanged".into()));
        }
    }
    if after.trading != before.trading || after.global != before.global { fails.push((L_OTHER, "trading state / global data changed".into(), "unchanged".into())); }
    let ok = fails.is_empty();
    for (label, obs, exp) in fails {
        if cx.seen.insert(label) {
            let k = trace.len();
            report(label, format!("{}; deliveries in order: {trace:?}", cx.setup), format!("after delivery #{k} {d:?}: {obs}"), exp);
        }
    }
    ok
}
fn rel(x: &DateTime<Utc>) -> i64 { x.timestamp() - 1_700_000_000 }
fn show_bal(b: &Option<Timed<Balance>>) -> String { match b { None => "None".into(), Some(b) => format!("(total={} free={} @t={})", b.value.total, b.value.free, rel(&b.time)) } }
fn show_ltp(b: &Option<Timed<Decimal>>) -> String { match b { None => "None".into(), Some(b) => format!("({} @t={})", b.value, rel(&b.time)) } }
fn show_l1(b: &OrderBookL1) -> String {
    if *b == OrderBookL1::default() { return "default (nothing held)".into(); }
    format!("(bid={:?} ask={:?} @t={})", b.best_bid.map(|l| l.price), b.best_ask.map(|l| l.price), rel(&b.last_update_time))
}
fn show_open(o: &Open) -> String { format!("filled={} @t={}", o.filled_quantity, rel(&o.time_exchange)) }
fn show_ord(s: &Option<ActiveOrderState>) -> String {
    match s {
        None => "untracked".into(),
        Some(ActiveOrderState::OpenInFlight(_)) => "OpenInFlight".into(),
        Some(ActiveOrderState::Open(o)) => format!("Open({})", show_open(o)),
        Some(ActiveOrderState::CancelInFlight(c)) => format!("CancelInFlight({})", c.order.as_ref().map(show_open).unwrap_or("no open data".into())),
    }
}

/// every sequence (with repetition) of exactly `remaining` more deliveries from `alphabet` (prefixes shared); the oracle is consulted
/// after the LAST delivery only - `explore` deepens the bound one by one, so every prefix has been checked before (and witnesses are
/// as short as possible). false iff some sequence failed
fn dfs(cx: &mut Ctx, state: &State, m: &Model, alphabet: &[Dl], remaining: usize, trace: &mut Vec<Dl>) -> bool {
    let mut all_ok = true;
    for d in alphabet {
        // a cancel is recorded at most once per sequence and only for a tracked order
        if let Dl::CancelMark { i, cid } = d { if trace.contains(d) || !m.ord[*i].contains_key(cid) { continue; } }
        let (mut s2, mut m2) = (state.clone(), m.clone());
        trace.push(d.clone());
        deliver(&mut s2, cx.lay, d, trace.len() as i64);
        let addressed = m2.apply(d);
        if remaining == 1 {
            cx.cases += 1;
            all_ok &= check(cx, state, &s2, &m2, d, &addressed, trace);
        } else {
            all_ok &= dfs(cx, &s2, &m2, alphabet, remaining - 1, trace);
        }
        trace.pop();
    }
    all_ok
}

/// `seeded`: builder balances (t=0); `oif`: orders recorded OpenInFlight before the first delivery
fn explore(lay: &Layout, seen: &mut HashSet<&'static str>, seeded: &[(usize, &str, i64)], oif: &[(usize, &'static str)], alphabet: &[Dl], depth: usize) -> u64 {
    let mut state = fresh_state(lay, seeded);
    let mut m = Model::new(lay);
    for (x, name, v) in seeded {
        let a = (0..lay.n_asset).find(|a| lay.asset_names[*a] == format!("{}:{name}", lay.ex_ids[*x].as_str())).expect("seeded asset");
        m.bal[a].push((0, *v));
    }
    for (i, cid) in oif { record_open(&mut state, lay, *i, cid); m.ord[*i].entry(cid).or_default().oif = true; }
    let setup = format!("EngineState over {:?} (assets {:?}), builder balances (t=0) {seeded:?}, orders recorded OpenInFlight {oif:?}", lay.inst_names, lay.asset_names);
    let mut cx = Ctx { lay, seen, setup, cases: 0 };
    // a failing sequence ends the group (its extensions say nothing new)
    for bound in 1..=depth { if !dfs(&mut cx, &state, &m, alphabet, bound, &mut vec![]) { break; } }
    cx.cases
}

// ------------------------------------------------------------------------------------------------- update sets
/// (timestamp, value index): distinct times; the same value at different times; tied times; t=0 ties with a builder balance; 5 elements with (5, 10, 6)
const SETS: [&[(i64, usize)]; 6] = [
    &[(1, 0), (2, 1)],
    &[(1, 0), (2, 1), (3, 2)],
    &[(1, 0), (3, 0), (2, 1)],
    &[(2, 0), (2, 1), (1, 2)],
    &[(0, 0), (2, 1), (2, 2), (4, 0)],
    &[(5, 0), (10, 1), (6, 2), (10, 0), (1, 1)],
];

pub fn run(seed: u64, thorough: bool) -> u64 {
    let lay = layout();
    let mut seen: HashSet<&'static str> = HashSet::new();
    let mut n = 0u64;
    assert_eq!((lay.n_inst, lay.ex_ids.len()), (3, 2), "layout");
    // indices by name (index order is by exchange, not by definition order)
    let asset = |name: &str| (0..lay.n_asset).find(|a| lay.asset_names[*a] == name).expect("asset");
    let inst = |name: &str| (0..lay.n_inst).find(|i| lay.inst_names[*i] == name).expect("instrument");
    let (x_bin, x_kra) = (lay.ex_ids.iter().position(|e| *e == ExchangeId::BinanceSpot).unwrap(), lay.ex_ids.iter().position(|e| *e == ExchangeId::Kraken).unwrap());
    let (b_btc, b_usdt, b_eth, k_btc, k_usdt) = (asset("binance_spot:btc"), asset("binance_spot:usdt"), asset("binance_spot:eth"), asset("kraken:btc"), asset("kraken:usdt"));
    let (i_bb, i_be, i_kb) = (inst("binance_spot-btc_usdt"), inst("binance_spot-eth_usdt"), inst("kraken-btc_usdt"));
    let _ = (b_eth, k_usdt);
    let seeded_usdt: [(usize, &str, i64); 1] = [(x_bin, "usdt", 1000)];
    // bound on the sequence length by alphabet size (quick / thorough)
    let depth_for = |k: usize| -> usize { let budget: f64 = if thorough { 200_000.0 } else { 4_500.0 }; ((budget.ln() / (k as f64).ln()).floor() as usize).clamp(3, if thorough { 9 } else { 6 }) };

    const BALS: [i64; 3] = [5, 7, 9];
    const PXS: [i64; 3] = [100, 99, 101];
    const BOOKS: [(Option<i64>, Option<i64>); 3] = [(Some(99), Some(101)), (Some(98), None), (None, Some(102))];
    const FILLS: [i64; 3] = [0, 3, 5];
    for set in SETS {
        // --- balances, streamed: one asset; two assets with the same name on two exchanges; two assets of one exchange (one seeded by the builder)
        for (targets, seeded) in [(vec![b_btc], &[][..]), (vec![b_usdt], &seeded_usdt[..]), (vec![b_btc, k_btc], &[][..]), (vec![b_usdt, b_btc], &seeded_usdt[..])] {
            let alphabet: Vec<Dl> = targets.iter().flat_map(|a| set.iter().map(move |(ts, v)| Dl::Bal { a: *a, t: *ts, v: BALS[*v] })).collect();
            if alphabet.len() > 8 { continue; }
            n += explore(&lay, &mut seen, seeded, &[], &alphabet, depth_for(alphabet.len()));
        }
        // --- last traded price / L1: one instrument; the same instrument name on two exchanges; two instruments of one exchange; trades and L1 mixed
        for targets in [vec![i_bb], vec![i_bb, i_kb], vec![i_be, i_bb]] {
            let trades: Vec<Dl> = targets.iter().flat_map(|i| set.iter().map(move |(ts, v)| Dl::Trade { i: *i, t: *ts, px: PXS[*v] })).collect();
            let books: Vec<Dl> = targets.iter().flat_map(|i| set.iter().map(move |(ts, v)| Dl::L1 { i: *i, t: *ts, bid: BOOKS[*v].0, ask: BOOKS[*v].1 })).collect();
            for alphabet in [trades.clone(), books.clone()] {
                if alphabet.len() > 8 { continue; }
                n += explore(&lay, &mut seen, &[], &[], &alphabet, depth_for(alphabet.len()));
            }
            if targets.len() == 1 && set.len() <= 4 {
                let mixed: Vec<Dl> = trades.iter().chain(books.iter()).cloned().collect();
                n += explore(&lay, &mut seen, &[], &[], &mixed, depth_for(mixed.len()));
            }
        }
        // --- open order data, streamed: one order (untracked / recorded OpenInFlight before, cancel recorded in between); two orders of one
        //     instrument; the same cid on two instruments
        for (targets, oif) in [(vec![(i_bb, "c1")], vec![]), (vec![(i_bb, "c1")], vec![(i_bb, "c1")]), (vec![(i_bb, "c1"), (i_bb, "c2")], vec![(i_bb, "c2")]), (vec![(i_kb, "c1"), (i_bb, "c1")], vec![])] {
            let mut alphabet: Vec<Dl> = targets.iter().flat_map(|(i, cid)| set.iter().map(move |(ts, v)| Dl::Ord { i: *i, cid: *cid, t: *ts, filled: FILLS[*v] })).collect();
            if alphabet.len() > 8 { continue; }
            alphabet.push(Dl::CancelMark { i: targets[0].0, cid: targets[0].1 });
            n += explore(&lay, &mut seen, &[], &oif, &alphabet, depth_for(alphabet.len()));
        }
        // --- full account snapshots interleaved with streamed updates. Every update of the set can arrive streamed or inside a full
        //     snapshot of its exchange (older / equal / newer than what is held, depending on the sequence); the snapshot also carries the
        //     exchange's other asset and an order, stamped so that THEIR times go down when the target's go up
        if set.len() <= 4 {
            let tmax = set.iter().map(|s| s.0).max().unwrap();
            for seeded in [&[][..], &seeded_usdt[..]] {
                let mut alphabet: Vec<Dl> = vec![];
                for (ts, v) in set {
                    alphabet.push(Dl::Bal { a: b_usdt, t: *ts, v: BALS[*v] });
                    alphabet.push(Dl::Snap { x: x_bin, bals: vec![(b_usdt, *ts, BALS[*v]), (b_btc, tmax - *ts, BALS[*v])], ords: vec![(i_bb, "c1", tmax - *ts, FILLS[*v])] });
                }
                n += explore(&lay, &mut seen, seeded, &[], &alphabet, depth_for(alphabet.len()));
            }
            for oif in [vec![], vec![(i_bb, "c1")]] {
                let mut alphabet: Vec<Dl> = vec![];
                for (ts, v) in set {
                    alphabet.push(Dl::Ord { i: i_bb, cid: "c1", t: *ts, filled: FILLS[*v] });
                    alphabet.push(Dl::Snap { x: x_bin, bals: vec![(b_btc, tmax - *ts, BALS[*v])], ords: vec![(i_bb, "c1", *ts, FILLS[*v]), (i_be, "c1", tmax - *ts, FILLS[*v])] });
                }
                if set.len() <= 3 { alphabet.push(Dl::CancelMark { i: i_bb, cid: "c1" }); }
                n += explore(&lay, &mut seen, &[], &oif, &alphabet, depth_for(alphabet.len()));
            }
            // snapshots only, of BOTH exchanges, same asset / instrument names
            let mut alphabet: Vec<Dl> = vec![];
            for (k, (ts, v)) in set.iter().enumerate() {
                let (x, a, i) = if k % 2 == 0 { (x_bin, b_btc, i_bb) } else { (x_kra, k_btc, i_kb) };
                alphabet.push(Dl::Snap { x, bals: vec![(a, *ts, BALS[*v])], ords: vec![(i, "c1", *ts, FILLS[*v])] });
                alphabet.push(Dl::Snap { x, bals: vec![(a, tmax - *ts, BALS[(*v + 1) % 3])], ords: vec![(i, "c1", tmax - *ts, FILLS[(*v + 1) % 3])] });
            }
            n += explore(&lay, &mut seen, &[], &[], &alphabet, depth_for(alphabet.len()));
        }
    }

    // --- seeded random: all item kinds, all items, streamed and in snapshots, tiny time domain (ties are frequent)
    let mut rng = Rng::seeded(seed, 9);
    let cids: [&'static str; 2] = ["c1", "c2"];
    for _ in 0..if thorough { 150_000 } else { 6_000 } {
        let seeded: &[(usize, &str, i64)] = if rng.chance(1, 3) { &seeded_usdt } else { &[] };
        let mut state = fresh_state(&lay, seeded);
        let mut m = Model::new(&lay);
        if !seeded.is_empty() { m.bal[b_usdt].push((0, 1000)); }
        let mut oif = vec![];
        if rng.chance(1, 3) { let (i, cid) = (rng.below(lay.n_inst as u64) as usize, cids[rng.below(2) as usize]); record_open(&mut state, &lay, i, cid); m.ord[i].entry(cid).or_default().oif = true; oif.push((i, cid)); }
        let setup = format!("EngineState over {:?} (assets {:?}), builder balances (t=0) {seeded:?}, orders recorded OpenInFlight {oif:?}", lay.inst_names, lay.asset_names);
        let mut cx = Ctx { lay: &lay, seen: &mut seen, setup, cases: 0 };
        let tdom = 2 + rng.below(5);
        let mut trace: Vec<Dl> = vec![];
        for _ in 0..3 + rng.below(12) {
            let ts = rng.below(tdom) as i64;
            let v = rng.below(3) as usize;
            let d = match rng.below(12) {
                0..=2 => Dl::Bal { a: rng.below(lay.n_asset as u64) as usize, t: ts, v: BALS[v] },
                3..=4 => Dl::Trade { i: rng.below(lay.n_inst as u64) as usize, t: ts, px: PXS[v] },
                5..=6 => Dl::L1 { i: rng.below(lay.n_inst as u64) as usize, t: ts, bid: BOOKS[v].0, ask: BOOKS[v].1 },
                7..=8 => Dl::Ord { i: rng.below(lay.n_inst as u64) as usize, cid: cids[rng.below(2) as usize], t: ts, filled: FILLS[v] },
                9..=10 => {
                    let x = rng.below(2) as usize;
                    let mut bals = vec![];
                    for a in (0..lay.n_asset).filter(|a| lay.asset_ex[*a] == x) { if rng.chance(2, 3) { bals.push((a, rng.below(tdom) as i64, BALS[rng.below(3) as usize])); } }
                    let mut ords = vec![];
                    for i in (0..lay.n_inst).filter(|i| lay.inst_ex[*i] == x) { for cid in cids { if rng.chance(1, 3) { ords.push((i, cid, rng.below(tdom) as i64, FILLS[rng.below(3) as usize])); } } }
                    Dl::Snap { x, bals, ords }
                }
                _ => {
                    let (i, cid) = (rng.below(lay.n_inst as u64) as usize, cids[rng.below(2) as usize]);
                    let d = Dl::CancelMark { i, cid };
                    if trace.contains(&d) || !m.ord[i].contains_key(cid) { continue; }
                    d
                }
            };
            let before = state.clone();
            trace.push(d.clone());
            deliver(&mut state, &lay, &d, trace.len() as i64);
            let addressed = m.apply(&d);
            cx.cases += 1;
            if !check(&mut cx, &before, &state, &m, &d, &addressed, &trace) { break; }
        }
        n += cx.cases;
    }
    n
}
