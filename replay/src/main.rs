//! Witness search / replay on the REAL barter-rs crates (path dependencies on /repo).
//! usage: vx-replay <property> [seed]   -> prints one JSON line per failing case:
//!   {"obligation": "<label>", "input": ..., "observed": ..., "expected": ...}
//! The witness search never decides pass/fail (only the verifier does); it attaches failing inputs to red obligations.
mod c01;
mod c03;
mod c04;
mod c05;
mod c06;
mod c07;
mod c08;
mod c08q;
mod c09;
mod c10;
mod c11;
mod c12;
mod c13;
mod c14;
mod c15;
mod c19;
mod c20;
mod eng;

pub fn report(obligation: &str, input: String, observed: String, expected: String) {
    println!(
        "{}",
        serde_json::json!({"obligation": obligation, "input": input, "observed": observed, "expected": expected})
    );
}

fn main() {
    let args: Vec<String> = std::env::args().collect();
    let pid = args.get(1).map(|s| s.as_str()).unwrap_or("");
    let seed: u64 = args.get(2).and_then(|s| s.parse().ok()).unwrap_or(0);
    let n = match pid {
        "C01" => c01::run(seed),
        "C03" => c03::run(seed, std::env::args().nth(3).as_deref() == Some("thorough")),
        "C04" => c04::run(seed, std::env::args().nth(3).as_deref() == Some("thorough")),
        "C05" => c05::run(seed, std::env::args().nth(3).as_deref() == Some("thorough")),
        "C06" => c06::run(seed, std::env::args().nth(3).as_deref() == Some("thorough")),
        "C07" => c07::run(seed, std::env::args().nth(3).as_deref() == Some("thorough")),
        "C08" => c08::run(seed),
        "C08Q" => c08q::run(seed, std::env::args().nth(3).as_deref() == Some("thorough")),
        "C09" => c09::run(seed, std::env::args().nth(3).as_deref() == Some("thorough")),
        "C10" => c10::run(seed, std::env::args().nth(3).as_deref() == Some("thorough")),
        "C11" => c11::run(seed, std::env::args().nth(3).as_deref() == Some("thorough")),
        "C12" => c12::run(seed, std::env::args().nth(3).as_deref() == Some("thorough")),
        "C13" => c13::run(seed, std::env::args().nth(3).as_deref() == Some("thorough")),
        "C14" => c14::run(seed, std::env::args().nth(3).as_deref() == Some("thorough")),
        "C15" => c15::run(seed),
        "C19" => c19::run(seed, std::env::args().nth(3).as_deref() == Some("thorough")),
        "C20" => c20::run(seed, std::env::args().nth(3).as_deref() == Some("thorough")),
        _ => {
            eprintln!("no witness search for {pid}");
            0
        }
    };
    eprintln!("cases evaluated: {n}");
}
