//! Witness search / replay on the REAL barter-rs crates (path dependencies on /repo).
//! usage: vx-replay <property> [seed]   -> prints one JSON line per failing case:
//!   {"obligation": "<label>", "input": ..., "observed": ..., "expected": ...}
//! The witness search never decides pass/fail (only the verifier does); it attaches failing inputs to red obligations.
#[cfg(feature = "c01")]
mod c01;
#[cfg(feature = "c03")]
mod c03;
#[cfg(feature = "c04")]
mod c04;
#[cfg(feature = "c05")]
mod c05;
#[cfg(feature = "c06")]
mod c06;
#[cfg(feature = "c07")]
mod c07;
#[cfg(feature = "c08")]
mod c08;
#[cfg(feature = "c08q")]
mod c08q;
#[cfg(feature = "c09")]
mod c09;
#[cfg(feature = "c10")]
mod c10;
#[cfg(feature = "c11")]
mod c11;
#[cfg(feature = "c12")]
mod c12;
#[cfg(feature = "c13")]
mod c13;
#[cfg(feature = "c14")]
mod c14;
#[cfg(feature = "c15")]
mod c15;
#[cfg(feature = "c15e")]
mod c15e;
#[cfg(feature = "c01e")]
mod c01e;
#[cfg(feature = "c19")]
mod c19;
#[cfg(feature = "c20")]
mod c20;
#[cfg(feature = "c02")]
mod c02;
#[cfg(feature = "c02e")]
mod c02e;
#[cfg(feature = "c16")]
mod c16;
#[cfg(feature = "c17")]
mod c17;
#[cfg(feature = "c18")]
mod c18;
#[cfg(feature = "eng")]
mod eng;
mod rng;

pub fn report(obligation: &str, input: String, observed: String, expected: String) {
    println!(
        "{}",
        serde_json::json!({"obligation": obligation, "input": input, "observed": observed, "expected": expected})
    );
}

fn main() {
    let args: Vec<String> = std::env::args().collect();
    let pid = args.get(1).map(|s| s.as_str()).unwrap_or("");
    let seed: u64 = args.get(2).and_then(|s| s.parse().ok()).unwrap_or(0);
    let n = match pid {
        #[cfg(feature = "c01")]
        "C01" => c01::run(seed),
        #[cfg(feature = "c03")]
        "C03" => c03::run(seed, std::env::args().nth(3).as_deref() == Some("thorough")),
        #[cfg(feature = "c03")]
        "C02P" => c03::run_process_for_c02(seed, std::env::args().nth(3).as_deref() == Some("thorough")),
        #[cfg(feature = "c03")]
        "C01D" => c03::run_dispatch_for_c01(seed, std::env::args().nth(3).as_deref() == Some("thorough")),
        #[cfg(feature = "c04")]
        "C04" => c04::run(seed, std::env::args().nth(3).as_deref() == Some("thorough")),
        #[cfg(feature = "c05")]
        "C05" => c05::run(seed, std::env::args().nth(3).as_deref() == Some("thorough")),
        #[cfg(feature = "c06")]
        "C06" => c06::run(seed, std::env::args().nth(3).as_deref() == Some("thorough")),
        #[cfg(feature = "c07")]
        "C07" => c07::run(seed, std::env::args().nth(3).as_deref() == Some("thorough")),
        #[cfg(feature = "c07")]
        "C04B" => c07::run_builder_for_c04(seed, std::env::args().nth(3).as_deref() == Some("thorough")),
        #[cfg(feature = "c08")]
        "C08" => c08::run(seed),
        #[cfg(feature = "c08q")]
        "C08Q" => c08q::run(seed, std::env::args().nth(3).as_deref() == Some("thorough")),
        #[cfg(feature = "c09")]
        "C09" => c09::run(seed, std::env::args().nth(3).as_deref() == Some("thorough")),
        #[cfg(feature = "c10")]
        "C10" => c10::run(seed, std::env::args().nth(3).as_deref() == Some("thorough")),
        #[cfg(feature = "c11")]
        "C11" => c11::run(seed, std::env::args().nth(3).as_deref() == Some("thorough")),
        #[cfg(feature = "c12")]
        "C12" => c12::run(seed, std::env::args().nth(3).as_deref() == Some("thorough")),
        #[cfg(feature = "c13")]
        "C13" => c13::run(seed, std::env::args().nth(3).as_deref() == Some("thorough")),
        #[cfg(feature = "c14")]
        "C14" => c14::run(seed, std::env::args().nth(3).as_deref() == Some("thorough")),
        #[cfg(feature = "c15")]
        "C15" => c15::run(seed),
        #[cfg(feature = "c15e")]
        "C15E" => c15e::run(seed, std::env::args().nth(3).as_deref() == Some("thorough")),
        #[cfg(feature = "c01e")]
        "C01E" => c01e::run(seed, std::env::args().nth(3).as_deref() == Some("thorough")),
        #[cfg(feature = "c19")]
        "C19" => c19::run(seed, std::env::args().nth(3).as_deref() == Some("thorough")),
        #[cfg(feature = "c20")]
        "C20" => c20::run(seed, std::env::args().nth(3).as_deref() == Some("thorough")),
        #[cfg(feature = "c02")]
        "C02" => c02::run(seed, std::env::args().nth(3).as_deref() == Some("thorough")),
        #[cfg(feature = "c02e")]
        "C02E" => c02e::run(seed, std::env::args().nth(3).as_deref() == Some("thorough")),
        #[cfg(feature = "c16")]
        "C16" => c16::run(seed, std::env::args().nth(3).as_deref() == Some("thorough")),
        #[cfg(feature = "c17")]
        "C17" => c17::run(seed, std::env::args().nth(3).as_deref() == Some("thorough")),
        #[cfg(feature = "c18")]
        "C18" => c18::run(seed, std::env::args().nth(3).as_deref() == Some("thorough")),
        _ => {
            eprintln!("no witness search for {pid}");
            0
        }
    };
    eprintln!("cases evaluated: {n}");
}
