//! C06 bounded checker (stream side): "any break in the Binance L2 update chain surfaces as a terminal sequence error
//! that forces re-initialisation".
//! Drives the REAL Binance spot and futures L2 transformers / sequencers behind the REAL
//! `with_termination_on_error(|e| e.is_terminal(), ..)` + `with_reconnection_events` on perturbed deliveries of a venue
//! side update chain (drop / duplicate / swap / replay of an old prefix / late or early start; two instruments on one
//! connection; a second, clean connection afterwards) and checks:
//!  - the updates admitted for an instrument form an unbroken chain under the venue rule (from the delivered events alone),
//!  - a break ends the connection: nothing from it is delivered afterwards, one Reconnecting notice follows, then the
//!    next connection; at the transformer the break is reported as exactly one terminal error,
//!  - gap-free in-order delivery preceded by any number of strictly older messages never errors.
//! Second half (`book_cases`): a ground-truth exchange book (history of level changes, depth updates carrying the changed
//! levels incl. removals, REST snapshots = the full book as of lastUpdateId) is delivered - perturbed, over several
//! connections, two instruments per connection - through the same real pieces into the REAL `OrderBookL2Manager` /
//! `OrderBook`s, and after every applied event
//!  - the local book equals the exchange book as of the sequence number the local book reports,
//!  - a re-initialisation snapshot replaces the invalidated book (no ghost levels),
//!  - and the manager was handed exactly the reference's events (nothing of a connection after its break, notice next).
use crate::{rng::Rng, report};
use barter_data::{
    books::{Level, manager::OrderBookL2Manager, map::{OrderBookMap, OrderBookMapMulti}},
    error::DataError,
    event::MarketEvent,
    exchange::binance::{
        book::l2::BinanceOrderBookL2Snapshot,
        futures::l2::BinanceFuturesUsdOrderBooksL2Transformer,
        spot::l2::BinanceSpotOrderBooksL2Transformer,
    },
    streams::{consumer::StreamKey, reconnect::{Event, stream::ReconnectingStream}},
    subscription::{Map, book::{OrderBookEvent, OrderBooksL2}},
    transformer::ExchangeTransformer,
};
use barter_instrument::exchange::ExchangeId;
use barter_integration::{Transformer, protocol::websocket::{WebSocketParser, WsMessage}, subscription::SubscriptionId};
use fnv::FnvHashMap;
use futures::{FutureExt, StreamExt, future::LocalBoxFuture};
use rust_decimal::Decimal;
use std::{cell::RefCell, collections::{BTreeMap, HashSet}, rc::Rc, sync::Arc};

const L_CHAIN: &str = "C06.bounded.admitted_chain_unbroken";
const L_ENDS: &str = "C06.bounded.break_ends_connection";
const L_TERMINAL: &str = "C06.bounded.break_is_terminal_error";
const L_GAPFREE: &str = "C06.bounded.gap_free_never_errors";
const L_ADMITTED: &str = "C06.bounded.admitted_equals_reference";
const L_SOFT: &str = "C06.bounded.nonterminal_error_passed_through";
const L_BOOK: &str = "C06.bounded.book_equals_exchange_book_at_reported_sequence";
const L_REINIT: &str = "C06.bounded.reinit_snapshot_replaces_book";
/// only with VX_C06_BUFFERED_BEFORE_SNAPSHOT=1, see `buffered_cases_enabled`
const L_BUFFERED: &str = "C06.bounded.buffered_update_before_snapshot_keeps_book_exact";

type Key = &'static str;
type Out = Result<MarketEvent<Key, OrderBookEvent>, DataError>;
const KEYS: [Key; 2] = ["a", "b"];
const SYMBOLS: [&str; 3] = ["AAAUSDT", "BBBUSDT", "ZZZUSDT"]; // the last one is not subscribed

#[derive(Clone, Copy, Debug, PartialEq, Eq)]
enum Venue { Spot, Futures }

/// venue side depth update: ids [first, last], `prev` = last id of the previous update of that symbol
#[derive(Clone, Copy, Debug, PartialEq, Eq)]
struct Upd { sym: usize, first: u64, last: u64, prev: u64 }

#[derive(Clone, Copy, Debug, PartialEq, Eq)]
enum Ev { Snapshot(usize, u64), Update(usize, u64), SoftErr, HardErr, Notice }

#[derive(Clone, Copy, Debug, PartialEq, Eq)]
enum Perturb { None, Drop(usize), Dup(usize), Swap(usize), Replay(usize, usize) }

/// contiguous venue chain of `m` updates starting at id `base`
fn chain(sym: usize, base: u64, m: usize, venue: Venue) -> Vec<Upd> {
    let lens = [3u64, 1, 4, 2, 1, 3, 2, 5, 1, 2];
    let mut out = vec![];
    let (mut next, mut prev) = (base, base - 1);
    for k in 0..m {
        // futures ids are shared between symbols: consecutive updates of one symbol need not be contiguous, `pu` links them
        let gap = if venue == Venue::Futures && k % 3 == 2 { 2 } else { 0 };
        let first = next + gap;
        let last = first + lens[(k + sym) % lens.len()] - 1;
        out.push(Upd { sym, first, last, prev });
        prev = last;
        next = last + 1;
    }
    out
}

fn perturb(c: &[Upd], start: usize, p: Perturb) -> Vec<Upd> {
    let mut v: Vec<Upd> = c[start.min(c.len())..].to_vec();
    match p {
        Perturb::None => {}
        Perturb::Drop(i) => { if i < v.len() { v.remove(i); } }
        Perturb::Dup(i) => { if i < v.len() { let u = v[i]; v.insert(i, u); } }
        Perturb::Swap(i) => { if i + 1 < v.len() { v.swap(i, i + 1); } }
        Perturb::Replay(i, j) => { if i < v.len() { let old: Vec<Upd> = c[..=j.min(c.len() - 1)].to_vec(); let at = i + 1; for (k, u) in old.into_iter().enumerate() { v.insert(at + k, u); } } }
    }
    v
}

/// per instrument reference sequencer: the venue's documented procedure
#[derive(Clone, Copy)]
struct RefSeq { last: u64, first: bool }
enum Step { Dropped, Admitted, Break }
impl RefSeq {
    fn step(&mut self, venue: Venue, u: &Upd) -> Step {
        let ok = match venue {
            Venue::Spot => {
                if u.last <= self.last { return Step::Dropped; }
                if self.first { u.first <= self.last + 1 && u.last >= self.last + 1 } else { u.first == self.last + 1 }
            }
            Venue::Futures => {
                if u.last < self.last { return Step::Dropped; }
                if self.first { u.first <= self.last && u.last >= self.last } else { u.prev == self.last }
            }
        };
        if !ok { return Step::Break; }
        self.last = u.last;
        self.first = false;
        Step::Admitted
    }
}

struct ConnRef { events: Vec<Ev>, break_at: Option<usize> }
fn reference(venue: Venue, snaps: [u64; 2], deliveries: &[Upd]) -> ConnRef {
    let mut seqs = [RefSeq { last: snaps[0], first: true }, RefSeq { last: snaps[1], first: true }];
    let mut r = ConnRef { events: vec![], break_at: None };
    for (k, u) in deliveries.iter().enumerate() {
        if u.sym >= 2 { r.events.push(Ev::SoftErr); continue; }
        match seqs[u.sym].step(venue, u) {
            Step::Dropped => {}
            Step::Admitted => r.events.push(Ev::Update(u.sym, u.last)),
            Step::Break => { r.break_at = Some(k); break; }
        }
    }
    r.events.push(Ev::Notice);
    r
}

fn snapshot_event(venue: Venue, key: Key, id: u64) -> MarketEvent<Key, OrderBookEvent> {
    let snap: BinanceOrderBookL2Snapshot = serde_json::from_value(serde_json::json!({
        "lastUpdateId": id, "E": 1589436922972u64, "T": 1589436922959u64, "bids": [["99", "1"]], "asks": [["101", "1"]],
    })).expect("snapshot");
    MarketEvent::from((if venue == Venue::Spot { ExchangeId::BinanceSpot } else { ExchangeId::BinanceFuturesUsd }, key, snap))
}

fn update_json(u: &Upd) -> String {
    serde_json::json!({
        "e": "depthUpdate", "E": 1571889248277u64, "T": 1571889248276u64, "s": SYMBOLS[u.sym],
        "U": u.first, "u": u.last, "pu": u.prev, "b": [["99", "2"]], "a": [],
    }).to_string()
}

fn instrument_map() -> Map<Key> {
    Map::from_iter([
        (SubscriptionId::from(format!("@depth@100ms|{}", SYMBOLS[0])), KEYS[0]),
        (SubscriptionId::from(format!("@depth@100ms|{}", SYMBOLS[1])), KEYS[1]),
    ])
}

/// per delivery record of what the transformer returned: (delivery index within the connection, ok outputs, terminal errors, other errors)
type Log = Rc<RefCell<Vec<(usize, usize, usize, usize)>>>;

/// the websocket side of one connection: every payload goes through the real transformer when (and only when) the consumer polls for it
fn connection<T>(mut tf: T, payloads: Vec<String>, log: Log) -> futures::stream::LocalBoxStream<'static, Out>
where
    T: Transformer<Output = MarketEvent<Key, OrderBookEvent>, Error = DataError, OutputIter = Vec<Out>> + 'static,
{
    futures::stream::iter(payloads.into_iter().enumerate())
        .map(move |(k, payload)| {
            let input: T::Input = serde_json::from_str(&payload).expect("depth update payload");
            let out = tf.transform(input);
            let oks = out.iter().filter(|o| o.is_ok()).count();
            let hard = out.iter().filter(|o| matches!(o, Err(e) if e.is_terminal())).count();
            log.borrow_mut().push((k, oks, hard, out.len() - oks - hard));
            futures::stream::iter(out)
        })
        .flatten()
        .boxed_local()
}

/// the real transformer, with the outcome of every message logged (what `connection` logs), so that it can sit inside the REAL ExchangeStream
struct Logged<T> { tf: T, log: Log, k: usize }
impl<T> Transformer for Logged<T>
where
    T: Transformer<Output = MarketEvent<Key, OrderBookEvent>, Error = DataError, OutputIter = Vec<Out>>,
{
    type Error = DataError;
    type Input = T::Input;
    type Output = MarketEvent<Key, OrderBookEvent>;
    type OutputIter = Vec<Out>;
    fn transform(&mut self, input: Self::Input) -> Self::OutputIter {
        let out = self.tf.transform(input);
        let oks = out.iter().filter(|o| o.is_ok()).count();
        let hard = out.iter().filter(|o| matches!(o, Err(e) if e.is_terminal())).count();
        self.log.borrow_mut().push((self.k, oks, hard, out.len() - oks - hard));
        self.k += 1;
        out
    }
}

struct Case { venue: Venue, snaps: [u64; 2], deliveries: Vec<Upd>, desc: String, gap_free: bool }

fn run_case<T>(case: &Case, make: &dyn Fn([u64; 2]) -> T, chains: &[Vec<Upd>; 2], seen: &mut HashSet<&'static str>)
where
    T: Transformer<Output = MarketEvent<Key, OrderBookEvent>, Error = DataError, OutputIter = Vec<Out>> + 'static,
{
    let venue = case.venue;
    // connection #2: what re-initialisation produces (fresh snapshots, fresh sequencers, clean delivery); ids offset by 10_000
    let snaps2 = [10_000 + 1, 10_000 + 2];
    let deliveries2: Vec<Upd> = {
        let a = chain(0, 10_000, 4, venue);
        let b = chain(1, 10_000, 4, venue);
        a.into_iter().zip(b).flat_map(|(x, y)| [x, y]).collect()
    };
    let want1 = reference(venue, case.snaps, &case.deliveries);
    let want2 = reference(venue, snaps2, &deliveries2);
    let mut want: Vec<Ev> = want1.events.clone();
    want.extend(want2.events.iter().cloned());

    let (log1, log2): (Log, Log) = Default::default();
    let payloads = |d: &[Upd]| d.iter().map(update_json).collect::<Vec<_>>();
    let conns = vec![connection(make(case.snaps), payloads(&case.deliveries), log1.clone()), connection(make(snaps2), payloads(&deliveries2), log2.clone())];
    let key = StreamKey::new("market_stream", ExchangeId::BinanceSpot, Some("l2"));
    let events: Vec<Ev> = futures::executor::block_on(
        futures::stream::iter(conns)
            .with_termination_on_error(|e: &DataError| e.is_terminal(), key)
            .with_reconnection_events(ExchangeId::BinanceSpot)
            .map(|e| match e {
                Event::Reconnecting(_) => Ev::Notice,
                Event::Item(Ok(ev)) => match &ev.kind {
                    OrderBookEvent::Update(book) => Ev::Update(KEYS.iter().position(|k| *k == ev.instrument).unwrap_or(9), book.sequence),
                    OrderBookEvent::Snapshot(book) => Ev::Update(8, book.sequence),
                },
                Event::Item(Err(e)) => if e.is_terminal() { Ev::HardErr } else { Ev::SoftErr },
            })
            .collect::<Vec<_>>(),
    );
    let input = || format!("{:?}: snapshots lastUpdateId a={} b={}; connection #1 deliveries (symbol U..u pu) [{}]; {}", venue, case.snaps[0], case.snaps[1],
        case.deliveries.iter().map(|u| format!("{} {}..{} pu={}", SYMBOLS[u.sym], u.first, u.last, u.prev)).collect::<Vec<_>>().join(", "), case.desc);
    let mut fail = |label: &'static str, observed: String, expected: String| { if seen.insert(label) { report(label, input(), observed, expected); } };

    let first_notice = events.iter().position(|e| *e == Ev::Notice).unwrap_or(events.len());
    let conn1 = &events[..first_notice];
    // 1. admitted updates of connection #1 form an unbroken chain under the venue rule (delivered events only)
    for sym in 0..2 {
        let admitted: Vec<u64> = conn1.iter().filter_map(|e| match e { Ev::Update(s, u) if *s == sym => Some(*u), _ => None }).collect();
        let mut prev: Option<Upd> = None;
        for u in admitted {
            let Some(upd) = chains[sym].iter().find(|c| c.last == u) else { fail(L_CHAIN, format!("update with sequence {u} delivered for {}", KEYS[sym]), "only venue updates".into()); break; };
            let s = case.snaps[sym];
            let ok = match (venue, prev) {
                (Venue::Spot, None) => upd.first <= s + 1 && upd.last >= s + 1,
                (Venue::Futures, None) => upd.first <= s && upd.last >= s,
                (Venue::Spot, Some(p)) => upd.first == p.last + 1,
                (Venue::Futures, Some(p)) => upd.prev == p.last,
            };
            if !ok {
                fail(L_CHAIN, format!("{}: update {}..{} (pu={}) admitted after {}; delivered {:?}", KEYS[sym], upd.first, upd.last, upd.prev, prev.map(|p| format!("update ..{}", p.last)).unwrap_or(format!("snapshot {s}")), events),
                     "first admitted update covers the snapshot id (spot: U <= id+1 <= u, futures: U <= id <= u), every further one continues the previous (spot: U == u_prev+1, futures: pu == u_prev); otherwise a terminal error".into());
                break;
            }
            prev = Some(*upd);
        }
    }
    // 2. a break ends the connection
    if let Some(k) = want1.break_at {
        let n_before = want1.events.len() - 1;
        if conn1.len() > n_before || events.get(n_before) != Some(&Ev::Notice) {
            fail(L_ENDS, format!("chain of {} breaks at delivery #{k}; delivered {:?}", SYMBOLS[case.deliveries[k].sym], events), format!("{want:?} (connection ends at the break, one notice, then the next connection)"));
        }
        // at the transformer: exactly one terminal error for the breaking delivery
        let l = log1.borrow();
        if let Some(rec) = l.iter().find(|r| r.0 == k) {
            if (rec.1, rec.2, rec.3) != (0, 1, 0) { fail(L_TERMINAL, format!("transformer output for delivery #{k}: {} events, {} terminal errors, {} other errors", rec.1, rec.2, rec.3), "exactly one terminal (InvalidSequence) error".into()); }
        } else if events == want {
            fail(L_TERMINAL, format!("delivery #{k} never reached the transformer"), "processed and reported as terminal error".into());
        }
        if l.iter().any(|r| r.0 > k) { fail(L_ENDS, format!("deliveries {:?} of connection #1 were still processed after the break at #{k}", l.iter().filter(|r| r.0 > k).map(|r| r.0).collect::<Vec<_>>()), "connection dropped at the break".into()); }
    }
    // 3. the whole output against the reference
    if events != want {
        let label = if events.contains(&Ev::HardErr) { L_ENDS }
            else if case.gap_free { L_GAPFREE }
            else if want1.break_at.is_some() && conn1.len() >= want1.events.len() - 1 { L_ENDS }
            else if events.iter().filter(|e| **e == Ev::SoftErr).count() != want.iter().filter(|e| **e == Ev::SoftErr).count() { L_SOFT }
            else { L_ADMITTED };
        fail(label, format!("{events:?}"), format!("{want:?}"));
    }
    if case.gap_free && (want1.break_at.is_some() || log1.borrow().iter().any(|r| r.2 > 0)) {
        fail(L_GAPFREE, format!("terminal error on a gap-free in-order delivery: transformer log {:?}", log1.borrow()), "no error".into());
    }
}

fn make_spot(snaps: [u64; 2]) -> BinanceSpotOrderBooksL2Transformer<Key> {
    let snapshots = [snapshot_event(Venue::Spot, KEYS[0], snaps[0]), snapshot_event(Venue::Spot, KEYS[1], snaps[1])];
    let (tx, _rx) = tokio::sync::mpsc::unbounded_channel();
    futures::executor::block_on(<BinanceSpotOrderBooksL2Transformer<Key> as ExchangeTransformer<_, _, OrderBooksL2>>::init(instrument_map(), &snapshots, tx)).expect("spot transformer")
}
fn make_futures(snaps: [u64; 2]) -> BinanceFuturesUsdOrderBooksL2Transformer<Key> {
    let snapshots = [snapshot_event(Venue::Futures, KEYS[0], snaps[0]), snapshot_event(Venue::Futures, KEYS[1], snaps[1])];
    let (tx, _rx) = tokio::sync::mpsc::unbounded_channel();
    futures::executor::block_on(<BinanceFuturesUsdOrderBooksL2Transformer<Key> as ExchangeTransformer<_, _, OrderBooksL2>>::init(instrument_map(), &snapshots, tx)).expect("futures transformer")
}

fn interleave(a: &[Upd], b: &[Upd], mode: u64, rng: &mut Rng) -> Vec<Upd> {
    let mut out = vec![];
    let (mut i, mut j) = (0, 0);
    while i < a.len() || j < b.len() {
        let take_a = if i >= a.len() { false } else if j >= b.len() { true } else {
            match mode { 0 => (i + j) % 2 == 0, 1 => true, 2 => i < 2 || j >= b.len(), _ => rng.chance(1, 2) }
        };
        if take_a { out.push(a[i]); i += 1; } else { out.push(b[j]); j += 1; }
    }
    out
}

/// is `d` (deliveries of one symbol) a gap-free in-order run of the venue chain, preceded only by strictly older messages?
fn is_gap_free(venue: Venue, snap: u64, c: &[Upd], d: &[Upd]) -> bool {
    // in order & contiguous in the chain
    let idx: Vec<usize> = d.iter().map(|u| c.iter().position(|x| x == u).unwrap()).collect();
    if idx.windows(2).any(|w| w[1] != w[0] + 1) { return false; }
    // the first message that is not strictly older has to cover the snapshot
    let older = |u: &Upd| match venue { Venue::Spot => u.last <= snap, Venue::Futures => u.last < snap };
    match d.iter().find(|u| !older(u)) {
        None => true,
        Some(u) => match venue { Venue::Spot => u.first <= snap + 1, Venue::Futures => u.first <= snap },
    }
}


// =====================================================================================================================
// Local books against a ground-truth exchange book.
// The venue side is a history of single price level changes per instrument (every change has its own id; spot ids are
// contiguous per symbol, futures ids are shared between symbols, ie/ have holes). A depth update [U, u] carries the
// absolute amount of every level changed by the ids in [U, u] (0 = level removed); the REST snapshot with lastUpdateId s
// is the full book after all changes <= s. Every connection = the real transformer `init` on its snapshots, the snapshots
// as `OrderBookEvent::Snapshot`s followed by the transformed deliveries (the order `ExchangeWsStream::init` produces for an
// empty websocket buffer), all connections behind the real `with_termination_on_error` + `with_reconnection_events` +
// `with_error_handler`, consumed by the REAL `OrderBookL2Manager::run` (one `OrderBook` per instrument for the whole run,
// `book.update(event.kind)`, a Reconnecting notice is skipped - the re-initialisation snapshot lands on the SAME book).
// A tap between the combinators and the manager looks at the book the previous event was applied to whenever the manager
// asks for the next event (ie/ after every applied event):
//  - its levels (both sides, best first, no empty level) equal the exchange book as of the sequence the local book reports,
//  - after a re-initialisation snapshot nothing of the invalidated book is left (levels the new snapshot lacks),
//  - the events the manager got to see are the reference's: once an instrument's chain breaks nothing more of that
//    connection is applied, the notice comes next.
// =====================================================================================================================

/// one price level change on the venue; prices and amounts in tenths, amount 0 = the level is gone
#[derive(Clone, Copy, Debug, PartialEq, Eq)]
struct Chg { id: u64, bid: bool, price: u32, amount: u32 }

/// one side of a book, best level first
type Levels = Vec<(u32, u32)>;

struct Hist { sym: usize, id0: u64, base: Vec<(bool, u32, u32)>, changes: Vec<Chg>, groups: Vec<(usize, usize)>, chain: Vec<Upd>,
    /// true: a depth update lists every change of its id range as it happened, so a price changed twice inside one update is listed TWICE (the
    /// last entry is the venue's state as of the update's last id); false: one absolute amount per touched level
    raw: bool }

fn tenths(v: u32) -> String { format!("{}.{}", v / 10, v % 10) }
fn dec(v: u32) -> Decimal { Decimal::new(v as i64, 1) }
fn show(l: &[(Decimal, Decimal)]) -> String { format!("[{}]", l.iter().map(|(p, a)| format!("{}x{}", p.normalize(), a.normalize())).collect::<Vec<_>>().join(" ")) }
fn show_t(l: &Levels) -> String { format!("[{}]", l.iter().map(|(p, a)| format!("{}x{}", dec(*p).normalize(), dec(*a).normalize())).collect::<Vec<_>>().join(" ")) }

impl Hist {
    /// `base` = the book as of id `id0`; every group of changes is one depth update
    fn build(sym: usize, venue: Venue, id0: u64, base: Vec<(bool, u32, u32)>, groups: &[Vec<(bool, u32, u32)>], mut hole: impl FnMut() -> u64) -> Hist {
        let mut h = Hist { sym, id0, base, changes: vec![], groups: vec![], chain: vec![], raw: false };
        let (mut id, mut prev) = (id0, id0);
        for g in groups {
            let lo = h.changes.len();
            for &(bid, price, amount) in g {
                id += 1 + if venue == Venue::Futures { hole() } else { 0 };
                h.changes.push(Chg { id, bid, price, amount });
            }
            h.groups.push((lo, h.changes.len()));
            h.chain.push(Upd { sym, first: h.changes[lo].id, last: id, prev });
            prev = id;
        }
        h
    }

    fn generate(sym: usize, venue: Venue, id0: u64, n: usize, rng: &mut Rng) -> Hist {
        // the two instruments trade at different prices: an event applied to the wrong book cannot go unnoticed
        let grid = |bid: bool, k: u64| -> u32 { let mid = 1000 + 3000 * sym as u32; if bid { mid - 5 * (k as u32 + 1) } else { mid + 5 * (k as u32 + 1) } };
        let mut cur: BTreeMap<(bool, u32), u32> = BTreeMap::new();
        let mut base = vec![];
        for bid in [true, false] {
            for k in 0..7 {
                if k < 2 || rng.chance(1, 2) { let a = 1 + rng.below(60) as u32; base.push((bid, grid(bid, k), a)); cur.insert((bid, grid(bid, k)), a); }
            }
        }
        let mut groups = vec![];
        for _ in 0..n {
            let mut g = vec![];
            for _ in 0..1 + rng.below(4) {
                let bid = rng.chance(1, 2);
                let price = grid(bid, rng.below(7));
                let have = cur.get(&(bid, price)).copied().unwrap_or(0);
                let amount = if have > 0 {
                    if rng.chance(2, 5) { 0 } else { let a = 1 + rng.below(60) as u32; if a == have { a + 1 } else { a } }
                } else if rng.chance(1, 8) { 0 /* removal of a level that is not there: "can happen and is normal" */ } else { 1 + rng.below(60) as u32 };
                if amount == 0 { cur.remove(&(bid, price)); } else { cur.insert((bid, price), amount); }
                g.push((bid, price, amount));
            }
            groups.push(g);
        }
        let mut r2 = Rng(rng.next() | 1);
        let raw = rng.chance(1, 4);
        let mut h = Hist::build(sym, venue, id0, base, &groups, move || if r2.chance(1, 3) { 1 + r2.below(3) } else { 0 });
        h.raw = raw;
        h
    }

    /// the exchange book after every change with id <= `id`: (bids best first, asks best first)
    fn book_at(&self, id: u64) -> (Levels, Levels) {
        let (mut bids, mut asks) = (BTreeMap::new(), BTreeMap::new());
        for &(bid, p, a) in &self.base { if bid { bids.insert(p, a); } else { asks.insert(p, a); } }
        for c in self.changes.iter().take_while(|c| c.id <= id) {
            let side = if c.bid { &mut bids } else { &mut asks };
            if c.amount == 0 { side.remove(&c.price); } else { side.insert(c.price, c.amount); }
        }
        (bids.into_iter().rev().collect(), asks.into_iter().collect())
    }

    /// the levels a depth update carries: absolute amount of every level touched by its ids, 0 = removed
    fn carried(&self, u: &Upd) -> (Levels, Levels) {
        let k = self.chain.iter().position(|c| c.last == u.last).expect("venue update");
        let (lo, hi) = self.groups[k];
        let (mut bids, mut asks): (Levels, Levels) = (vec![], vec![]);
        for c in &self.changes[lo..hi] {
            let side = if c.bid { &mut bids } else { &mut asks };
            if self.raw { side.push((c.price, c.amount)); continue; }
            match side.iter_mut().find(|l| l.0 == c.price) { Some(l) => l.1 = c.amount, None => side.push((c.price, c.amount)) }
        }
        (bids, asks)
    }

    fn describe(&self, upto: usize) -> String {
        let (b, a) = self.book_at(self.id0);
        format!("{} book as of id {}: bids {} asks {}; depth updates: {}", SYMBOLS[self.sym], self.id0, show_t(&b), show_t(&a),
            self.chain.iter().take(upto + 1).map(|u| { let (b, a) = self.carried(u); format!("{}..{}(pu={}) b{} a{}", u.first, u.last, u.prev, show_t(&b), show_t(&a)) }).collect::<Vec<_>>().join(", "))
    }
}

fn levels_json(l: &Levels) -> serde_json::Value { serde_json::json!(l.iter().map(|(p, a)| [tenths(*p), tenths(*a)]).collect::<Vec<_>>()) }

fn book_update_json(hists: &[Hist; 2], u: &Upd) -> String {
    if u.sym >= 2 { return update_json(u); }
    let (bids, asks) = hists[u.sym].carried(u);
    serde_json::json!({
        "e": "depthUpdate", "E": 1571889248277u64, "T": 1571889248276u64, "s": SYMBOLS[u.sym],
        "U": u.first, "u": u.last, "pu": u.prev, "b": levels_json(&bids), "a": levels_json(&asks),
    }).to_string()
}

/// the REST snapshot taken when the venue's last change id was `id`: the full book
fn book_snapshot_event(venue: Venue, h: &Hist, id: u64) -> MarketEvent<Key, OrderBookEvent> {
    let (bids, asks) = h.book_at(id);
    let mut v = serde_json::json!({ "lastUpdateId": id, "bids": levels_json(&bids), "asks": levels_json(&asks) });
    if venue == Venue::Futures { v["E"] = serde_json::json!(1589436922972u64); v["T"] = serde_json::json!(1589436922959u64); }
    let snap: BinanceOrderBookL2Snapshot = serde_json::from_value(v).expect("snapshot");
    MarketEvent::from((if venue == Venue::Spot { ExchangeId::BinanceSpot } else { ExchangeId::BinanceFuturesUsd }, KEYS[h.sym], snap))
}

/// `buffered`: how many of the deliveries arrived on the websocket while the subscriptions were validated, ie/ before the REST
/// snapshot was fetched; `ExchangeWsStream::init` runs them through the freshly initialised transformer (`process_buffered_events`)
/// and hands their outputs over BEFORE the snapshot events. 0 unless `buffered_cases_enabled`.
struct BConn { snaps: [u64; 2], deliveries: Vec<Upd>, desc: String, buffered: usize }

/// Deliveries whose first updates were BUFFERED during subscription validation (before the REST snapshot was fetched). They go through the
/// real `process_buffered_events` with the transformer initialised from the snapshots, and are handed to the manager in the order
/// `ExchangeWsStream::init` (barter-data/src/lib.rs) builds its first outputs: the initial snapshot events, then the buffered outputs.
/// That order is MIRRORED here (init itself needs a live websocket); it is pinned on the real function by the deductive obligation
/// [C06.init.snapshots_first_then_buffered_outputs] (/verif/contracts/C06_init.rs.tmpl). The tree as found emitted the buffered outputs
/// first: a buffered update newer than the snapshot was admitted, wiped out by `*self = snapshot`, and the sequencer kept chaining on it
/// (fixed: property=C06 5c33a5d in /verif/KNOWN_FINDINGS).
fn buffered_cases_enabled() -> bool { true }

struct BookCase { venue: Venue, conns: Vec<BConn>, gap_free: bool }

type MakeFut<T> = fn(Vec<MarketEvent<Key, OrderBookEvent>>) -> LocalBoxFuture<'static, T>;
fn init_spot(snapshots: Vec<MarketEvent<Key, OrderBookEvent>>) -> LocalBoxFuture<'static, BinanceSpotOrderBooksL2Transformer<Key>> {
    async move {
        let (tx, _rx) = tokio::sync::mpsc::unbounded_channel();
        <BinanceSpotOrderBooksL2Transformer<Key> as ExchangeTransformer<_, _, OrderBooksL2>>::init(instrument_map(), &snapshots, tx).await.expect("spot transformer")
    }.boxed_local()
}
fn init_futures(snapshots: Vec<MarketEvent<Key, OrderBookEvent>>) -> LocalBoxFuture<'static, BinanceFuturesUsdOrderBooksL2Transformer<Key>> {
    async move {
        let (tx, _rx) = tokio::sync::mpsc::unbounded_channel();
        <BinanceFuturesUsdOrderBooksL2Transformer<Key> as ExchangeTransformer<_, _, OrderBooksL2>>::init(instrument_map(), &snapshots, tx).await.expect("futures transformer")
    }.boxed_local()
}

/// what the tap between the stream combinators and the manager has seen
#[derive(Default)]
struct Tap {
    conn: usize,
    events: Vec<Ev>,
    /// the event handed to the manager last: (instrument, is snapshot, sequence, connection)
    pending: Option<(usize, bool, u64, usize)>,
    findings: Vec<(&'static str, String, String)>,
    /// some connection of the case has buffered websocket events
    buffered: bool,
}

/// the manager has applied `tap.pending`: look at the book it went to
fn settle(tap: &mut Tap, books: &OrderBookMapMulti<Key>, hists: &[Hist; 2]) {
    let Some((sym, is_snapshot, seq, conn)) = tap.pending.take() else { return };
    let Some(book) = books.find(&KEYS[sym]).map(|b| b.read().clone()) else { return };
    let label = if tap.buffered { L_BUFFERED } else if is_snapshot && conn > 0 { L_REINIT } else { L_BOOK };
    if label != L_BUFFERED && tap.findings.iter().any(|f| f.0 == label) { return; }
    let what = format!("connection #{} {} {} of {}", conn + 1, if is_snapshot { "snapshot" } else { "update" }, seq, KEYS[sym]);
    if book.sequence != seq {
        tap.findings.push((label, format!("after {what} was applied the local book reports sequence {}", book.sequence), format!("sequence {seq}")));
        return;
    }
    let local = |l: &[Level]| l.iter().map(|l| (l.price, l.amount)).collect::<Vec<_>>();
    let truth = |l: &Levels| l.iter().map(|(p, a)| (dec(*p), dec(*a))).collect::<Vec<_>>();
    let (tb, ta) = hists[sym].book_at(book.sequence);
    let (tb, ta, lb, la) = (truth(&tb), truth(&ta), local(book.bids().levels()), local(book.asks().levels()));
    if lb != tb || la != ta {
        let extra = |l: &[(Decimal, Decimal)], t: &[(Decimal, Decimal)]| l.iter().filter(|x| !t.iter().any(|y| y.0 == x.0)).cloned().collect::<Vec<_>>();
        tap.findings.push((label,
            format!("after {what} was applied the local book @{} is bids {} asks {}; levels the exchange book does not have: bids {} asks {}; levels it lacks: bids {} asks {}",
                book.sequence, show(&lb), show(&la), show(&extra(&lb, &tb)), show(&extra(&la, &ta)), show(&extra(&tb, &lb)), show(&extra(&ta, &la))),
            format!("exchange book as of {}: bids {} asks {}{}", book.sequence, show(&tb), show(&ta), if label == L_REINIT { " (the snapshot replaces the invalidated book)" } else { "" })));
    }
}

fn run_book_case<T>(case: &BookCase, hists: &Rc<[Hist; 2]>, make: MakeFut<T>, seen: &mut HashSet<&'static str>)
where
    T: Transformer<Output = MarketEvent<Key, OrderBookEvent>, Error = DataError, OutputIter = Vec<Out>> + 'static,
{
    let venue = case.venue;
    let exchange = if venue == Venue::Spot { ExchangeId::BinanceSpot } else { ExchangeId::BinanceFuturesUsd };
    let refs: Vec<ConnRef> = case.conns.iter().map(|c| reference(venue, c.snaps, &c.deliveries)).collect();
    let mut want: Vec<Ev> = vec![];
    for (c, r) in case.conns.iter().zip(&refs) {
        want.extend([Ev::Snapshot(0, c.snaps[0]), Ev::Snapshot(1, c.snaps[1])]);
        want.extend(r.events.iter().cloned());
    }
    let logs: Vec<Log> = case.conns.iter().map(|_| Log::default()).collect();
    let specs: Vec<_> = case.conns.iter().zip(&logs).map(|(c, log)| (
        vec![book_snapshot_event(venue, &hists[0], c.snaps[0]), book_snapshot_event(venue, &hists[1], c.snaps[1])],
        c.deliveries.iter().take(c.buffered).map(|u| WsMessage::text(book_update_json(hists, u))).collect::<Vec<_>>(),
        c.deliveries.iter().skip(c.buffered).map(|u| book_update_json(hists, u)).collect::<Vec<_>>(),
        log.clone(),
    )).collect();
    let buffered = case.conns.iter().any(|c| c.buffered > 0);

    let tap: Rc<RefCell<Tap>> = Rc::new(RefCell::new(Tap { buffered, ..Default::default() }));
    // one OrderBook per instrument for the whole run, as init_multi_order_book_l2_manager sets them up
    let books = OrderBookMapMulti::new(KEYS.iter().map(|k| (*k, Arc::new(Default::default()))).collect::<FnvHashMap<_, _>>());
    let key = StreamKey::new("market_stream", exchange, Some("l2"));
    let stream = futures::stream::iter(specs)
        .then(move |(snapshots, buffered, payloads, log)| async move {
            // as ExchangeWsStream::init: transformer from the snapshots, buffered websocket events through it, then the snapshot events
            let mut tf = make(snapshots.clone()).await;
            // (the order of ExchangeWsStream::init AFTER the fix: commit - snapshot events first, then the outputs of the buffered events; the order
            // itself is pinned on the real function by a contract in /verif/contracts/C06_init.rs.tmpl)
            let buffered_out = barter_data::process_buffered_events::<WebSocketParser, _>(&mut tf, buffered);
            let mut processed: std::collections::VecDeque<_> = snapshots.into_iter().map(Ok).collect();
            processed.extend(buffered_out);
            // the connection's stream is the REAL ExchangeStream (= ExchangeWsStream over an in-memory socket): seeded with the hand-over buffer, it
            // yields the buffer front to back and then the outputs of every message read from the socket
            let socket = futures::stream::iter(payloads.into_iter().map(|p| Ok::<WsMessage, barter_integration::protocol::websocket::WsError>(WsMessage::text(p))).collect::<Vec<_>>());
            barter_integration::stream::ExchangeStream::<WebSocketParser, _, _>::new(socket, Logged { tf, log, k: 0 }, processed)
        })
        .with_termination_on_error(|e: &DataError| e.is_terminal(), key)
        .with_reconnection_events(exchange)
        .with_error_handler({ let tap = tap.clone(); move |e: DataError| tap.borrow_mut().events.push(if e.is_terminal() { Ev::HardErr } else { Ev::SoftErr }) })
        .map({
            let (tap, books, hists) = (tap.clone(), books.clone(), hists.clone());
            move |event| {
                let mut t = tap.borrow_mut();
                settle(&mut t, &books, &hists);
                match &event {
                    Event::Reconnecting(_) => { t.events.push(Ev::Notice); t.conn += 1; }
                    Event::Item(ev) => {
                        let sym = KEYS.iter().position(|k| *k == ev.instrument).unwrap_or(9);
                        let (is_snapshot, seq) = match &ev.kind { OrderBookEvent::Snapshot(b) => (true, b.sequence), OrderBookEvent::Update(b) => (false, b.sequence) };
                        t.events.push(if is_snapshot { Ev::Snapshot(sym, seq) } else { Ev::Update(sym, seq) });
                        let conn = t.conn;
                        if sym < 2 { t.pending = Some((sym, is_snapshot, seq, conn)); }
                    }
                }
                event
            }
        });
    futures::executor::block_on(OrderBookL2Manager { stream: Box::pin(stream), books: books.clone() }.run());
    settle(&mut tap.borrow_mut(), &books, hists);

    let t = tap.borrow();
    let events = &t.events;
    let input = || {
        let upto = |sym: usize| case.conns.iter().flat_map(|c| c.deliveries.iter()).filter(|u| u.sym == sym).filter_map(|u| hists[sym].chain.iter().position(|x| x == u)).max().unwrap_or(0);
        format!("{venue:?}, books kept by OrderBookL2Manager (amounts are absolute, x0 = level removed). Exchange history: {} | {}. Connections (REST snapshot = full exchange book as of lastUpdateId; deliveries symbol U..u): {}",
            hists[0].describe(upto(0)), hists[1].describe(upto(1)),
            case.conns.iter().enumerate().map(|(i, c)| format!("#{} snapshots a@{} b@{}, deliveries [{}] ({}{})", i + 1, c.snaps[0], c.snaps[1],
                c.deliveries.iter().map(|u| format!("{} {}..{}", SYMBOLS[u.sym], u.first, u.last)).collect::<Vec<_>>().join(", "), c.desc,
                if c.buffered > 0 { format!("; the first {} arrived before the snapshot was fetched and are handed over by ExchangeWsStream::init after the snapshot events", c.buffered) } else { String::new() })).collect::<Vec<_>>().join("; "))
    };
    let mut fail = |label: &'static str, observed: String, expected: String| { if seen.insert(label) { report(label, input(), observed, expected); } };
    for (label, observed, expected) in t.findings.iter().filter(|f| f.0 != L_BUFFERED) { fail(label, observed.clone(), expected.clone()); }
    // buffered deliveries: the first and the last state of a book that was not the exchange's
    let b: Vec<_> = t.findings.iter().filter(|f| f.0 == L_BUFFERED).collect();
    if let (Some(first), Some(last)) = (b.first(), b.last()) {
        fail(L_BUFFERED, format!("{}; ... finally: {}; the manager was handed {:?}", first.1, last.1, events), format!("{}; ... finally: {}; no terminal error / notice was due", first.2, last.2));
    }
    // the reference below describes the order snapshots first, then the deliveries
    if buffered { return; }

    // after a break the consumer is told before anything else of that connection reaches the books
    let parts: Vec<&[Ev]> = events.split(|e| *e == Ev::Notice).collect();
    let reached = |c: usize| parts.get(c).map_or(0, |p| p.len());
    for (c, r) in refs.iter().enumerate() {
        let Some(k) = r.break_at else { continue };
        let n_before = 2 + r.events.len() - 1;
        if reached(c) > n_before || c + 1 >= parts.len() {
            fail(L_ENDS, format!("connection #{}: chain of {} breaks at delivery #{k}; the manager was handed {:?}", c + 1, SYMBOLS[case.conns[c].deliveries[k].sym], events),
                 format!("{want:?} (the connection ends at the break, one notice, then the re-initialisation snapshots)"));
        }
        let l = logs[c].borrow();
        if let Some(rec) = l.iter().find(|r| r.0 == k) {
            if (rec.1, rec.2, rec.3) != (0, 1, 0) { fail(L_TERMINAL, format!("connection #{}: transformer output for delivery #{k}: {} events, {} terminal errors, {} other errors", c + 1, rec.1, rec.2, rec.3), "exactly one terminal (InvalidSequence) error".into()); }
        } else if *events == want {
            fail(L_TERMINAL, format!("connection #{}: delivery #{k} never reached the transformer", c + 1), "processed and reported as terminal error".into());
        }
        if l.iter().any(|r| r.0 > k) { fail(L_ENDS, format!("connection #{}: deliveries {:?} were still processed after the break at #{k}", c + 1, l.iter().filter(|r| r.0 > k).map(|r| r.0).collect::<Vec<_>>()), "connection dropped at the break".into()); }
    }
    if *events != want {
        let label = if events.contains(&Ev::HardErr) { L_ENDS }
            else if case.gap_free { L_GAPFREE }
            else if refs.iter().enumerate().any(|(c, r)| r.break_at.is_some() && reached(c) >= 2 + r.events.len() - 1) { L_ENDS }
            else if events.iter().filter(|e| **e == Ev::SoftErr).count() != want.iter().filter(|e| **e == Ev::SoftErr).count() { L_SOFT }
            else { L_ADMITTED };
        fail(label, format!("the manager was handed {events:?}"), format!("{want:?}"));
    }
    if case.gap_free && (refs.iter().any(|r| r.break_at.is_some()) || logs.iter().any(|l| l.borrow().iter().any(|r| r.2 > 0))) {
        fail(L_GAPFREE, format!("terminal error on a gap-free in-order delivery: transformer logs {:?}", logs.iter().map(|l| l.borrow().clone()).collect::<Vec<_>>()), "no error".into());
    }
}

fn pick_perturb(rng: &mut Rng) -> Perturb {
    match rng.below(6) { 0 => Perturb::Drop(rng.below(6) as usize), 1 => Perturb::Dup(rng.below(6) as usize), 2 => Perturb::Swap(rng.below(5) as usize), 3 => { let i = rng.below(6) as usize; Perturb::Replay(i, rng.below(i as u64 + 1) as usize) } _ => Perturb::None }
}

/// per instrument: (snapshot id, first index of the venue chain delivered, one past the last, perturbation)
type Leg = (u64, usize, usize, Perturb);

fn make_conn(venue: Venue, hists: &[Hist; 2], legs: [Leg; 2], mode: u64, stray: bool, rng: &mut Rng) -> (BConn, bool) {
    let mut per: Vec<Vec<Upd>> = vec![];
    let (mut gap_free, mut desc) = (true, vec![]);
    for (sym, &(snap, start, end, p)) in legs.iter().enumerate() {
        let c = &hists[sym].chain;
        let d = perturb(&c[..end.min(c.len())], start, p);
        gap_free &= is_gap_free(venue, snap, c, &d);
        desc.push(format!("{}: venue chain from index {start} to {} with {p:?}", KEYS[sym], end.min(c.len()) - 1));
        per.push(d);
    }
    let mut deliveries = interleave(&per[0], &per[1], mode, rng);
    if stray { deliveries.insert(deliveries.len() / 2, Upd { sym: 2, first: 1, last: 2, prev: 0 }); desc.push("one update for an unsubscribed symbol".into()); }
    (BConn { snaps: [legs[0].0, legs[1].0], deliveries, desc: desc.join("; "), buffered: 0 }, gap_free)
}

/// how far into the venue chains a connection got before it ended (chain index of the newest update seen per instrument)
fn reach(venue: Venue, hists: &[Hist; 2], conn: &BConn, from: [usize; 2]) -> [usize; 2] {
    let r = reference(venue, conn.snaps, &conn.deliveries);
    let upto = r.break_at.map_or(conn.deliveries.len(), |k| k + 1);
    let mut at = from;
    for u in &conn.deliveries[..upto] {
        if u.sym < 2 { if let Some(i) = hists[u.sym].chain.iter().position(|x| x == u) { at[u.sym] = at[u.sym].max(i); } }
    }
    at
}

/// a random connection that starts around chain index `from` of each instrument
fn random_conn(venue: Venue, hists: &[Hist; 2], from: [usize; 2], clean: [bool; 2], rng: &mut Rng) -> (BConn, bool) {
    let mut legs: [Leg; 2] = [(0, 0, 0, Perturb::None); 2];
    for sym in 0..2 {
        let c = &hists[sym].chain;
        let start = from[sym].min(c.len() - 5);
        // mostly: `cover - start` strictly older updates first (replays of what the previous connection already had), the snapshot id inside or next to update `cover`
        let cover = start + rng.below(3) as usize;
        let snap = if rng.chance(1, 6) { c[start].first - 1 + rng.below(c[start + 3].last - c[start].first + 3) } else { c[cover].first - 1 + rng.below(c[cover].last - c[cover].first + 2) };
        let end = start + 4 + rng.below(4) as usize;
        legs[sym] = (snap, start, end, if clean[sym] { Perturb::None } else { pick_perturb(rng) });
    }
    let stray = rng.chance(1, 12);
    make_conn(venue, hists, legs, 3, stray, rng)
}

/// the scenario of /verif/seeded/C06-f/demo.diff on the model: `a` loses the update that removes its best bid and best ask, the
/// next update breaks the chain, the re-initialisation snapshot (taken after the lost update) lacks both levels
fn ghost_level_case(venue: Venue) -> (Rc<[Hist; 2]>, BookCase) {
    let (b, a) = (true, false);
    let mut k = 0u64;
    let hole = move || { k += 1; if k % 3 == 0 { 2 } else { 0 } };
    let ha = Hist::build(0, venue, 100, vec![(b, 1000, 10), (b, 990, 20), (b, 980, 30), (a, 1010, 10), (a, 1020, 20), (a, 1030, 30)], &[
        vec![(b, 500, 10), (b, 500, 0)],                      // 0: older than the first snapshot
        vec![(b, 1000, 40), (a, 1030, 35), (b, 985, 15)],     // 1
        vec![(b, 1000, 0), (a, 1010, 0), (a, 1015, 70)],      // 2: LOST - removes best bid and best ask
        vec![(b, 990, 50), (b, 970, 5), (b, 970, 0)],         // 3: breaks the chain
        vec![(b, 970, 10), (a, 1020, 0)],                     // 4
        vec![(b, 960, 20)],                                   // 5
        vec![(a, 1015, 0), (a, 1040, 12)],                    // 6
    ], hole);
    let hb = Hist::build(1, venue, 500, vec![(b, 100, 10), (b, 90, 20), (a, 110, 10), (a, 120, 20)], &[
        vec![(b, 100, 30), (a, 115, 10)],                     // 0
        vec![(b, 90, 0)],                                     // 1: never consumed on connection #1
        vec![(a, 110, 0), (b, 80, 60), (a, 115, 0)],          // 2
        vec![(b, 80, 70)],                                    // 3
        vec![(a, 120, 25)],                                   // 4
    ], move || 1);
    let d = |h: &Hist, i: usize| h.chain[i];
    let conn1 = BConn { snaps: [ha.chain[0].last, hb.id0 + if venue == Venue::Spot { 0 } else { 1 }],
        deliveries: vec![d(&ha, 0), d(&ha, 1), d(&hb, 0), d(&ha, 3), d(&hb, 1)], desc: "a: update index 2 lost".into(), buffered: 0 };
    let conn2 = BConn { snaps: [ha.chain[3].last, hb.chain[2].last],
        deliveries: vec![d(&ha, 3), d(&ha, 4), d(&hb, 2), d(&hb, 3), d(&ha, 5), d(&ha, 6), d(&hb, 4)], desc: "re-initialisation, gap-free after replays of older updates".into(), buffered: 0 };
    (Rc::new([ha, hb]), BookCase { venue, conns: vec![conn1, conn2], gap_free: false })
}

fn book_cases(venue: Venue, thorough: bool, rng: &mut Rng, seen: &mut HashSet<&'static str>) -> u64 {
    let go = |case: BookCase, hists: &Rc<[Hist; 2]>, seen: &mut HashSet<&'static str>| match venue {
        Venue::Spot => run_book_case(&case, hists, init_spot, seen),
        Venue::Futures => run_book_case(&case, hists, init_futures, seen),
    };
    let mut n = 0u64;
    const N: usize = 26;
    // 1. directed: ghost levels
    let (hists, case) = ghost_level_case(venue);
    go(case, &hists, seen);
    n += 1;
    if buffered_cases_enabled() {
        // gap-free delivery on both connections; the REST snapshots are older than the newest websocket event already received
        let (hists, mut case) = ghost_level_case(venue);
        case.conns[0].deliveries.insert(3, hists[0].chain[2]);
        case.conns[0].desc = "gap-free".into();
        case.conns[0].buffered = 2;
        case.conns[1].snaps[0] = hists[0].chain[4].last;
        case.conns[1].buffered = 2;
        go(case, &hists, seen);
        n += 1;
    }

    // 2. sweep: every single perturbation of `a` x every snapshot id around its first updates; then a clean re-initialisation
    //    whose snapshot is taken after everything connection #1 got to see, preceded by replays of older updates
    let hists: Rc<[Hist; 2]> = Rc::new([Hist::generate(0, venue, 100, N, rng), Hist::generate(1, venue, 500, N, rng)]);
    let (a, b) = (&hists[0].chain, &hists[1].chain);
    let mut perturbs = vec![Perturb::None];
    for i in 0..5 { perturbs.push(Perturb::Drop(i)); perturbs.push(Perturb::Dup(i)); perturbs.push(Perturb::Swap(i)); }
    for (i, j) in [(1, 0), (2, 1), (3, 0), (4, 3), (5, 2)] { perturbs.push(Perturb::Replay(i, j)); }
    let starts: &[usize] = if thorough { &[0, 1, 2] } else { &[0, 1] };
    for &p in &perturbs {
        for sa in a[0].first - 1..=a[3].last {
            for &start in starts {
                let (conn1, gf1) = make_conn(venue, &hists, [(sa, start, 8, p), (b[1].last, 0, 7, Perturb::None)], (sa + start as u64) % 3, false, rng);
                let at = reach(venue, &hists, &conn1, [0, 0]);
                // snapshot: a) the newest update #1 saw (for a break: the one that did not fit) .. or one later, inside it when it spans several ids
                let ia = (at[0] + (sa % 2) as usize).min(N - 6);
                let sa2 = if sa % 3 == 0 && a[ia].first < a[ia].last { a[ia].last - 1 } else { a[ia].last };
                let ib = at[1].min(N - 6);
                let (conn2, gf2) = make_conn(venue, &hists, [(sa2, ia.saturating_sub(2), ia + 5, Perturb::None), (b[ib].last, ib.saturating_sub(1), ib + 4, Perturb::None)], 3, false, rng);
                go(BookCase { venue, conns: vec![conn1, conn2], gap_free: gf1 && gf2 }, &hists, seen);
                n += 1;
            }
        }
    }

    // 3. seeded random: 2..4 connections, every one possibly perturbed on both instruments; fresh history every 40 cases
    let mut hists = hists;
    for i in 0..if thorough { 40_000 } else { 1_500 } {
        if i % 40 == 0 { hists = Rc::new([Hist::generate(0, venue, 100 + rng.below(50), N, rng), Hist::generate(1, venue, 500 + rng.below(50), N, rng)]); }
        let n_conns = 2 + rng.below(if thorough { 3 } else { 2 }) as usize;
        let all_clean = rng.chance(1, 5);
        let (mut conns, mut gap_free, mut from) = (vec![], true, [rng.below(3) as usize, rng.below(3) as usize]);
        for _ in 0..n_conns {
            let clean = [all_clean || rng.chance(1, 2), all_clean || rng.chance(1, 2)];
            let (conn, gf) = random_conn(venue, &hists, from, clean, rng);
            let at = reach(venue, &hists, &conn, from);
            // the next connection replays up to two updates the books already have
            from = [at[0].saturating_sub(rng.below(3) as usize), at[1].saturating_sub(rng.below(3) as usize)];
            gap_free &= gf;
            let mut conn = conn;
            if buffered_cases_enabled() && rng.chance(1, 3) { conn.buffered = (1 + rng.below(3) as usize).min(conn.deliveries.len()); }
            conns.push(conn);
        }
        go(BookCase { venue, conns, gap_free }, &hists, seen);
        n += 1;
    }
    n
}

pub fn run(seed: u64, thorough: bool) -> u64 {
    let mut seen: HashSet<&'static str> = HashSet::new();
    let mut n = 0u64;
    let mut rng = Rng::seeded(seed, 6);
    const M: usize = 8;
    for venue in [Venue::Spot, Venue::Futures] {
        let chains = [chain(0, 100, M, venue), chain(1, 500, M, venue)];
        let go = |case: Case, seen: &mut HashSet<&'static str>| match venue {
            Venue::Spot => run_case(&case, &make_spot, &chains, seen),
            Venue::Futures => run_case(&case, &make_futures, &chains, seen),
        };
        let mut perturbs = vec![Perturb::None];
        for i in 0..5 { perturbs.push(Perturb::Drop(i)); perturbs.push(Perturb::Dup(i)); perturbs.push(Perturb::Swap(i)); }
        for (i, j) in [(1, 0), (2, 1), (3, 0), (4, 3), (5, 2)] { perturbs.push(Perturb::Replay(i, j)); }
        // snapshot ids of `a` around the first updates of its chain: before the chain, on every boundary, inside
        let a = &chains[0];
        let snaps_a: Vec<u64> = (a[0].first - 2..=a[3].last + 1).collect();
        // `b`: (snapshot, start, perturbation)
        let b = &chains[1];
        let b_variants: Vec<(u64, usize, Perturb)> = if thorough {
            vec![(b[1].first, 0, Perturb::None), (b[1].first, 3, Perturb::None), (b[0].last, 0, Perturb::Drop(3)), (b[2].last - 1, 1, Perturb::Dup(2)), (b[0].first - 1, 0, Perturb::Swap(4))]
        } else {
            vec![(b[1].first, 0, Perturb::None), (b[0].last, 0, Perturb::Drop(3))]
        };
        let modes: &[u64] = if thorough { &[0, 1, 2, 3] } else { &[0, 2] };
        for &sa in &snaps_a {
            for start in 0..=4usize {
                for &p in &perturbs {
                    for &(sb, start_b, pb) in &b_variants {
                        for &mode in modes {
                            if !thorough && (sa as usize + start + mode as usize) % 2 == 1 && !matches!(p, Perturb::None | Perturb::Drop(_)) { continue; }
                            let da = perturb(a, start, p);
                            let db = perturb(b, start_b, pb);
                            let mut deliveries = interleave(&da, &db, mode, &mut rng);
                            let stray = (sa + start as u64) % 5 == 0;
                            if stray { deliveries.insert(deliveries.len() / 2, Upd { sym: 2, first: 1, last: 2, prev: 0 }); }
                            let gap_free = is_gap_free(venue, sa, a, &da) && is_gap_free(venue, sb, b, &db);
                            let desc = format!("a: venue chain from index {start} with {p:?}; b: from index {start_b} with {pb:?}{}", if stray { "; one update for an unsubscribed symbol" } else { "" });
                            go(Case { venue, snaps: [sa, sb], deliveries, desc, gap_free }, &mut seen);
                            n += 1;
                        }
                    }
                }
            }
        }
        // seeded random: several perturbations at once
        for _ in 0..if thorough { 60_000 } else { 1_500 } {
            let sa = a[0].first - 2 + rng.below(a[4].last - a[0].first + 4);
            let sb = b[0].first - 2 + rng.below(b[4].last - b[0].first + 4);
            let pick = |rng: &mut Rng| match rng.below(6) { 0 => Perturb::Drop(rng.below(6) as usize), 1 => Perturb::Dup(rng.below(6) as usize), 2 => Perturb::Swap(rng.below(5) as usize), 3 => { let i = rng.below(6) as usize; Perturb::Replay(i, rng.below(i as u64 + 1) as usize) } _ => Perturb::None };
            let (pa, pb) = (pick(&mut rng), pick(&mut rng));
            let (start_a, start_b) = (rng.below(5) as usize, rng.below(5) as usize);
            let da = perturb(a, start_a, pa);
            let db = perturb(b, start_b, pb);
            let deliveries = interleave(&da, &db, 3, &mut rng);
            let gap_free = is_gap_free(venue, sa, a, &da) && is_gap_free(venue, sb, b, &db);
            go(Case { venue, snaps: [sa, sb], deliveries, desc: format!("a: from {start_a} with {pa:?}; b: from {start_b} with {pb:?}"), gap_free }, &mut seen);
            n += 1;
        }
    }
    // local books against the ground-truth exchange book
    let mut rng = Rng::seeded(seed, 606);
    for venue in [Venue::Spot, Venue::Futures] {
        n += book_cases(venue, thorough, &mut rng, &mut seen);
    }
    n
}
