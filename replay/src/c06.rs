//! C06 bounded checker (stream side): "any break in the Binance L2 update chain surfaces as a terminal sequence error
//! that forces re-initialisation".
//! Drives the REAL Binance spot and futures L2 transformers / sequencers behind the REAL
//! `with_termination_on_error(|e| e.is_terminal(), ..)` + `with_reconnection_events` on perturbed deliveries of a venue
//! side update chain (drop / duplicate / swap / replay of an old prefix / late or early start; two instruments on one
//! connection; a second, clean connection afterwards) and checks:
//!  - the updates admitted for an instrument form an unbroken chain under the venue rule (from the delivered events alone),
//!  - a break ends the connection: nothing from it is delivered afterwards, one Reconnecting notice follows, then the
//!    next connection; at the transformer the break is reported as exactly one terminal error,
//!  - gap-free in-order delivery preceded by any number of strictly older messages never errors.
use crate::{rng::Rng, report};
use barter_data::{
    error::DataError,
    event::MarketEvent,
    exchange::binance::{
        book::l2::BinanceOrderBookL2Snapshot,
        futures::l2::BinanceFuturesUsdOrderBooksL2Transformer,
        spot::l2::BinanceSpotOrderBooksL2Transformer,
    },
    streams::{consumer::StreamKey, reconnect::{Event, stream::ReconnectingStream}},
    subscription::{Map, book::{OrderBookEvent, OrderBooksL2}},
    transformer::ExchangeTransformer,
};
use barter_instrument::exchange::ExchangeId;
use barter_integration::{Transformer, subscription::SubscriptionId};
use futures::StreamExt;
use std::{cell::RefCell, collections::HashSet, rc::Rc};

const L_CHAIN: &str = "C06.bounded.admitted_chain_unbroken";
const L_ENDS: &str = "C06.bounded.break_ends_connection";
const L_TERMINAL: &str = "C06.bounded.break_is_terminal_error";
const L_GAPFREE: &str = "C06.bounded.gap_free_never_errors";
const L_ADMITTED: &str = "C06.bounded.admitted_equals_reference";
const L_SOFT: &str = "C06.bounded.nonterminal_error_passed_through";

type Key = &'static str;
type Out = Result<MarketEvent<Key, OrderBookEvent>, DataError>;
const KEYS: [Key; 2] = ["a", "b"];
const SYMBOLS: [&str; 3] = ["AAAUSDT", "BBBUSDT", "ZZZUSDT"]; // the last one is not subscribed

#[derive(Clone, Copy, Debug, PartialEq, Eq)]
enum Venue { Spot, Futures }

/// venue side depth update: ids [first, last], `prev` = last id of the previous update of that symbol
#[derive(Clone, Copy, Debug, PartialEq, Eq)]
struct Upd { sym: usize, first: u64, last: u64, prev: u64 }

#[derive(Clone, Copy, Debug, PartialEq, Eq)]
enum Ev { Update(usize, u64), SoftErr, HardErr, Notice }

#[derive(Clone, Copy, Debug, PartialEq, Eq)]
enum Perturb { None, Drop(usize), Dup(usize), Swap(usize), Replay(usize, usize) }

/// contiguous venue chain of `m` updates starting at id `base`
fn chain(sym: usize, base: u64, m: usize, venue: Venue) -> Vec<Upd> {
    let lens = [3u64, 1, 4, 2, 1, 3, 2, 5, 1, 2];
    let mut out = vec![];
    let (mut next, mut prev) = (base, base - 1);
    for k in 0..m {
        // futures ids are shared between symbols: consecutive updates of one symbol need not be contiguous, `pu` links them
        let gap = if venue == Venue::Futures && k % 3 == 2 { 2 } else { 0 };
        let first = next + gap;
        let last = first + lens[(k + sym) % lens.len()] - 1;
        out.push(Upd { sym, first, last, prev });
        prev = last;
        next = last + 1;
    }
    out
}

fn perturb(c: &[Upd], start: usize, p: Perturb) -> Vec<Upd> {
    let mut v: Vec<Upd> = c[start.min(c.len())..].to_vec();
    match p {
        Perturb::None => {}
        Perturb::Drop(i) => { if i < v.len() { v.remove(i); } }
        Perturb::Dup(i) => { if i < v.len() { let u = v[i]; v.insert(i, u); } }
        Perturb::Swap(i) => { if i + 1 < v.len() { v.swap(i, i + 1); } }
        Perturb::Replay(i, j) => { if i < v.len() { let old: Vec<Upd> = c[..=j.min(c.len() - 1)].to_vec(); let at = i + 1; for (k, u) in old.into_iter().enumerate() { v.insert(at + k, u); } } }
    }
    v
}

/// per instrument reference sequencer: the venue's documented procedure
#[derive(Clone, Copy)]
struct RefSeq { last: u64, first: bool }
enum Step { Dropped, Admitted, Break }
impl RefSeq {
    fn step(&mut self, venue: Venue, u: &Upd) -> Step {
        let ok = match venue {
            Venue::Spot => {
                if u.last <= self.last { return Step::Dropped; }
                if self.first { u.first <= self.last + 1 && u.last >= self.last + 1 } else { u.first == self.last + 1 }
            }
            Venue::Futures => {
                if u.last < self.last { return Step::Dropped; }
                if self.first { u.first <= self.last && u.last >= self.last } else { u.prev == self.last }
            }
        };
        if !ok { return Step::Break; }
        self.last = u.last;
        self.first = false;
        Step::Admitted
    }
}

struct ConnRef { events: Vec<Ev>, break_at: Option<usize> }
fn reference(venue: Venue, snaps: [u64; 2], deliveries: &[Upd]) -> ConnRef {
    let mut seqs = [RefSeq { last: snaps[0], first: true }, RefSeq { last: snaps[1], first: true }];
    let mut r = ConnRef { events: vec![], break_at: None };
    for (k, u) in deliveries.iter().enumerate() {
        if u.sym >= 2 { r.events.push(Ev::SoftErr); continue; }
        match seqs[u.sym].step(venue, u) {
            Step::Dropped => {}
            Step::Admitted => r.events.push(Ev::Update(u.sym, u.last)),
            Step::Break => { r.break_at = Some(k); break; }
        }
    }
    r.events.push(Ev::Notice);
    r
}

fn snapshot_event(venue: Venue, key: Key, id: u64) -> MarketEvent<Key, OrderBookEvent> {
    let snap: BinanceOrderBookL2Snapshot = serde_json::from_value(serde_json::json!({
        "lastUpdateId": id, "E": 1589436922972u64, "T": 1589436922959u64, "bids": [["99", "1"]], "asks": [["101", "1"]],
    })).expect("snapshot");
    MarketEvent::from((if venue == Venue::Spot { ExchangeId::BinanceSpot } else { ExchangeId::BinanceFuturesUsd }, key, snap))
}

fn update_json(u: &Upd) -> String {
    serde_json::json!({
        "e": "depthUpdate", "E": 1571889248277u64, "T": 1571889248276u64, "s": SYMBOLS[u.sym],
        "U": u.first, "u": u.last, "pu": u.prev, "b": [["99", "2"]], "a": [],
    }).to_string()
}

fn instrument_map() -> Map<Key> {
    Map::from_iter([
        (SubscriptionId::from(format!("@depth@100ms|{}", SYMBOLS[0])), KEYS[0]),
        (SubscriptionId::from(format!("@depth@100ms|{}", SYMBOLS[1])), KEYS[1]),
    ])
}

/// per delivery record of what the transformer returned: (delivery index within the connection, ok outputs, terminal errors, other errors)
type Log = Rc<RefCell<Vec<(usize, usize, usize, usize)>>>;

fn connection<T>(mut tf: T, deliveries: Vec<Upd>, log: Log) -> futures::stream::LocalBoxStream<'static, Out>
where
    T: Transformer<Output = MarketEvent<Key, OrderBookEvent>, Error = DataError, OutputIter = Vec<Out>> + 'static,
{
    futures::stream::iter(deliveries.into_iter().enumerate())
        .map(move |(k, u)| {
            let input: T::Input = serde_json::from_str(&update_json(&u)).expect("depth update payload");
            let out = tf.transform(input);
            let oks = out.iter().filter(|o| o.is_ok()).count();
            let hard = out.iter().filter(|o| matches!(o, Err(e) if e.is_terminal())).count();
            log.borrow_mut().push((k, oks, hard, out.len() - oks - hard));
            futures::stream::iter(out)
        })
        .flatten()
        .boxed_local()
}

struct Case { venue: Venue, snaps: [u64; 2], deliveries: Vec<Upd>, desc: String, gap_free: bool }

fn run_case<T>(case: &Case, make: &dyn Fn([u64; 2]) -> T, chains: &[Vec<Upd>; 2], seen: &mut HashSet<&'static str>)
where
    T: Transformer<Output = MarketEvent<Key, OrderBookEvent>, Error = DataError, OutputIter = Vec<Out>> + 'static,
{
    let venue = case.venue;
    // connection #2: what re-initialisation produces (fresh snapshots, fresh sequencers, clean delivery); ids offset by 10_000
    let snaps2 = [10_000 + 1, 10_000 + 2];
    let deliveries2: Vec<Upd> = {
        let a = chain(0, 10_000, 4, venue);
        let b = chain(1, 10_000, 4, venue);
        a.into_iter().zip(b).flat_map(|(x, y)| [x, y]).collect()
    };
    let want1 = reference(venue, case.snaps, &case.deliveries);
    let want2 = reference(venue, snaps2, &deliveries2);
    let mut want: Vec<Ev> = want1.events.clone();
    want.extend(want2.events.iter().cloned());

    let (log1, log2): (Log, Log) = Default::default();
    let conns = vec![connection(make(case.snaps), case.deliveries.clone(), log1.clone()), connection(make(snaps2), deliveries2.clone(), log2.clone())];
    let key = StreamKey::new("market_stream", ExchangeId::BinanceSpot, Some("l2"));
    let events: Vec<Ev> = futures::executor::block_on(
        futures::stream::iter(conns)
            .with_termination_on_error(|e: &DataError| e.is_terminal(), key)
            .with_reconnection_events(ExchangeId::BinanceSpot)
            .map(|e| match e {
                Event::Reconnecting(_) => Ev::Notice,
                Event::Item(Ok(ev)) => match &ev.kind {
                    OrderBookEvent::Update(book) => Ev::Update(KEYS.iter().position(|k| *k == ev.instrument).unwrap_or(9), book.sequence),
                    OrderBookEvent::Snapshot(book) => Ev::Update(8, book.sequence),
                },
                Event::Item(Err(e)) => if e.is_terminal() { Ev::HardErr } else { Ev::SoftErr },
            })
            .collect::<Vec<_>>(),
    );
    let input = || format!("{:?}: snapshots lastUpdateId a={} b={}; connection #1 deliveries (symbol U..u pu) [{}]; {}", venue, case.snaps[0], case.snaps[1],
        case.deliveries.iter().map(|u| format!("{} {}..{} pu={}", SYMBOLS[u.sym], u.first, u.last, u.prev)).collect::<Vec<_>>().join(", "), case.desc);
    let mut fail = |label: &'static str, observed: String, expected: String| { if seen.insert(label) { report(label, input(), observed, expected); } };

    let first_notice = events.iter().position(|e| *e == Ev::Notice).unwrap_or(events.len());
    let conn1 = &events[..first_notice];
    // 1. admitted updates of connection #1 form an unbroken chain under the venue rule (delivered events only)
    for sym in 0..2 {
        let admitted: Vec<u64> = conn1.iter().filter_map(|e| match e { Ev::Update(s, u) if *s == sym => Some(*u), _ => None }).collect();
        let mut prev: Option<Upd> = None;
        for u in admitted {
            let Some(upd) = chains[sym].iter().find(|c| c.last == u) else { fail(L_CHAIN, format!("update with sequence {u} delivered for {}", KEYS[sym]), "only venue updates".into()); break; };
            let s = case.snaps[sym];
            let ok = match (venue, prev) {
                (Venue::Spot, None) => upd.first <= s + 1 && upd.last >= s + 1,
                (Venue::Futures, None) => upd.first <= s && upd.last >= s,
                (Venue::Spot, Some(p)) => upd.first == p.last + 1,
                (Venue::Futures, Some(p)) => upd.prev == p.last,
            };
            if !ok {
                fail(L_CHAIN, format!("{}: update {}..{} (pu={}) admitted after {}; delivered {:?}", KEYS[sym], upd.first, upd.last, upd.prev, prev.map(|p| format!("update ..{}", p.last)).unwrap_or(format!("snapshot {s}")), events),
                     "first admitted update covers the snapshot id (spot: U <= id+1 <= u, futures: U <= id <= u), every further one continues the previous (spot: U == u_prev+1, futures: pu == u_prev); otherwise a terminal error".into());
                break;
            }
            prev = Some(*upd);
        }
    }
    // 2. a break ends the connection
    if let Some(k) = want1.break_at {
        let n_before = want1.events.len() - 1;
        if conn1.len() > n_before || events.get(n_before) != Some(&Ev::Notice) {
            fail(L_ENDS, format!("chain of {} breaks at delivery #{k}; delivered {:?}", SYMBOLS[case.deliveries[k].sym], events), format!("{want:?} (connection ends at the break, one notice, then the next connection)"));
        }
        // at the transformer: exactly one terminal error for the breaking delivery
        let l = log1.borrow();
        if let Some(rec) = l.iter().find(|r| r.0 == k) {
            if (rec.1, rec.2, rec.3) != (0, 1, 0) { fail(L_TERMINAL, format!("transformer output for delivery #{k}: {} events, {} terminal errors, {} other errors", rec.1, rec.2, rec.3), "exactly one terminal (InvalidSequence) error".into()); }
        } else if events == want {
            fail(L_TERMINAL, format!("delivery #{k} never reached the transformer"), "processed and reported as terminal error".into());
        }
        if l.iter().any(|r| r.0 > k) { fail(L_ENDS, format!("deliveries {:?} of connection #1 were still processed after the break at #{k}", l.iter().filter(|r| r.0 > k).map(|r| r.0).collect::<Vec<_>>()), "connection dropped at the break".into()); }
    }
    // 3. the whole output against the reference
    if events != want {
        let label = if events.contains(&Ev::HardErr) { L_ENDS }
            else if case.gap_free { L_GAPFREE }
            else if want1.break_at.is_some() && conn1.len() >= want1.events.len() - 1 { L_ENDS }
            else if events.iter().filter(|e| **e == Ev::SoftErr).count() != want.iter().filter(|e| **e == Ev::SoftErr).count() { L_SOFT }
            else { L_ADMITTED };
        fail(label, format!("{events:?}"), format!("{want:?}"));
    }
    if case.gap_free && (want1.break_at.is_some() || log1.borrow().iter().any(|r| r.2 > 0)) {
        fail(L_GAPFREE, format!("terminal error on a gap-free in-order delivery: transformer log {:?}", log1.borrow()), "no error".into());
    }
}

fn make_spot(snaps: [u64; 2]) -> BinanceSpotOrderBooksL2Transformer<Key> {
    let snapshots = [snapshot_event(Venue::Spot, KEYS[0], snaps[0]), snapshot_event(Venue::Spot, KEYS[1], snaps[1])];
    let (tx, _rx) = tokio::sync::mpsc::unbounded_channel();
    futures::executor::block_on(<BinanceSpotOrderBooksL2Transformer<Key> as ExchangeTransformer<_, _, OrderBooksL2>>::init(instrument_map(), &snapshots, tx)).expect("spot transformer")
}
fn make_futures(snaps: [u64; 2]) -> BinanceFuturesUsdOrderBooksL2Transformer<Key> {
    let snapshots = [snapshot_event(Venue::Futures, KEYS[0], snaps[0]), snapshot_event(Venue::Futures, KEYS[1], snaps[1])];
    let (tx, _rx) = tokio::sync::mpsc::unbounded_channel();
    futures::executor::block_on(<BinanceFuturesUsdOrderBooksL2Transformer<Key> as ExchangeTransformer<_, _, OrderBooksL2>>::init(instrument_map(), &snapshots, tx)).expect("futures transformer")
}

fn interleave(a: &[Upd], b: &[Upd], mode: u64, rng: &mut Rng) -> Vec<Upd> {
    let mut out = vec![];
    let (mut i, mut j) = (0, 0);
    while i < a.len() || j < b.len() {
        let take_a = if i >= a.len() { false } else if j >= b.len() { true } else {
            match mode { 0 => (i + j) % 2 == 0, 1 => true, 2 => i < 2 || j >= b.len(), _ => rng.chance(1, 2) }
        };
        if take_a { out.push(a[i]); i += 1; } else { out.push(b[j]); j += 1; }
    }
    out
}

/// is `d` (deliveries of one symbol) a gap-free in-order run of the venue chain, preceded only by strictly older messages?
fn is_gap_free(venue: Venue, snap: u64, c: &[Upd], d: &[Upd]) -> bool {
    // in order & contiguous in the chain
    let idx: Vec<usize> = d.iter().map(|u| c.iter().position(|x| x == u).unwrap()).collect();
    if idx.windows(2).any(|w| w[1] != w[0] + 1) { return false; }
    // the first message that is not strictly older has to cover the snapshot
    let older = |u: &Upd| match venue { Venue::Spot => u.last <= snap, Venue::Futures => u.last < snap };
    match d.iter().find(|u| !older(u)) {
        None => true,
        Some(u) => match venue { Venue::Spot => u.first <= snap + 1, Venue::Futures => u.first <= snap },
    }
}

pub fn run(seed: u64, thorough: bool) -> u64 {
    let mut seen: HashSet<&'static str> = HashSet::new();
    let mut n = 0u64;
    let mut rng = Rng::seeded(seed, 6);
    const M: usize = 8;
    for venue in [Venue::Spot, Venue::Futures] {
        let chains = [chain(0, 100, M, venue), chain(1, 500, M, venue)];
        let go = |case: Case, seen: &mut HashSet<&'static str>| match venue {
            Venue::Spot => run_case(&case, &make_spot, &chains, seen),
            Venue::Futures => run_case(&case, &make_futures, &chains, seen),
        };
        let mut perturbs = vec![Perturb::None];
        for i in 0..5 { perturbs.push(Perturb::Drop(i)); perturbs.push(Perturb::Dup(i)); perturbs.push(Perturb::Swap(i)); }
        for (i, j) in [(1, 0), (2, 1), (3, 0), (4, 3), (5, 2)] { perturbs.push(Perturb::Replay(i, j)); }
        // snapshot ids of `a` around the first updates of its chain: before the chain, on every boundary, inside
        let a = &chains[0];
        let snaps_a: Vec<u64> = (a[0].first - 2..=a[3].last + 1).collect();
        // `b`: (snapshot, start, perturbation)
        let b = &chains[1];
        let b_variants: Vec<(u64, usize, Perturb)> = if thorough {
            vec![(b[1].first, 0, Perturb::None), (b[1].first, 3, Perturb::None), (b[0].last, 0, Perturb::Drop(3)), (b[2].last - 1, 1, Perturb::Dup(2)), (b[0].first - 1, 0, Perturb::Swap(4))]
        } else {
            vec![(b[1].first, 0, Perturb::None), (b[0].last, 0, Perturb::Drop(3))]
        };
        let modes: &[u64] = if thorough { &[0, 1, 2, 3] } else { &[0, 2] };
        for &sa in &snaps_a {
            for start in 0..=4usize {
                for &p in &perturbs {
                    for &(sb, start_b, pb) in &b_variants {
                        for &mode in modes {
                            if !thorough && (sa as usize + start + mode as usize) % 2 == 1 && !matches!(p, Perturb::None | Perturb::Drop(_)) { continue; }
                            let da = perturb(a, start, p);
                            let db = perturb(b, start_b, pb);
                            let mut deliveries = interleave(&da, &db, mode, &mut rng);
                            let stray = (sa + start as u64) % 5 == 0;
                            if stray { deliveries.insert(deliveries.len() / 2, Upd { sym: 2, first: 1, last: 2, prev: 0 }); }
                            let gap_free = is_gap_free(venue, sa, a, &da) && is_gap_free(venue, sb, b, &db);
                            let desc = format!("a: venue chain from index {start} with {p:?}; b: from index {start_b} with {pb:?}{}", if stray { "; one update for an unsubscribed symbol" } else { "" });
                            go(Case { venue, snaps: [sa, sb], deliveries, desc, gap_free }, &mut seen);
                            n += 1;
                        }
                    }
                }
            }
        }
        // seeded random: several perturbations at once
        for _ in 0..if thorough { 60_000 } else { 1_500 } {
            let sa = a[0].first - 2 + rng.below(a[4].last - a[0].first + 4);
            let sb = b[0].first - 2 + rng.below(b[4].last - b[0].first + 4);
            let pick = |rng: &mut Rng| match rng.below(6) { 0 => Perturb::Drop(rng.below(6) as usize), 1 => Perturb::Dup(rng.below(6) as usize), 2 => Perturb::Swap(rng.below(5) as usize), 3 => { let i = rng.below(6) as usize; Perturb::Replay(i, rng.below(i as u64 + 1) as usize) } _ => Perturb::None };
            let (pa, pb) = (pick(&mut rng), pick(&mut rng));
            let (start_a, start_b) = (rng.below(5) as usize, rng.below(5) as usize);
            let da = perturb(a, start_a, pa);
            let db = perturb(b, start_b, pb);
            let deliveries = interleave(&da, &db, 3, &mut rng);
            let gap_free = is_gap_free(venue, sa, a, &da) && is_gap_free(venue, sb, b, &db);
            go(Case { venue, snaps: [sa, sb], deliveries, desc: format!("a: from {start_a} with {pa:?}; b: from {start_b} with {pb:?}"), gap_free }, &mut seen);
            n += 1;
        }
    }
    n
}
