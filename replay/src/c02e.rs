//! C02 END-TO-END bounded stand-in (never counted as proved): an exchange's fill reaches the position of the instrument it NAMES.
//!
//! `c02.rs` drives `PositionManager` directly on one instrument. Here the whole path is the code under test:
//!   unindexed trade account event (exchange id + the exchange's OWN instrument name, as an execution client produces it)
//!     -> `AccountEventIndexer` of THAT exchange (`Indexer::index`, map built by the real `generate_execution_instrument_map`)
//!     -> `EngineState::update_from_account` (state built by the real `EngineStateBuilder` over the real `IndexedInstruments`)
//!     -> position of one instrument state / returned `PositionExited`.
//!
//! Set-up (real constructors only): layout A = 3 exchanges x 2-3 spot instruments (8 instruments), layout B = 2 exchanges (4 instruments).
//! The same exchange symbol ("BTCUSDT", "ETHUSDT", "SOLUSDT") and the same asset names are listed on several exchanges, definitions are
//! given interleaved (definition position != index; the instruments of a later exchange do not start at index 0), internal names are unique.
//!
//! Histories: per (exchange, instrument) fills - opens, increases, partial reductions, exact closes, flips, repeated flips - interleaved
//! across exchanges and instruments; trade ids are numbered PER EXCHANGE (two exchanges produce the same id strings), a few streamed balance
//! snapshots (asset names shared between exchanges) are mixed into the seeded histories as events that name no instrument.
//!   1. every sequence up to depth 4 (thorough: 5) over 8 letters (Buy / Sell x 1 / 2 or 3) on PAIRS of instruments (same symbol on two exchanges / two symbols of
//!      one exchange), and over 9 letters on the three instruments that share one symbol, iterative deepening (shortest witness first);
//!   2. the crafted per-instrument scripts of c02.rs, a different one on every instrument at the same time, round-robin / reversed / shuffled;
//!   3. seeded random histories over all instruments, the next fill drawn by shape from the instrument's current net quantity.
//!
//! Oracle: the reference arithmetic of c02.rs (cash-flow / cost-basis model written from the statement; the code under test is never asked
//! for an expectation), one model per (exchange, instrument) AS NAMED in the unindexed fill. The engine entry that belongs to a name is
//! found by scanning the `IndexedInstruments` for (exchange id, exchange symbol) - never through the execution map.
//! After EVERY event, for EVERY instrument of EVERY exchange:
//!  * position_is_net_filled_quantity_of_its_own_instrument   side / quantity_abs (and peak size, and the key stored in the position) ==
//!                                                            sign / magnitude of the net signed quantity of the fills that NAMED it
//!  * closed_record_iff_net_reaches_or_crosses_zero           `update_from_account` returns a record iff the named instrument's net was
//!                                                            non-zero and reaches or crosses zero; it carries that instrument's key, old
//!                                                            side, peak size, enter / exit time
//!  * realised_pnl_conserves_cash_flows                       sum(closed pnl) + open pnl == proceeds - cost - fees + signed cost basis of the
//!                                                            open quantity; a record's pnl == cash flow of its own fill portions
//!  * fees_conserved                                          entry + exit fees over all positions == fees of the fills; per position split
//!  * fill_ids_recorded                                       open position / closed record list exactly the ids of the fills that affected it
//!  * other_instruments_untouched                             the full `InstrumentState` of every instrument NOT named is unchanged; orders /
//!                                                            definition / data of the named one, all asset states (fills), trading, global too
//! Tolerance as in c02.rs: clauses that involve a division in the real code (average entry, pro-rata fee) |diff| <= 1e-12, the rest exact.
use crate::{report, rng::Rng};
use barter::engine::state::{
    EngineState, global::DefaultGlobalData, instrument::data::DefaultInstrumentMarketData, position::PositionExited, trading::TradingState,
};
use barter_execution::{
    AccountEvent, AccountEventKind, UnindexedAccountEvent,
    balance::{AssetBalance, Balance},
    indexer::AccountEventIndexer,
    map::generate_execution_instrument_map,
    order::id::{OrderId, StrategyId},
    trade::{AssetFees, Trade, TradeId},
};
use barter_instrument::{
    Side, Underlying,
    asset::{Asset, QuoteAsset, name::AssetNameExchange},
    exchange::ExchangeId,
    index::IndexedInstruments,
    instrument::{Instrument, InstrumentIndex, name::InstrumentNameExchange},
};
use barter_integration::{snapshot::Snapshot, stream::indexed::Indexer};
use chrono::{DateTime, Utc};
use rust_decimal::Decimal;
use rust_decimal_macros::dec;
use std::{
    collections::HashSet,
    panic::{AssertUnwindSafe, catch_unwind},
    sync::Arc,
};

type State = EngineState<DefaultGlobalData, DefaultInstrumentMarketData>;

const L_POS: &str = "C02.bounded.position_is_net_filled_quantity_of_its_own_instrument";
const L_CLOSE: &str = "C02.bounded.closed_record_iff_net_reaches_or_crosses_zero";
const L_PNL: &str = "C02.bounded.realised_pnl_conserves_cash_flows";
const L_FEES: &str = "C02.bounded.fees_conserved";
const L_IDS: &str = "C02.bounded.fill_ids_recorded";
const L_OTHER: &str = "C02.bounded.other_instruments_untouched";
const TOL: Decimal = dec!(0.000000000001);

fn time(k: usize) -> DateTime<Utc> { DateTime::<Utc>::from_timestamp(1_700_000_000 + k as i64, 0).unwrap() }
fn near(a: Decimal, b: Decimal) -> bool { (a - b).abs() <= TOL }

// ------------------------------------------------------------------------------------------------- layout
struct Inst { ex: ExchangeId, name: &'static str, key: InstrumentIndex, internal: String }
struct Layout {
    indexed: IndexedInstruments,
    /// in DEFINITION order (not index order)
    insts: Vec<Inst>,
    indexers: Vec<(ExchangeId, AccountEventIndexer)>,
    /// (exchange, exchange asset name) of every asset
    assets: Vec<(ExchangeId, String)>,
    text: String,
}
impl Layout {
    fn indexer(&self, ex: ExchangeId) -> &AccountEventIndexer { &self.indexers.iter().find(|(e, _)| *e == ex).expect("indexer of a layout exchange").1 }
    fn who(&self, j: usize) -> String { let it = &self.insts[j]; format!("{} {} (index {})", it.ex.as_str(), it.name, it.key.index()) }
    fn find(&self, ex: ExchangeId, name: &str) -> usize { self.insts.iter().position(|i| i.ex == ex && i.name == name).expect("instrument of the layout") }
    fn fresh(&self) -> State {
        EngineState::builder(&self.indexed, DefaultGlobalData, DefaultInstrumentMarketData::default).time_engine_start(time(0)).trading_state(TradingState::Enabled).build()
    }
}

/// `defs`: (exchange, exchange symbol, base, quote) in definition order. Err: what went wrong with the real constructors
fn layout(defs: &[(ExchangeId, &'static str, &'static str, &'static str)]) -> Result<Layout, String> {
    let indexed = IndexedInstruments::new(defs.iter().map(|(ex, name, base, quote)| {
        Instrument::spot(*ex, format!("{}-{}", ex.as_str(), name.to_lowercase()), *name, Underlying::new(Asset::new_from_exchange(*base), Asset::new_from_exchange(*quote)), None)
    }));
    let mut insts = vec![];
    for (ex, name, _, _) in defs {
        // the entry that belongs to (exchange, symbol): plain scan of the indexed collection
        let hits: Vec<_> = indexed.instruments().iter().filter(|k| k.value.exchange.value == *ex && k.value.name_exchange == InstrumentNameExchange::from(*name)).collect();
        if hits.len() != 1 { return Err(format!("{} indexed instruments for {} {name}", hits.len(), ex.as_str())); }
        insts.push(Inst { ex: *ex, name, key: hits[0].key, internal: hits[0].value.name_internal.to_string() });
    }
    let mut indexers = vec![];
    for ex in indexed.exchanges() {
        let map = generate_execution_instrument_map(&indexed, ex.value).map_err(|e| format!("generate_execution_instrument_map({}) = Err({e})", ex.value))?;
        indexers.push((ex.value, AccountEventIndexer::new(Arc::new(map))));
    }
    let assets = indexed.assets().iter().map(|k| (k.value.exchange, k.value.asset.name_exchange.to_string())).collect();
    let mut by_index: Vec<&Inst> = insts.iter().collect();
    by_index.sort_by_key(|i| i.key.index());
    let text = format!("instruments by index: [{}] (defined in the order [{}])",
        by_index.iter().map(|i| format!("{}={} {}", i.key.index(), i.ex.as_str(), i.name)).collect::<Vec<_>>().join(", "),
        insts.iter().map(|i| format!("{} {}", i.ex.as_str(), i.name)).collect::<Vec<_>>().join(", "));
    Ok(Layout { indexed, insts, indexers, assets, text })
}

// ------------------------------------------------------------------------------------------------- events
#[derive(Clone, Copy, Debug, PartialEq)]
struct Fill { buy: bool, price: Decimal, qty: Decimal, fee: Decimal }
#[derive(Clone, Copy, Debug, PartialEq)]
enum Ev {
    /// fill on instrument `i` (definition position)
    Fill { i: usize, f: Fill },
    /// streamed balance snapshot of asset `a`: names no instrument
    Bal { a: usize, total: i64 },
}
/// trade ids are numbered per exchange: the id of the next fill of `ev`'s exchange after `trace`
fn trade_id(lay: &Layout, trace: &[Ev], ev: &Ev) -> String {
    let Ev::Fill { i, .. } = ev else { return String::new(); };
    let ex = lay.insts[*i].ex;
    format!("t{}", trace.iter().filter(|e| matches!(e, Ev::Fill { i: j, .. } if lay.insts[*j].ex == ex)).count())
}
fn show(lay: &Layout, trace: &[Ev]) -> String {
    let mut out = vec![];
    for (k, ev) in trace.iter().enumerate() {
        out.push(match ev {
            Ev::Fill { i, f } => format!("#{k} {} {}: {} {} @ {} fee {} (id {})", lay.insts[*i].ex.as_str(), lay.insts[*i].name, if f.buy { "Buy" } else { "Sell" }, f.qty, f.price, f.fee, trade_id(lay, &trace[..k], ev)),
            Ev::Bal { a, total } => format!("#{k} {}: balance snapshot {} total {total}", lay.assets[*a].0.as_str(), lay.assets[*a].1),
        });
    }
    format!("{}; unindexed account events, each through the AccountEventIndexer of its exchange into EngineState::update_from_account: {}", lay.text, out.join(" ; "))
}
fn unindexed(lay: &Layout, ev: &Ev, k: usize, tid: &str) -> UnindexedAccountEvent {
    match ev {
        Ev::Fill { i, f } => {
            let it = &lay.insts[*i];
            AccountEvent { exchange: it.ex, kind: AccountEventKind::Trade(Trade {
                id: TradeId::new(tid), order_id: OrderId::new(format!("o{k}")), instrument: InstrumentNameExchange::from(it.name), strategy: StrategyId::new("s"),
                time_exchange: time(k), side: if f.buy { Side::Buy } else { Side::Sell }, price: f.price, quantity: f.qty, fees: AssetFees::quote_fees(f.fee),
            }) }
        }
        Ev::Bal { a, total } => {
            let (ex, name) = &lay.assets[*a];
            AccountEvent { exchange: *ex, kind: AccountEventKind::BalanceSnapshot(Snapshot(AssetBalance { asset: AssetNameExchange::from(name.as_str()), balance: Balance::new(Decimal::from(*total), Decimal::from(*total)), time_exchange: time(k) })) }
        }
    }
}

// ------------------------------------------------------------------------------------------------- reference model (c02.rs)
/// the open position as the model sees it
#[derive(Clone, Debug)]
struct Open { cost: Decimal, max: Decimal, cash: Decimal, fees_enter: Decimal, fees_exit: Decimal, t_enter: usize, ids: Vec<String> }
#[derive(Clone, Debug, Default)]
struct Model {
    /// signed sum of the quantities of the fills that named this instrument (Buy +)
    net: Decimal,
    /// sell proceeds - buy cost - fees over those fills
    cash: Decimal,
    fees: Decimal,
    open: Option<Open>,
    /// what the REAL code reported for closed positions of this instrument so far
    closed_pnl: Decimal,
    closed_fees: Decimal,
}
/// what the model expects of the record of a position closed by this fill
struct ClosedExp { long: bool, max: Decimal, cash: Decimal, fees_enter: Decimal, fees_exit: Decimal, t_enter: usize, ids: Vec<String> }

impl Model {
    /// apply event number k (a fill with trade id `tid`); returns the expected closed record (if the fill closes a position)
    fn apply(&mut self, f: &Fill, k: usize, tid: &str) -> Option<ClosedExp> {
        let signed = if f.buy { f.qty } else { -f.qty };
        let flow = if f.buy { -(f.price * f.qty) } else { f.price * f.qty };
        let before = self.net;
        self.net += signed;
        self.cash += flow - f.fee;
        self.fees += f.fee;
        let fresh = |qty: Decimal, fee: Decimal, cash: Decimal| Open { cost: f.price * qty, max: qty, cash, fees_enter: fee, fees_exit: Decimal::ZERO, t_enter: k, ids: vec![tid.to_string()] };
        let Some(mut o) = self.open.take() else {
            self.open = Some(fresh(f.qty, f.fee, flow - f.fee));
            return None;
        };
        let long = before > Decimal::ZERO;
        let q_open = before.abs();
        o.ids.push(tid.to_string());
        if long == f.buy {
            // increase: the entry joins the cost basis
            o.cost += f.price * f.qty;
            o.cash += flow - f.fee;
            o.fees_enter += f.fee;
            if self.net.abs() > o.max { o.max = self.net.abs(); }
            self.open = Some(o);
            None
        } else if f.qty < q_open {
            // reduce: the sold part leaves the cost basis pro rata (the mean of the remaining entries is unchanged)
            o.cost = o.cost * (q_open - f.qty) / q_open;
            o.cash += flow - f.fee;
            o.fees_exit += f.fee;
            self.open = Some(o);
            None
        } else if f.qty == q_open {
            o.cash += flow - f.fee;
            o.fees_exit += f.fee;
            Some(ClosedExp { long, max: o.max, cash: o.cash, fees_enter: o.fees_enter, fees_exit: o.fees_exit, t_enter: o.t_enter, ids: o.ids })
        } else {
            // crossing fill: the closing part (q_open of f.qty) and the remainder share cash flow and fee by quantity
            let rest = f.qty - q_open;
            let fee_close = f.fee * q_open / f.qty;
            let fee_rest = f.fee - fee_close;
            let flow_close = if f.buy { -(f.price * q_open) } else { f.price * q_open };
            let flow_rest = flow - flow_close;
            o.cash += flow_close - fee_close;
            o.fees_exit += fee_close;
            self.open = Some(fresh(rest, fee_rest, flow_rest - fee_rest));
            Some(ClosedExp { long, max: o.max, cash: o.cash, fees_enter: o.fees_enter, fees_exit: o.fees_exit, t_enter: o.t_enter, ids: o.ids })
        }
    }
}

fn ids(v: &[String]) -> Vec<TradeId> { v.iter().map(TradeId::new).collect() }
type Fail = (&'static str, String, String);

// ------------------------------------------------------------------------------------------------- one event
/// event number k on the real engine state (`before`: the state before the event) and on the models; every clause that fails
fn step(lay: &Layout, before: &State, state: &mut State, models: &mut [Model], ev: &Ev, k: usize, tid: &str) -> Vec<Fail> {
    let mut out: Vec<Fail> = vec![];
    let named: Option<usize> = match ev { Ev::Fill { i, .. } => Some(*i), Ev::Bal { .. } => None };
    let un = unindexed(lay, ev, k, tid);
    let ex = un.exchange;
    let what = match named { Some(i) => format!("fill #{k} naming {}", lay.who(i)), None => format!("balance snapshot #{k} of {}", ex.as_str()) };
    // through the indexer of the event's exchange
    let event: AccountEvent = match lay.indexer(ex).index(un) {
        Ok(e) => e,
        Err(e) => { out.push((if named.is_some() { L_POS } else { L_OTHER }, format!("{what}: the AccountEventIndexer of {} refuses it: {e}", ex.as_str()), "indexed (the exchange lists that name) and applied".into())); return out; }
    };
    // into the engine state
    let closed: Option<PositionExited<QuoteAsset>> = match catch_unwind(AssertUnwindSafe(|| state.update_from_account(&event))) {
        Ok(c) => c,
        Err(_) => { out.push((if named.is_some() { L_POS } else { L_OTHER }, format!("{what}: EngineState::update_from_account panicked on the indexed event {event:?}"), "applied".into())); return out; }
    };
    let net_before = named.map(|i| models[i].net).unwrap_or_default();
    let exp_closed = match ev { Ev::Fill { i, f } => models[*i].apply(f, k, tid), Ev::Bal { .. } => None };

    // ---- the returned record belongs to the NAMED instrument and exists iff its net reaches or crosses zero
    let (must_close, net_txt) = match named {
        Some(i) => {
            let net = models[i].net;
            let crossed = (net_before > Decimal::ZERO && net < Decimal::ZERO) || (net_before < Decimal::ZERO && net > Decimal::ZERO);
            (!net_before.is_zero() && (net.is_zero() || crossed), format!("net quantity of {} {net_before} -> {net}", lay.who(i)))
        }
        None => (false, "no instrument named".to_string()),
    };
    let rec_txt = |c: &PositionExited<QuoteAsset>| format!("record for instrument index {} ({}): side {:?} quantity_abs_max {} enter {} exit {} trades {:?}", c.instrument.index(),
        lay.insts.iter().position(|it| it.key == c.instrument).map(|j| format!("{} {}", lay.insts[j].ex.as_str(), lay.insts[j].name)).unwrap_or("no such instrument".into()), c.side, c.quantity_abs_max, c.time_enter, c.time_exit, c.trades);
    if closed.is_some() != must_close {
        out.push((L_CLOSE, format!("{what}: {net_txt}; update_from_account returned {}", closed.as_ref().map(|c| rec_txt(c)).unwrap_or("no closed record".into())), if must_close { "a closed record of that instrument".into() } else { "no closed record".into() }));
    }
    if let Some(c) = &closed {
        if let Some(i) = named { if c.instrument != lay.insts[i].key { out.push((L_CLOSE, format!("{what}: returned {}", rec_txt(c)), format!("a record (if any) carrying the key of the named instrument, index {}", lay.insts[i].key.index()))); } }
        // booked on the instrument whose key it carries
        if let Some(j) = lay.insts.iter().position(|it| it.key == c.instrument) { models[j].closed_pnl += c.pnl_realised; models[j].closed_fees += c.fees_enter.fees + c.fees_exit.fees; }
    }
    if let (Some(c), Some(e)) = (&closed, &exp_closed) {
        let side = if e.long { Side::Buy } else { Side::Sell };
        if c.side != side || c.quantity_abs_max != e.max || c.time_enter != time(e.t_enter) || c.time_exit != time(k) {
            out.push((L_CLOSE, format!("{what}: {}", rec_txt(c)), format!("side {side:?} quantity_abs_max {} enter {} exit {}", e.max, time(e.t_enter), time(k))));
        }
        if c.trades != ids(&e.ids) { out.push((L_IDS, format!("{what}: closed record lists trades {:?}", c.trades), format!("the fills that affected the closed position, in order: {:?}", e.ids))); }
        if !near(c.pnl_realised, e.cash) { out.push((L_PNL, format!("{what}: closed record pnl_realised = {}", c.pnl_realised), format!("cash flow of the fill portions of that position (proceeds - cost - its fee shares) = {}", e.cash))); }
        if !near(c.fees_enter.fees, e.fees_enter) || !near(c.fees_exit.fees, e.fees_exit) {
            out.push((L_FEES, format!("{what}: closed record fees_enter {} fees_exit {}", c.fees_enter.fees, c.fees_exit.fees), format!("fees_enter {} fees_exit {} (a crossing fill's fee is split by quantity: closed part / fill quantity)", e.fees_enter, e.fees_exit)));
        }
    }

    // ---- every instrument of every exchange
    // the named instrument first (the first witness of a label speaks about the instrument the fill names), then the others in definition order
    let order: Vec<usize> = named.into_iter().chain((0..lay.insts.len()).filter(|j| Some(*j) != named)).collect();
    for j in order {
        let it = &lay.insts[j];
        let (st, sb) = (state.instruments.instrument_index(&it.key), before.instruments.instrument_index(&it.key));
        let m = &models[j];
        let cur = st.position.current.as_ref();
        let role = if named == Some(j) { "the NAMED instrument" } else { "NOT named by the event" };
        let real_net = cur.map(|p| if p.side == Side::Buy { p.quantity_abs } else { -p.quantity_abs }).unwrap_or(Decimal::ZERO);
        if real_net != m.net || cur.is_none() != m.net.is_zero() {
            out.push((L_POS, format!("after {what}: open position of {} ({role}) = {:?}", lay.who(j), cur.map(|p| (p.side, p.quantity_abs))),
                format!("net signed quantity of the fills that named {} {} = {} -> {}", it.ex.as_str(), it.name, m.net, if m.net.is_zero() { "no open position".to_string() } else { format!("{} {}", if m.net > Decimal::ZERO { "Buy" } else { "Sell" }, m.net.abs()) })));
        } else if let (Some(p), Some(o)) = (cur, &m.open) {
            if p.instrument != it.key { out.push((L_POS, format!("after {what}: the open position held by {} carries instrument index {}", lay.who(j), p.instrument.index()), format!("index {}", it.key.index()))); }
            if p.quantity_abs_max != o.max { out.push((L_POS, format!("after {what}: {} quantity_abs_max = {}", lay.who(j), p.quantity_abs_max), format!("largest size this position ever had = {}", o.max))); }
        }
        if let (Some(p), Some(o)) = (cur, &m.open) {
            if p.trades != ids(&o.ids) { out.push((L_IDS, format!("after {what}: open position of {} lists trades {:?}", lay.who(j), p.trades), format!("the fills that named {} {} since its position was opened: {:?}", it.ex.as_str(), it.name, o.ids))); }
            if !near(p.fees_enter.fees, o.fees_enter) || !near(p.fees_exit.fees, o.fees_exit) {
                out.push((L_FEES, format!("after {what}: open position of {} fees_enter {} fees_exit {}", lay.who(j), p.fees_enter.fees, p.fees_exit.fees), format!("fees_enter {} fees_exit {}", o.fees_enter, o.fees_exit)));
            }
        }
        // every fee attributed exactly once
        let open_fees = cur.map(|p| p.fees_enter.fees + p.fees_exit.fees).unwrap_or(Decimal::ZERO);
        if !near(m.closed_fees + open_fees, m.fees) {
            out.push((L_FEES, format!("after {what}: entry + exit fees over all positions of {} = {} (closed records {} + open {open_fees})", lay.who(j), m.closed_fees + open_fees, m.closed_fees), format!("sum of the fees of the fills that named it = {}", m.fees)));
        }
        // conservation of cash; the open quantity at its average entry = cost basis of the open inventory (model), signed
        let open_pnl = cur.map(|p| p.pnl_realised).unwrap_or(Decimal::ZERO);
        let basis = m.open.as_ref().map(|o| if m.net > Decimal::ZERO { o.cost } else { -o.cost }).unwrap_or(Decimal::ZERO);
        if !near(m.closed_pnl + open_pnl, m.cash + basis) {
            out.push((L_PNL, format!("after {what}: {}: sum of closed pnl_realised {} + open pnl_realised {open_pnl} = {} (open position's price_entry_average {:?})", lay.who(j), m.closed_pnl, m.closed_pnl + open_pnl, cur.map(|p| p.price_entry_average)),
                format!("sell proceeds - buy cost - fees of the fills that named it ({}) + signed open quantity at its average entry ({basis}) = {}", m.cash, m.cash + basis)));
        }
        // untouched
        if named != Some(j) {
            if st != sb {
                out.push((L_OTHER, format!("after {what}: InstrumentState of {} (NOT named) changed: position {:?} -> {:?}, tear sheet changed = {}, orders changed = {}", lay.who(j),
                    sb.position.current.as_ref().map(|p| (p.side, p.quantity_abs)), cur.map(|p| (p.side, p.quantity_abs)), st.tear_sheet != sb.tear_sheet, st.orders != sb.orders), "unchanged".into()));
            }
        } else if st.key != sb.key || st.instrument != sb.instrument || st.orders != sb.orders || st.data != sb.data || st.key != it.key || st.instrument.name_internal.as_ref() != it.internal.as_str() {
            out.push((L_OTHER, format!("after {what}: key / definition / orders / data of the named instrument {} changed", lay.who(j)), "unchanged (a fill moves position and tear sheet only)".into()));
        }
    }
    if named.is_some() && state.assets != before.assets { out.push((L_OTHER, format!("after {what}: asset states changed"), "unchanged by a fill".into())); }
    if state.trading != before.trading || state.global != before.global { out.push((L_OTHER, format!("after {what}: trading state / global data changed"), "unchanged".into())); }
    out
}

// ------------------------------------------------------------------------------------------------- search
struct Search { seen: HashSet<&'static str>, n: u64 }
impl Search {
    fn fails(&mut self, lay: &Layout, fails: &[Fail], trace: &[Ev]) {
        for (label, obs, exp) in fails {
            if self.seen.insert(*label) { report(label, show(lay, trace), obs.clone(), exp.clone()); }
        }
    }
    /// every sequence of exactly `remaining` more events over `alphabet` (prefixes shared, counted at the last level: `explore` deepens
    /// the bound one by one, so shorter sequences were counted before). false iff some sequence failed
    fn dfs(&mut self, lay: &Layout, alphabet: &[Ev], remaining: usize, state: &State, models: &[Model], trace: &mut Vec<Ev>) -> bool {
        let mut all_ok = true;
        for ev in alphabet {
            let (mut s2, mut m2) = (state.clone(), models.to_vec());
            let tid = trade_id(lay, trace, ev);
            trace.push(*ev);
            let fails = step(lay, state, &mut s2, &mut m2, ev, trace.len() - 1, &tid);
            if remaining == 1 { self.n += 1; }
            self.fails(lay, &fails, trace);
            if !fails.is_empty() { all_ok = false; }
            else if remaining > 1 { all_ok &= self.dfs(lay, alphabet, remaining - 1, &s2, &m2, trace); }
            trace.pop();
        }
        all_ok
    }
    fn explore(&mut self, lay: &Layout, alphabet: &[Ev], depth: usize) {
        let (state, models) = (lay.fresh(), vec![Model::default(); lay.insts.len()]);
        // a failing sequence ends the group (its extensions say nothing new)
        for bound in 1..=depth { if !self.dfs(lay, alphabet, bound, &state, &models, &mut vec![]) { break; } }
    }
    fn seq(&mut self, lay: &Layout, evs: &[Ev]) {
        let (mut state, mut models) = (lay.fresh(), vec![Model::default(); lay.insts.len()]);
        for (k, ev) in evs.iter().enumerate() {
            let before = state.clone();
            let tid = trade_id(lay, &evs[..k], ev);
            let fails = step(lay, &before, &mut state, &mut models, ev, k, &tid);
            self.n += 1;
            self.fails(lay, &fails, &evs[..=k]);
            if !fails.is_empty() { return; }
        }
    }
}

fn fill(buy: bool, price: Decimal, qty: Decimal, fee: Decimal) -> Fill { Fill { buy, price, qty, fee } }

/// the crafted single-instrument histories of c02.rs: partial reduce then re-increase at another price, exact close, asymmetric flips
/// (1 -> 4, 3 -> 4, 2 -> 3), repeated flips
fn scripts(long: bool, fee: Decimal) -> Vec<Vec<Fill>> {
    let (b, sl) = (long, !long);
    let f = fill;
    vec![
        vec![f(b, dec!(100), dec!(2), fee), f(sl, dec!(120), dec!(1), fee), f(b, dec!(120), dec!(1), fee), f(sl, dec!(130), dec!(2), fee)],
        vec![f(b, dec!(100), dec!(3), fee), f(sl, dec!(90), dec!(2), fee), f(b, dec!(80), dec!(0.5), fee), f(b, dec!(85), dec!(4), fee), f(sl, dec!(100), dec!(1.5), fee), f(sl, dec!(100), dec!(4), fee)],
        vec![f(b, dec!(100), dec!(1), fee), f(sl, dec!(110), dec!(4), fee), f(b, dec!(105), dec!(3), fee)],
        vec![f(b, dec!(100), dec!(3), fee), f(sl, dec!(110), dec!(4), fee), f(b, dec!(120), dec!(3), fee), f(sl, dec!(90), dec!(5), fee), f(b, dec!(95), dec!(3), fee)],
        vec![f(b, dec!(50), dec!(1), dec!(1)), f(sl, dec!(52), dec!(1), dec!(1))],
        vec![f(b, dec!(100), dec!(2), fee), f(sl, dec!(100), dec!(3), fee), f(sl, dec!(100), dec!(1), fee), f(b, dec!(100), dec!(1), fee), f(b, dec!(100), dec!(1), fee)],
    ]
}

/// 8 letters on a pair: Buy 1 / Buy big / Sell 1 / Sell big per instrument, big = 2 on the first and 3 on the second (opens, increases,
/// reductions, exact closes, flips in both directions; 1 -> flip by 3 splits the fee 1/3 : 2/3, so the two shares cannot be swapped unseen)
fn pair_alphabet(a: usize, b: usize) -> Vec<Ev> {
    let mut v = vec![];
    for (i, big) in [(a, dec!(2)), (b, dec!(3))] {
        v.push(Ev::Fill { i, f: fill(true, dec!(100), dec!(1), dec!(1)) });
        v.push(Ev::Fill { i, f: fill(true, dec!(120), big, dec!(0)) });
        v.push(Ev::Fill { i, f: fill(false, dec!(110), dec!(1), dec!(1)) });
        v.push(Ev::Fill { i, f: fill(false, dec!(90), big, dec!(3)) });
    }
    v
}
/// 9 letters on a triple: per instrument Buy 1 / Sell 1 / Sell 3
fn triple_alphabet(t: [usize; 3]) -> Vec<Ev> {
    let mut v = vec![];
    for i in t {
        v.push(Ev::Fill { i, f: fill(true, dec!(100), dec!(1), dec!(1)) });
        v.push(Ev::Fill { i, f: fill(false, dec!(110), dec!(1), dec!(0)) });
        v.push(Ev::Fill { i, f: fill(false, dec!(90), dec!(3), dec!(3)) });
    }
    v
}

pub fn run(seed: u64, thorough: bool) -> u64 {
    use ExchangeId::*;
    let mut s = Search { seen: HashSet::new(), n: 0 };
    // definitions interleaved across exchanges; index order is (exchange, internal name): binance_spot 0..2, bybit_spot 3..5, kraken 6..7
    let lay_a = layout(&[
        (Kraken, "BTCUSDT", "BTC", "USDT"), (BinanceSpot, "ETHUSDT", "ETH", "USDT"), (BybitSpot, "BTCUSDT", "BTC", "USDT"), (BinanceSpot, "BTCUSDT", "BTC", "USDT"),
        (Kraken, "SOLUSDT", "SOL", "USDT"), (BybitSpot, "ETHUSDT", "ETH", "USDT"), (BinanceSpot, "ETHBTC", "ETH", "BTC"), (BybitSpot, "SOLUSDT", "SOL", "USDT"),
    ]);
    // kraken 0..1, okx 2..3; okx lists ETHUSDT under the same symbol, btc/usdt under its own
    let lay_b = layout(&[(Okx, "ETHUSDT", "ETH", "USDT"), (Kraken, "ETHUSDT", "ETH", "USDT"), (Kraken, "BTCUSDT", "BTC", "USDT"), (Okx, "BTC-USDT", "BTC", "USDT")]);
    let (lay_a, lay_b) = match (lay_a, lay_b) {
        (Ok(a), Ok(b)) => (a, b),
        (a, b) => {
            let e = a.err().or(b.err()).unwrap_or_default();
            report(L_POS, "set-up: IndexedInstruments::new + generate_execution_instrument_map per exchange".into(), e, "one indexed instrument per definition, one map per exchange".into());
            return 1;
        }
    };
    // silence the panic messages of deliberately caught panics (a mis-indexed event may address a missing table entry)
    let hook = std::panic::take_hook();
    std::panic::set_hook(Box::new(|_| {}));

    // 1. bounded exhaustive on pairs / a triple
    let depth = if thorough { 5 } else { 4 };
    {
        let l = &lay_a;
        let pairs = [
            (l.find(BinanceSpot, "BTCUSDT"), l.find(Kraken, "BTCUSDT")), (l.find(BybitSpot, "BTCUSDT"), l.find(BinanceSpot, "BTCUSDT")), (l.find(BinanceSpot, "ETHUSDT"), l.find(BybitSpot, "ETHUSDT")),
            (l.find(Kraken, "SOLUSDT"), l.find(BybitSpot, "SOLUSDT")), (l.find(BinanceSpot, "BTCUSDT"), l.find(BinanceSpot, "ETHBTC")), (l.find(Kraken, "BTCUSDT"), l.find(Kraken, "SOLUSDT")),
        ];
        for (a, b) in pairs { s.explore(l, &pair_alphabet(a, b), depth); }
        s.explore(l, &triple_alphabet([l.find(BinanceSpot, "BTCUSDT"), l.find(BybitSpot, "BTCUSDT"), l.find(Kraken, "BTCUSDT")]), depth);
        let l = &lay_b;
        for (a, b) in [(l.find(Kraken, "ETHUSDT"), l.find(Okx, "ETHUSDT")), (l.find(Kraken, "BTCUSDT"), l.find(Okx, "BTC-USDT"))] { s.explore(l, &pair_alphabet(a, b), depth); }
    }

    // 2. crafted scripts, a different one on every instrument at the same time
    let mut rng = Rng::seeded(seed, 0xC02E);
    let fees = [dec!(0), dec!(1), dec!(3)];
    for lay in [&lay_a, &lay_b] {
        let n = lay.insts.len();
        for r in 0..36usize {
            let per: Vec<Vec<Fill>> = (0..n).map(|j| scripts((j + r / 6) % 2 == 0, fees[(j + r / 12) % 3])[(j + r) % 6].clone()).collect();
            let longest = per.iter().map(|p| p.len()).max().unwrap_or(0);
            let mut rr = vec![];
            for st in 0..longest { for j in 0..n { if let Some(f) = per[j].get(st) { rr.push(Ev::Fill { i: j, f: *f }); } } }
            s.seq(lay, &rr);
            let mut rev = vec![];
            for st in 0..longest { for j in (0..n).rev() { if let Some(f) = per[j].get(st) { rev.push(Ev::Fill { i: j, f: *f }); } } }
            s.seq(lay, &rev);
            // one instrument after the other (no interleaving), and seeded merges that keep every instrument's own order
            s.seq(lay, &(0..n).flat_map(|j| per[j].iter().map(move |f| Ev::Fill { i: j, f: *f })).collect::<Vec<_>>());
            for _ in 0..if thorough { 40 } else { 6 } {
                let mut at = vec![0usize; n];
                let mut evs = vec![];
                loop {
                    let live: Vec<usize> = (0..n).filter(|j| at[*j] < per[*j].len()).collect();
                    if live.is_empty() { break; }
                    let j = live[rng.below(live.len() as u64) as usize];
                    evs.push(Ev::Fill { i: j, f: per[j][at[j]] });
                    at[j] += 1;
                }
                s.seq(lay, &evs);
            }
        }
    }

    // 3. seeded random histories: the next fill is drawn by shape from the named instrument's current net quantity
    let prices = [dec!(90), dec!(100), dec!(100.5), dec!(110), dec!(120), dec!(0.01), dec!(25000)];
    let qtys = [dec!(0.001), dec!(0.5), dec!(1), dec!(1.5), dec!(2), dec!(3), dec!(7), dec!(1000)];
    let rounds = if thorough { 60_000 } else { 8_000 };
    for round in 0..rounds {
        let lay = if round % 4 == 3 { &lay_b } else { &lay_a };
        let n = lay.insts.len();
        // the instruments that trade in this history: all, or a random subset of at least two
        let mut active: Vec<usize> = (0..n).collect();
        if rng.chance(1, 2) { while active.len() > 2 && rng.chance(2, 3) { active.remove(rng.below(active.len() as u64) as usize); } }
        let small = rng.chance(1, 2);
        let len = 8 + rng.below(33) as usize;
        let mut nets = vec![Decimal::ZERO; n];
        let mut evs = vec![];
        for _ in 0..len {
            if rng.chance(1, 12) { evs.push(Ev::Bal { a: rng.below(lay.assets.len() as u64) as usize, total: 1 + rng.below(1000) as i64 }); continue; }
            let i = active[rng.below(active.len() as u64) as usize];
            let price = if small { prices[rng.below(5) as usize] } else { prices[rng.below(prices.len() as u64) as usize] };
            let pick = |rng: &mut Rng| if small { qtys[1 + rng.below(5) as usize] } else { qtys[rng.below(qtys.len() as u64) as usize] };
            let net = nets[i];
            let (buy, qty) = if net.is_zero() { (rng.chance(1, 2), pick(&mut rng)) } else {
                let (long, size) = (net > Decimal::ZERO, net.abs());
                match rng.below(10) {
                    0..=2 => (long, pick(&mut rng)),
                    3..=4 => {
                        // partial reduction: a grid quantity below the open size, else half of it
                        let below: Vec<Decimal> = qtys.iter().copied().filter(|q| *q < size).collect();
                        (!long, if below.is_empty() { size * dec!(0.5) } else { below[rng.below(below.len() as u64) as usize] })
                    }
                    5..=6 => (!long, size),
                    7..=8 => (!long, size + pick(&mut rng)),
                    _ => (rng.chance(1, 2), pick(&mut rng)),
                }
            };
            let fee = match rng.below(4) { 0 => dec!(0), 1 => dec!(1), 2 => dec!(0.1), _ => price * qty * dec!(0.001) };
            nets[i] += if buy { qty } else { -qty };
            evs.push(Ev::Fill { i, f: fill(buy, price, qty, fee) });
        }
        s.seq(lay, &evs);
    }
    std::panic::set_hook(hook);
    s.n
}
