//! (placeholder - being written)
pub fn run(_seed: u64, _thorough: bool) -> u64 { 0 }
