#!/usr/bin/env python3
"""Print the sub-agent prompt for a property id (only the property text + a scratch worktree)."""
import json,sys
pid=sys.argv[1]
p=[json.loads(l) for l in open('/verif/properties.jsonl') if json.loads(l)['id']==pid][0]
print(f"""You are testing how robust a Rust code base (barter-rs, an event-driven algorithmic trading engine) is against subtle regressions.
You have your own scratch git worktree of the repository at /tmp/seedwork/{pid} . Work ONLY inside that directory (and write your results to /tmp/seeded-out/{pid}/). Do NOT read or touch /repo, /verif or any other directory under /tmp/seedwork. There is no network; always pass --offline to cargo and always set CARGO_TARGET_DIR=/tmp/seedwork/{pid}/target and CARGO_INCREMENTAL=0 CARGO_PROFILE_DEV_DEBUG=0 CARGO_PROFILE_TEST_DEBUG=0 on every cargo command (your own build directory; without these settings it grows to 20 GB and fills the disk; delete it when you are completely finished).

Here is a semantic property that the code base is supposed to satisfy:

TITLE: {p['title']}
STATEMENT: {p['statement']}
QUANTIFIED OVER: {p['quantifier']['text']}
RELEVANT FILES (a starting point, not exhaustive): {', '.join(p['anchors']['files'])}

Your task: produce TWO different, independent source changes to the library code (not to tests) of the repository, each of which BREAKS this property while the code still compiles and the complete existing test suite still passes (`cargo test --workspace --no-fail-fast --offline --lib --tests` in the worktree; one test `test_historical_clock_time_delta_calculation` is known flaky and may be ignored). The two changes should be in different functions or mechanisms if at all possible.
Requirements for each change:
 * It must be realistic - the kind of slip a maintainer could make in a refactor or 'optimisation' (a swapped comparison, a dropped branch, a wrong field, an off-by-one, an early return, a cache not invalidated, ...), small (a few lines), and it must not be flagged by the compiler.
 * It must need something SPECIFIC to manifest: a particular multi-step sequence of operations, an unusual input, a stale / duplicate / out-of-order message, a particular interleaving, a second exchange or instrument, an equal-timestamp tie, or two cooperating sites that each look fine alone. Changes that ordinary use or the existing tests would expose at once are not wanted.
 * You must write a demonstration: a Rust test (preferably a new file under the relevant crate's `tests/` directory, or a `#[cfg(test)]` module appended to a source file if private items are needed) that exercises the REAL code and FAILS with your change applied and PASSES on the unchanged code. Run it both ways and keep the output.
Procedure for each change k in {{a,b}}:
 1. Starting from a clean worktree (`git -C /tmp/seedwork/{pid} checkout -- . && git -C /tmp/seedwork/{pid} clean -fd -e target`), write the demonstration test, run it on the unchanged code: it must pass.
 2. Apply your change; run the demonstration: it must fail. Run the whole existing test suite: it must still pass (apart from your demonstration).
 3. Save into /tmp/seeded-out/{pid}/{{k}}/ : `patch.diff` (output of `git diff` containing ONLY the library change, not the demonstration), `demo.diff` (a git diff / patch that adds ONLY the demonstration test; produce it with `git add -N` on new files so they show in `git diff`), `meta.json` with keys: property ("{pid}"), summary (what was changed), needs (what is needed for the breakage to manifest), demo_cmd (exact cargo command to run the demonstration), ran (commands you ran and their outcomes, briefly), and `demo_fail.txt` / `demo_pass.txt` with the tail of the test output with / without the change.
 4. Revert to a clean worktree before starting the second change.
Finish with a short report listing the two changes. Do not leave background processes running.""")
