#!/bin/bash
# run every registered check on the unchanged tree (in parallel) and validate the evidence files
cd /verif
tier=${1:-quick}
ids=$(python3 -c "import json;print(' '.join(c['property_id'] for c in json.load(open('MANIFEST.json'))['checks']))")
git -C /repo status --short | grep -v '^??' && { echo "/repo working tree is not clean"; exit 3; }
for p in $ids; do ( VERIF_THREADS=4 ./check $p --tier $tier > /tmp/runall-$p.log 2>&1; echo "$p rc=$? $(tail -1 /tmp/runall-$p.log)" ) & done; wait
python3-vt - <<'PY'
import json,jsonschema,glob
sch=json.load(open('/root/.vp/EVIDENCE.schema.json'))
jsonschema.validate(json.load(open('/verif/MANIFEST.json')),json.load(open('/root/.vp/MANIFEST.schema.json')))
for c in json.load(open('/verif/MANIFEST.json'))['checks']:
    e=json.load(open(c['evidence_file'])); jsonschema.validate(e,sch)
    cov=e['coverage']; assert cov['obligations']==cov['discharged'], (c['property_id'],cov['obligations'],cov['discharged'])
print('manifest + evidence valid')
PY
