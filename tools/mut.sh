#!/bin/bash
# ad-hoc mutation of a scratch worktree (/tmp/mut), deductive part only: tools/mut.sh <pid> <file> <old> <new>
pid=$1; f=$2; old=$3; new=$4
[ -d /tmp/mut ] || git -C /repo worktree add --detach /tmp/mut HEAD >/dev/null 2>&1
git -C /tmp/mut checkout -q --detach $(git -C /repo rev-parse HEAD); git -C /tmp/mut checkout -- .
python3 - "$f" "$old" "$new" <<'PY'
import sys
p='/tmp/mut/'+sys.argv[1]; s=open(p).read()
old=sys.argv[2].encode().decode('unicode_escape'); new=sys.argv[3].encode().decode('unicode_escape')
assert s.count(old)>=1, 'anchor not found'
open(p,'w').write(s.replace(old,new,1))
PY
[ $? -eq 0 ] || exit 3
cp /verif/evidence/$pid.json /tmp/evidence-$pid.mut 2>/dev/null
cd /verif && VERIF_REPO=/tmp/mut ./check $pid | grep -E "VIOLATION|UNDECIDED|OK|FAILED" | sed 's/replay=[^ ]* //' | cut -c1-260
cp /tmp/evidence-$pid.mut /verif/evidence/$pid.json 2>/dev/null
git -C /tmp/mut checkout -- .
