#!/bin/bash
# apply a seeded change to /repo, run the property's check, undo. usage: tools/seedtest.sh C06-a [check-id] [tier]
name=$1; pid=${2:-${name%%-*}}; tier=${3:-quick}
git -C /repo apply /verif/seeded/$name/patch.diff || { echo "PATCH DOES NOT APPLY"; exit 3; }
cd /verif && ./check $pid --tier $tier; rc=$?
git -C /repo checkout -- .
echo "seed=$name check=$pid rc=$rc"
