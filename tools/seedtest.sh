#!/bin/bash
# apply a seeded change to /repo, run the property's check, undo; the committed evidence file is preserved.
# usage: tools/seedtest.sh C06-a [check-id] [tier]
name=$1; pid=${2:-${name%%-*}}; tier=${3:-quick}
cp /verif/evidence/$pid.json /tmp/evidence-$pid.bak 2>/dev/null
git -C /repo apply /verif/seeded/$name/patch.diff || { echo "PATCH DOES NOT APPLY"; exit 3; }
cd /verif && ./check $pid --tier $tier; rc=$?
git -C /repo checkout -- .
cp /tmp/evidence-$pid.bak /verif/evidence/$pid.json 2>/dev/null
echo "seed=$name check=$pid rc=$rc"
