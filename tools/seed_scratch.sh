#!/bin/bash
# run a property's check (proof part + bounded stand-in on a scratch copy of the replay crate) against a seeded change applied to the
# scratch worktree /tmp/mut (not /repo); verdict only, evidence untouched. VERIF_SCRATCH_REPLAY= (empty) skips the stand-in.
# usage: tools/seed_scratch.sh <patch.diff> <pid> [tier]
patch=$1; pid=$2; tier=${3:-quick}
[ -d /tmp/mut ] || git -C /repo worktree add --detach /tmp/mut HEAD >/dev/null 2>&1
git -C /tmp/mut checkout -q --detach $(git -C /repo rev-parse HEAD); git -C /tmp/mut checkout -- .; git -C /tmp/mut clean -qfd
git -C /tmp/mut apply $patch || { echo "PATCH DOES NOT APPLY"; exit 3; }
cd /verif && VERIF_REPO=/tmp/mut VERIF_NO_EVIDENCE=1 VERIF_SCRATCH_REPLAY=${VERIF_SCRATCH_REPLAY-1} ./check $pid --tier $tier > /tmp/seed_scratch.out 2>&1; rc=$?
if [ -n "$SEED_SCRATCH_RAW" ]; then grep -E "VIOLATION|UNDECIDED|KNOWN|NOTE" /tmp/seed_scratch.out; else grep -E "VIOLATION|UNDECIDED|KNOWN|OK|FAILED|NOTE" /tmp/seed_scratch.out | sed 's/replay=[^ ]* //' | cut -c1-330; fi
git -C /tmp/mut checkout -- .; git -C /tmp/mut clean -qfd
echo "seed=$(basename $(dirname $patch)) check=$pid rc=$rc"
