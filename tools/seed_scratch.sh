#!/bin/bash
# run a property's check (proof part + bounded stand-in on a scratch copy of the replay crate) against a seeded change applied to the
# scratch worktree $M (not /repo); verdict only, evidence untouched. VERIF_SCRATCH_REPLAY= (empty) skips the stand-in.
# usage: tools/seed_scratch.sh <patch.diff> <pid> [tier]
patch=$1; pid=$2; tier=${3:-quick}; M=${SCRATCH_TREE:-/tmp/mut}
[ -d $M ] || git -C /repo worktree add --detach $M HEAD >/dev/null 2>&1
git -C $M checkout -q --detach $(git -C /repo rev-parse HEAD); git -C $M checkout -- .; git -C $M clean -qfd
git -C $M apply $patch || { echo "PATCH DOES NOT APPLY"; exit 3; }
cd /verif && VERIF_REPO=$M VERIF_NO_EVIDENCE=1 VERIF_SCRATCH_REPLAY=${VERIF_SCRATCH_REPLAY-1} ./check $pid --tier $tier > $M.seed_scratch.out 2>&1; rc=$?
if [ -n "$SEED_SCRATCH_RAW" ]; then grep -E "VIOLATION|UNDECIDED|KNOWN|NOTE" $M.seed_scratch.out; else grep -E "VIOLATION|UNDECIDED|KNOWN|OK|FAILED|NOTE" $M.seed_scratch.out | sed 's/replay=[^ ]* //' | cut -c1-330; fi
git -C $M checkout -- .; git -C $M clean -qfd
echo "seed=$(basename $(dirname $patch)) check=$pid rc=$rc"
