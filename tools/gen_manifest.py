#!/usr/bin/env python3
"""Regenerate MANIFEST.json from tools/manifest_data.py (keeps the file valid at all times)."""
import json, os, sys
sys.path.insert(0, os.path.dirname(os.path.abspath(__file__)))
from manifest_data import CHECKS, NOT_APPLICABLE, NOTES
props = [json.loads(l)['id'] for l in open('/verif/properties.jsonl')]
checks = []
for pid in props:
    if pid in CHECKS:
        c = CHECKS[pid]
        checks.append({
            "property_id": pid,
            "quick_cmd": "./check %s" % pid,
            "thorough_cmd": "./check %s --tier thorough" % pid,
            "evidence_file": "/verif/evidence/%s.json" % pid,
            "replay_cmd_template": "./check %s --replay {path}" % pid,
            "engine": "vx (extract + Verus)",
            "level_claimed": {"category": c['category'], "text": c['text'], "design_ref": c.get('design_ref', 'DESIGN.md section 5, ' + pid)},
            "level_note": c['note'],
            "technique": c.get('technique', 'contract-based deductive verification: Verus contracts spliced onto functions extracted mechanically from /repo on every run'),
        })
na = [{"property_id": p, "reason": NOT_APPLICABLE.get(p, "check not built yet (see DESIGN.md section 5)")} for p in props if p not in CHECKS]
m = {"version": 1,
     "setup_cmd": "./setup.sh",
     "hooks": {"guard": "barter_rs_verif", "enable": "none needed: every check extracts the functions under contract from /repo's working tree on each run; no source hooks exist (RUSTFLAGS='--cfg barter_rs_verif' is reserved)",
               "baseline_off_cmd": "cd /repo && cargo test --workspace --no-fail-fast --offline", "source_commits": [], "add_only": True},
     "engines": [{"name": "vx", "path": "/verif/vx", "serves_properties": sorted(CHECKS), "kind_free_text": "Python extractor/assembler that copies real function bodies from /repo, applies the logged mechanical rewrites R1-R12, splices contracts from /verif/contracts/*.rs.tmpl and runs Verus (Z3); Kani/CBMC second back end for C06; replay crate for witnesses"}],
     "checks": checks, "notes": NOTES, "not_applicable": na}
json.dump(m, open('/verif/MANIFEST.json', 'w'), indent=1)
print('checks:', len(checks), 'not_applicable:', len(na))
