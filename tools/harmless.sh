#!/bin/bash
# re-run the behaviour-preserving edits that once raised a false alarm (seeded/harmless/*.diff) against the checks that raised it:
# every line must end in `green` or `UNDECIDED` - a VIOLATION here is a false alarm.
cd /verif
declare -A PIDS=( [A12]="C05" [A37]="C12 C20" [C74]="C07" [Z05]="C13" [X14]="C18 C16" [X18]="C02 C15 C01" [X22]="C05" [X23]="C05" [Y03]="C02 C15 C01" [X26]="C18 C16" [Y05]="C02 C15" [X27]="C18 C14 C09" [U01]="C17 C16" [U03]="C08" [U05]="C15 C02" [U06]="C02 C15" [F02]="C13" [G15]="C18 C16" )
declare -A PIDS2=( [N313]="C06" [N362]="C02 C15" [N400]="C10" [N401]="C12 C06" [N402]="C08" [N403]="C17" [N404]="C05" [N406]="C19" [N407]="C11" [N408]="C03" [N410]="C16" [N411]="C13" [N170]="C12 C20" [N421]="C11" [N422]="C11" )
declare -A PIDS3=( [P001]="C17 C18 C16 C09" [P002]="C17 C18" [P030]="C02 C15 C01 C14" [M004]="C05" [O061]="C01 C19 C14" [O063]="C01" [E260]="C06 C12" [Q001]="C03 C02" [Q002]="C03 C02" [Q003]="C05" )
declare -A PIDS4=( [AU21]="C03 C02" [AU52]="C03 C02" [AU53]="C03 C02" [NX07]="C03 C02" [NX08]="C03 C02" [AU60]="C03 C02" [BM32]="C05" )
rc=0
for f in seeded/harmless4/*.diff; do b=$(basename $f .diff); for p in ${PIDS4[$b]}; do
  out=$(VERIF_SCRATCH_REPLAY= tools/seed_scratch.sh /verif/$f $p | grep -E "VIOLATION|UNDECIDED" | sed 's/replay=[^ ]* //' | cut -c1-140 | head -1)
  case "$out" in VIOLATION*) rc=1;; esac
  echo "$b $p: ${out:-green}"
done; done
for f in seeded/harmless3/*.diff; do b=$(basename $f .diff); for p in ${PIDS3[$b]}; do
  out=$(VERIF_SCRATCH_REPLAY= tools/seed_scratch.sh /verif/$f $p | grep -E "VIOLATION|UNDECIDED" | sed 's/replay=[^ ]* //' | cut -c1-140 | head -1)
  case "$out" in VIOLATION*) rc=1;; esac
  echo "$b $p: ${out:-green}"
done; done
for f in seeded/harmless2/*.diff; do b=$(basename $f .diff); for p in ${PIDS2[$b]}; do
  out=$(VERIF_SCRATCH_REPLAY= tools/seed_scratch.sh /verif/$f $p | grep -E "VIOLATION|UNDECIDED" | sed 's/replay=[^ ]* //' | cut -c1-140 | head -1)
  case "$out" in VIOLATION*) rc=1;; esac
  echo "$b $p: ${out:-green}"
done; done
for f in seeded/harmless/*.diff; do b=$(basename $f .diff); for p in ${PIDS[$b]}; do
  out=$(VERIF_SCRATCH_REPLAY= tools/seed_scratch.sh /verif/$f $p | grep -E "VIOLATION|UNDECIDED" | sed 's/replay=[^ ]* //' | cut -c1-140 | head -1)
  case "$out" in VIOLATION*) rc=1;; esac
  echo "$b $p: ${out:-green}"
done; done
exit $rc
