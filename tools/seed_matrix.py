#!/usr/bin/env python3
"""Run every seeded change against the check(s) of its property (quick tier), sequentially, and write seeded/RESULTS.md + seeded/<id>/ran.json.
SEED_SCRATCH=1: apply the change to the scratch worktree /tmp/mut instead of /repo (tools/seed_scratch.sh; same checks, /repo untouched).
Each seed is applied to /repo with `git apply`, the check runs, and `git checkout -- .` restores the tree (the committed evidence is restored too)."""
import json, os, re, subprocess, sys, glob, time
V = '/verif'
EXTRA = {'C14-o': ['C14', 'C10'], 'C19-o': ['C19', 'C09'], 'C04-p': ['C04', 'C11'], 'C10-o': ['C10', 'C03'], 'C18-p': ['C18', 'C16'], 'C09-l': ['C09', 'C04'], 'C20-l': ['C20', 'C03'], 'C01-l': ['C01', 'C03'], 'C07-l': ['C07', 'C12'], 'C04-l': ['C04', 'C11'], 'C02-l': ['C02', 'C03'], 'C06-j': ['C06', 'C05'], 'C15-h': ['C15', 'C09'], 'C19-g': ['C19', 'C03'], 'C20-h': ['C20', 'C12'], 'C02-h': ['C02', 'C04'], 'C03-g': ['C03', 'C01'], 'C04-g': ['C04', 'C11'], 'C07-g': ['C07', 'C11', 'C03'], 'C01-e': ['C01', 'C19'], 'C01-f': ['C01', 'C09'], 'C03-f': ['C03', 'C01'], 'C04-e': ['C04', 'C11', 'C03'], 'C04-f': ['C04', 'C07'], 'C06-f': ['C06', 'C05'], 'C04-c': ['C04', 'C07'], 'C04-d': ['C04', 'C11', 'C03'], 'C06-d': ['C06', 'C12'], 'C10-d': ['C10', 'C01'], 'C03-d': ['C03', 'C01', 'C19'], 'C07-c': ['C07', 'C04'], 'C11-d': ['C11', 'C03'], 'C19-d': ['C19', 'C01'], 'C06-b': ['C06', 'C12'], 'C04-b': ['C04', 'C03'], 'C07-a': ['C07', 'C04'], 'C07-b': ['C07', 'C04'], 'C10-b': ['C10', 'C01']}
rows = []
seeds = sorted(os.path.basename(d) for d in glob.glob(V + '/seeded/C*') if os.path.isdir(d))
only = sys.argv[1:]
for seed in seeds:
    if only and seed not in only:
        continue
    pid = seed.split('-')[0]
    for chk in EXTRA.get(seed, [pid]):
        t0 = time.time()
        if os.environ.get('SEED_SCRATCH'):
            # same verdicts without touching /repo: the change is applied to the scratch worktree /tmp/mut and the replay crate is built against it
            p = subprocess.run([V + '/tools/seed_scratch.sh', V + '/seeded/%s/patch.diff' % seed, chk, 'quick'], stdout=subprocess.PIPE, stderr=subprocess.STDOUT, text=True,
                               env=dict(os.environ, SEED_SCRATCH_RAW='1'))
        else:
            p = subprocess.run([V + '/tools/seedtest.sh', seed, chk, 'quick'], stdout=subprocess.PIPE, stderr=subprocess.STDOUT, text=True)
        out = p.stdout
        m = re.search(r'seed=\S+ check=\S+ rc=(\d+)', out)
        rc = int(m.group(1)) if m else -1
        labs = re.findall(r'VIOLATION property=\S+ replay=\S+ obligation=(\S+)', out)
        und = re.search(r'UNDECIDED property=\S+ reason=(.*)', out)
        by_proof = [l for l in labs if '.bounded' not in l and '@bounded' not in l and '.kani.' not in l]
        by_bounded = [l for l in labs if l not in by_proof]
        how = 'MISSED'
        if rc == 1:
            how = 'proof' if by_proof else 'bounded stand-in'
            if by_proof and by_bounded: how = 'proof + bounded stand-in'
            if und: how = 'bounded stand-in (deductive part UNDECIDED: %s)' % und.group(1)[:90]
        elif rc == 2:
            how = 'UNDECIDED only: ' + (und.group(1)[:120] if und else '?')
        rows.append((seed, chk, rc, how, by_proof, by_bounded, round(time.time() - t0, 1)))
        print(seed, chk, rc, how, flush=True)
        rec = dict(seed=seed, check=chk, tier='quick', exit_code=rc, caught_by=how, obligations_failed=labs, when=time.strftime('%Y-%m-%d %H:%M:%S'))
        rp = V + '/seeded/%s/ran.json' % seed
        old = []
        if os.path.exists(rp):
            try: old = [r for r in json.load(open(rp)) if r.get('check') != chk]
            except Exception: old = []
        json.dump(old + [rec], open(rp, 'w'), indent=1)
st = subprocess.run(['git', '-C', '/repo', 'status', '--short'], stdout=subprocess.PIPE, text=True).stdout.strip()
# RESULTS.md is always rebuilt from every seed's ran.json (the latest run of each seed x check pair)
allrows = []
for seed in seeds:
    rp = V + '/seeded/%s/ran.json' % seed
    if os.path.exists(rp):
        for r in json.load(open(rp)):
            allrows.append((seed, r['check'], r['exit_code'], r['caught_by'], r.get('obligations_failed', []), r.get('when', '')))
with open(V + '/seeded/RESULTS.md', 'w') as f:
    f.write('# Seeded changes vs. checks (quick tier)\n\nWritten by tools/seed_matrix.py from seeded/<id>/ran.json (latest run of each seed x check pair; %d seeds). Every seed compiles and passes the pinned test suite (see each meta.json / confirm.json).\n\n' % len(seeds))
    f.write('| seed | check | exit | caught by | failed obligations (first 4) | run at |\n|---|---|---|---|---|---|\n')
    for (seed, chk, rc, how, labs, when) in allrows:
        f.write('| %s | %s | %d | %s | %s | %s |\n' % (seed, chk, rc, how, ', '.join(labs[:4]), when))
print('repo status:', st or 'clean')
