#!/usr/bin/env python3
"""(re)write contracts/structure.lock.json from the current /repo tree: number of loops / closures of every function under contract"""
import glob, os, sys
sys.path.insert(0, '/verif')
os.environ['VX_LOCK_WRITE'] = '1'
FINAL = '/verif/contracts/structure.lock.json'
os.environ['VX_LOCK_PATH'] = FINAL + '.new'     # written aside and moved into place at the end (a check running meanwhile sees the old lock)
from vx.assemble import Assembly, LOCK_PATH
if os.path.exists(LOCK_PATH): os.unlink(LOCK_PATH)
for t in sorted(glob.glob('/verif/contracts/C*.rs.tmpl')):
    for tier in ('quick', 'thorough'):
        a = Assembly(os.path.basename(t)[:3], os.environ.get('VERIF_REPO', '/repo'), tier)
        a.process(t)
import json
os.replace(LOCK_PATH, FINAL)
print(len(json.load(open(FINAL))), 'functions locked')
