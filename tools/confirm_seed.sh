#!/bin/bash
# Confirm a seeded change myself in a scratch worktree (outside /repo and /verif):
#   demo passes on the clean tree, fails with the change, and the existing suite still passes with the change.
# usage: tools/confirm_seed.sh <seed-dir-name>     e.g. C06-a     -> writes seeded/<name>/confirm.json
set -u
name=$1
sd=/verif/seeded/$name
wt=${CONFIRM_WT:-/tmp/confirm-wt}
export CARGO_TARGET_DIR=${CONFIRM_TARGET:-/tmp/confirm-target} CARGO_INCREMENTAL=0 CARGO_PROFILE_DEV_DEBUG=0 CARGO_PROFILE_TEST_DEBUG=0 CARGO_NET_OFFLINE=true
if [ ! -d $wt ]; then git -C /repo worktree add -q --detach $wt HEAD; fi
cd $wt && git checkout -q --detach $(git -C /repo rev-parse HEAD) && git checkout -q -- . && git clean -qfd
democmd=$(python3 -c "import json,re,sys; c=json.load(open('$sd/meta.json'))['demo_cmd']; c=re.sub(r'\b[A-Z_]+=\S+\s+','',c); c=re.sub(r'^cd \S+ && ','',c); print(c)")
git apply $sd/demo.diff || { echo "demo.diff does not apply"; exit 3; }
( eval "$democmd" ) > /tmp/confirm-$name-clean.log 2>&1; rc_clean=$?
git apply $sd/patch.diff || { echo "patch.diff does not apply"; exit 3; }
( eval "$democmd" ) > /tmp/confirm-$name-patched.log 2>&1; rc_patched=$?
# existing suite with the change but WITHOUT the demo
git apply -R $sd/demo.diff
cargo test --workspace --no-fail-fast --offline --lib --tests > /tmp/confirm-$name-suite.log 2>&1; rc_suite=$?
passed=$(grep -E "^test result" /tmp/confirm-$name-suite.log | awk '{s+=$4} END {print s+0}')
failed=$(grep -E "^test result" /tmp/confirm-$name-suite.log | awk '{s+=$6} END {print s+0}')
git checkout -q -- . && git clean -qfd
python3 - <<PY
import json
json.dump({"seed":"$name","repo_head":"$(git -C /repo rev-parse --short HEAD)","demo_cmd":"""$democmd""","demo_on_clean_tree_rc":$rc_clean,"demo_with_change_rc":$rc_patched,
 "suite_with_change_rc":$rc_suite,"suite_passed":$passed,"suite_failed":$failed,
 "confirmed": ($rc_clean==0 and $rc_patched!=0 and $failed==0)}, open("$sd/confirm.json","w"), indent=1)
print(open("$sd/confirm.json").read())
PY
