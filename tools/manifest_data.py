NOTES = "See DESIGN.md. exit 2 from a check means UNDECIDED (lost anchor, unsupported construct, solver limit) and is never an alarm."
CHECKS = {
 "C06": dict(category="proof",
   text="Verus proves, for all u64 ids and all sequencer states, that the real spot and USD-futures sequencer functions admit an update iff it is not stale and the venue rule holds, return a terminal InvalidSequence error on every break and leave the state unchanged on drop/error; history lemmas over these contracts give the unbroken-chain and no-false-alarm claims. Every clause is an obligation discharged on each run from functions extracted from /repo.",
   note="Trusted: Verus/Z3, the extractor, shims for DateTime/SmolStr/Decimal (opaque). Preconditions last_update_id<u64::MAX, updates_processed<u64::MAX (the code adds 1). Not decided: the stream layer that ends a connection on a terminal error (C12), OrderBook::new sorting (C05, assumed)."),
 "C01": dict(category="proof",
   text="Verus proves the lifecycle contract (written from the statement) on the real bodies of Orders::update_from_order_snapshot, update_from_cancel_response, record_in_flight_cancel and record_in_flight_open and their callees, over the whole map view: frame (other orders untouched), timestamp monotonicity of the held exchange data, untracking on inactive / nothing-left reports and confirmed cancels, restoration of the confirmed open state on a failed cancel - for every map content, report kind, timestamp and fill level. History claims follow by induction over the per-call contracts.",
   note="Trusted: Verus/Z3, extractor, shims (Decimal as exact real, DateTime as integer, FnvHashMap+entry API as mathematical map, structural Clone), dropped tracing macros, verification at the engine's type instantiation (ExchangeIndex, InstrumentIndex). A stale zero-remaining report and a failed cancel of an order with no confirmed open state are left unconstrained (the statement is silent). Routing layers InstrumentState/EngineState::update_from_account are covered under C09."),
}
NOT_APPLICABLE = {
 "C11": "all carrying code is iterator pipelines over sort/dedup/collect and hash tables; Verus cannot specify provided Iterator methods and Kani timed out at 2 instruments (DESIGN.md section 5, C11)",
 "C20": "property of async task scheduling and channel FIFO order (tokio); no sequential function carries any clause; no Verus model of tokio, Kani cannot compile it (DESIGN.md section 5, C20)",
}
