#!/usr/bin/env python3
"""Round >= 4 sub-agent prompt: property text + scratch worktree + one-line summaries of the changes earlier sub-agents already made (to avoid repeats).
usage: agent_prompt4.py Cxx k1 k2      (letters for the two changes, e.g. g h)"""
import json, sys, glob, os, subprocess
pid, k1, k2 = sys.argv[1], sys.argv[2], sys.argv[3]
base = subprocess.check_output(['python3', '/verif/tools/agent_prompt.py', pid], text=True)
base = base.replace('{a,b}', '{%s,%s}' % (k1, k2))
prev = []
for d in sorted(glob.glob('/verif/seeded/%s-*' % pid)):
    try:
        m = json.load(open(d + '/meta.json'))
        prev.append('- ' + m['summary'].replace('\n', ' ')[:400])
    except Exception:
        pass
extra = """

Other people have ALREADY produced the following changes for this property; do not repeat them or close variants of them. Pick different functions, layers or mechanisms - e.g. a constructor or initialisation path, a conversion / From impl, a routing or dispatch layer, a default, a helper used by the obvious function, an error path, the glue between two crates - as long as the change breaks THIS property:
""" + '\n'.join(prev) + "\n"
print(base + extra)
