#!/bin/bash
# copy a sub-agent's output /tmp/seeded-out/<pid>/<k>/ into /verif/seeded/<pid>-<k>/ and confirm it myself (tools/confirm_seed.sh)
# usage: tools/ingest_seed.sh C01 g
pid=$1; k=$2; src=/tmp/seeded-out/$pid/$k; dst=/verif/seeded/$pid-$k
[ -f $src/patch.diff ] || { echo "no $src/patch.diff"; exit 3; }
mkdir -p $dst; cp $src/patch.diff $src/demo.diff $src/meta.json $dst/; cp $src/demo_fail.txt $src/demo_pass.txt $dst/ 2>/dev/null
/verif/tools/confirm_seed.sh $pid-$k | tail -12
