#!/bin/sh
# offline setup: warm the Verus first-run cache; build the replay crate if present
set -e
cd "$(dirname "$0")"
mkdir -p generated evidence
cat > generated/_warm.rs <<'EOT'
use vstd::prelude::*;
verus! { fn warm(x: u64) -> (r: u64) requires x < 10 ensures r == x + 1 { x + 1 } }
fn main() {}
EOT
timeout 300 verus generated/_warm.rs > /dev/null 2>&1 || true
if [ -f replay/Cargo.toml ]; then
  (cd replay && CARGO_NET_OFFLINE=true timeout 1800 cargo build --offline --release 2>&1 | tail -3) || true
fi
echo setup done
