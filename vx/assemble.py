"""Assemble generated/Cxx.rs from contracts/Cxx.rs.tmpl: shims + copied type definitions + mechanically
extracted real functions with spliced contracts (DESIGN 3.2-3.5)."""
import os
import re
import shlex
from . import extract as X
from .extract import Undecided

VERIF = os.path.dirname(os.path.dirname(os.path.abspath(__file__)))
LABEL_RE = re.compile(r'//\s*\[([A-Za-z0-9_.\-]+)\]')


def _args(s):
    d = {}
    for part in shlex.split(s):
        if '=' in part:
            k, v = part.split('=', 1)
            d[k] = v
        else:
            d[part] = True
    return d


class Assembly:
    def __init__(self, pid, repo, tier='quick'):
        self.pid = pid
        self.repo = repo
        self.tier = tier
        self.lines = []           # output text lines
        self.functions = []       # extracted fn records
        self.types = []
        self.rewrites = []        # (rule, function, count)
        self.assumptions = []
        self.unverified = []
        self.explain = []
        self.fn_ranges = []       # (name_label, first_line, last_line, is_twin)
        self.includes = []
        self.modelled = []

    def emit(self, text):
        for ln in text.split('\n'):
            self.lines.append(ln)

    def cur_line(self):
        return len(self.lines) + 1

    # -------------------------------------------------------------------------------------------
    def process(self, tmpl_path, params=None):
        text = open(tmpl_path).read()
        for k, v in (params or {}).items():       # `//@include file K=V`: @K@ in the included file is replaced (used for label prefixes)
            text = text.replace('@%s@' % k, v)
        src = text.split('\n')
        i = 0
        while i < len(src):
            ln = src[i]
            s = ln.strip()
            if s.startswith('//@include '):
                rel = s[len('//@include '):].strip()
                params = {}
                if ' ' in rel:
                    rel, rest = rel.split(None, 1)
                    params = dict(x.split('=', 1) for x in rest.split())
                self.includes.append(rel)
                sub = Assembly(self.pid, self.repo, self.tier)
                sub.process(os.path.join(VERIF, rel), params)
                # merge
                base = len(self.lines)
                self.lines.extend(sub.lines)
                for (n, a, b, tw) in sub.fn_ranges:
                    self.fn_ranges.append((n, a + base, b + base, tw))
                self.functions += sub.functions; self.types += sub.types; self.rewrites += sub.rewrites
                self.assumptions += sub.assumptions; self.unverified += sub.unverified
                self.explain += sub.explain; self.includes += sub.includes; self.modelled += sub.modelled
                i += 1
            elif s.startswith('//@assume '):
                self.assumptions.append(s[len('//@assume '):].strip()); i += 1
            elif s.startswith('//@unverified '):
                self.unverified.append(s[len('//@unverified '):].strip()); i += 1
            elif s.startswith('//@explain '):
                self.explain.append(s[len('//@explain '):].strip()); i += 1
            elif s.startswith('//@modelled '):
                self.modelled.append(s[len('//@modelled '):].strip()); i += 1
            elif s.startswith('//@tier '):
                # //@tier thorough  ... //@endtier : block only in that tier
                want = s.split()[1]
                j = i + 1
                block = []
                while src[j].strip() != '//@endtier':
                    block.append(src[j]); j += 1
                if want == self.tier or (want == 'quick'):
                    # process block recursively by writing to a temp list
                    tmp = Assembly(self.pid, self.repo, self.tier)
                    tmp_path = None
                    self._process_lines(block)
                i = j + 1
            elif s.startswith('//@type '):
                a = _args(s[len('//@type '):])
                kind = 'struct' if 'struct' in a else 'enum'
                rec = X.locate_type(self.repo, a['file'], kind, a[kind])
                text = rec['text']
                for k, v in a.items():
                    if k.startswith('sub:'):
                        pass
                # optional substitutions: sub="old=>new;old2=>new2"
                if 'sub' in a:
                    for pair in a['sub'].split(';;'):
                        old, new = pair.split('=>')
                        cnt = text.count(old)
                        if cnt == 0:
                            raise Undecided('type %s: substitution anchor %r lost' % (a[kind], old))
                        text = text.replace(old, new)
                        self.rewrites.append(('R4-sub %r=>%r' % (old, new), a[kind], cnt))
                if 'pubfields' in a:
                    # visibility only: private fields become `pub` so that specifications can mention them (no behaviour)
                    text, cnt = re.subn(r'(\n\s+)(?!pub\b)([a-z_][a-z0-9_]*\s*:)', r'\1pub \2', text)
                    if re.match(r'\s*(struct|enum)\b', text):
                        text = 'pub ' + text.lstrip()
                        cnt += 1
                    self.rewrites.append(('R2 field visibility -> pub', a[kind], cnt))
                self.emit('// ---- copied (R2) from %s:%d-%d sha256=%s' % (rec['file'], rec['line_start'], rec['line_end'], rec['sha256'][:16]))
                if 'attr' in a:
                    self.emit(a['attr'])
                self.emit(text)
                if 'derive' in a:
                    self.emit(_derive_impls(text, kind, a[kind], a['derive'].split(',')))
                    self.rewrites.append(('R2 A-DERIVE structural impls: ' + a['derive'], a[kind], 1))
                self.types.append({k: rec[k] for k in ('file', 'name', 'kind', 'line_start', 'line_end', 'sha256')})
                i += 1
            elif s.startswith('//@fn '):
                a = _args(s[len('//@fn '):])
                j = i + 1
                sections = {'spec': [], 'prologue': [], 'epilogue': [], 'sig': [], 'stages': [], 'loopends': {}, 'loops': {}, 'closures': {}, 'subs': [], 'sigsubs': []}
                cur = None
                while src[j].strip() != '//@end':
                    t = src[j].strip()
                    if t == '//@spec': cur = sections['spec']
                    elif t == '//@prologue': cur = sections['prologue']
                    elif t == '//@epilogue': cur = sections['epilogue']
                    elif t == '//@sig': cur = sections['sig']
                    elif t.startswith('//@stage '):
                        st = _args(t[len('//@stage '):]); st['proof'] = []
                        sections['stages'].append(st); cur = st['proof']
                    elif t.startswith('//@loopend '):
                        cur = sections['loopends'].setdefault(int(t.split()[1]), [])
                    elif t.startswith('//@loop '):
                        cur = sections['loops'].setdefault(int(t.split()[1]), [])
                    elif t.startswith('//@closure '):
                        cur = sections['closures'].setdefault(int(t.split()[1]), [])
                    elif t.startswith('//@sub? '):
                        sections['subs'].append('?' + t[len('//@sub? '):]); cur = None
                    elif t.startswith('//@sub '):
                        sections['subs'].append(t[len('//@sub '):]); cur = None
                    elif t.startswith('//@subre '):
                        sections['subs'].append('~' + t[len('//@subre '):]); cur = None
                    elif t.startswith('//@guard '):
                        sections.setdefault('guards', []).append(t[len('//@guard '):].strip()); cur = None
                    elif t.startswith('//@sigsub '):
                        sections['sigsubs'].append(t[len('//@sigsub '):]); cur = None
                    elif cur is not None:
                        cur.append(src[j])
                    elif t:
                        raise Undecided('template error: stray line in fn block: %s' % t)
                    j += 1
                self._emit_fn(a, sections)
                i = j + 1
            else:
                self.lines.append(ln)
                i += 1

    def _process_lines(self, block):
        import tempfile
        with tempfile.NamedTemporaryFile('w', suffix='.tmpl', delete=False) as f:
            f.write('\n'.join(block))
            p = f.name
        try:
            self.process(p)
        finally:
            os.unlink(p)

    # -------------------------------------------------------------------------------------------
    def _emit_fn(self, a, sec):
        item = X.locate_fn(self.repo, a['file'], a['name'], impl_hdr=a.get('impl'), trait_hdr=a.get('trait'),
                           nth=int(a['nth']) if 'nth' in a else None)
        label = a.get('label', a['name'])
        sig, body = item['sig'], item['body']
        if body is None:
            raise Undecided('fn %s has no body' % a['name'])
        log = []
        # comments of the body are dropped first: anchors and substitutions work on code only (a comment that quotes code must not be rewritten
        # into live code, and must not change an anchor's count)
        body = X.strip_comments(body)
        body, c = X.r1_drop_log(body); log.append(('R1 drop-log', c))
        body, c = X.r12_exec_asserts(body); log.append(('R12 exec-assert', c))
        body, c = X.r8_opaque_text(body); log.append(('R8 opaque-text/panic-args', c))
        body, c = X.r11_split_or_guard(body); log.append(('R11 or-pattern/guard split', c))
        if 'select' in a:
            body, c = X.r20_select(body); log.append(('R20 tokio::select! -> nondeterministic choice among completable arms (A-SELECT), un-chosen futures cancelled', c))
            if c == 0:
                raise Undecided('fn %s: expected a tokio::select! (R20)' % a['name'])
        if 'breaktype' in a:
            # breaktype="name=Type;name2=Type2"
            types = dict(x.split('=', 1) for x in a['breaktype'].split(';;'))
            body, c = X.r10_break_value(body, types); log.append(('R10 break-with-value desugar', c))
        # structure of the ORIGINAL body (before the logged substitutions): a changed number of loops / closures is exit 2; so is a changed
        # list of parameter names (contracts name parameters: two same-typed parameters renamed onto each other's names would otherwise be
        # verified against a clause that describes the other argument)
        nl, nc = X.count_loops(body), X.count_closures(body)
        try:
            pnames = list(X.sig_params(sig)[1])
        except Exception:
            pnames = None
        _lock_check(a, item, nl, nc, bool(sec.get('closures')) or bool(sec.get('loops')) or bool(sec.get('loopends')), pnames)
        if 'loops' in a and int(a['loops']) != nl:
            raise Undecided('fn %s: expected %s loops, found %d' % (a['name'], a['loops'], nl))
        if 'closures' in a and int(a['closures']) != nc:
            raise Undecided('fn %s: expected %s closures, found %d' % (a['name'], a['closures'], nc))
        # explicit, logged token substitutions (R4 path resolution etc.)
        for sub in sec['subs']:
            body, c = _apply_sub(sub, body, a['name'])
            log.append(('R4/R6/R9-R11 sub %s' % sub, c))
        # //@guard "regex": the regex must not occur in the body OUTSIDE the text produced by the substitutions above - a proof hint that rides
        # on a substitution is missing when the code reaches the same effect in another shape; that is undecided, never an alarm
        residual = re.sub(re.escape(_VXL) + r'.*?' + re.escape(_VXR), ' ', body, flags=re.S)
        # an item declared INSIDE the body (a helper `fn`, an `impl`, a type) would reach the generated file without a contract: the
        # caller cannot be decided against it - undecided, never an alarm
        from .rustlex import lex as _lex2
        for _t in _lex2(body):
            if _t.kind == 'ident' and _t.text in ('fn', 'impl', 'struct', 'enum', 'trait', 'mod', 'macro_rules'):
                raise Undecided('unsupported construct in fn %s: an item (`%s ..`) declared inside the body has no contract' % (a['name'], _t.text))
        # spellings of std calls for which this set-up has NO usable specification (vstd's trait-level specs say nothing about the result):
        # a body that contains one outside substitution-produced text cannot be decided - a proof failure there says nothing about the code
        if 'nostdguards' not in a:
            for gpat, what in _STD_UNSPECIFIED:
                hit = re.search(gpat, re.sub(r'//[^\n]*', '', residual))
                if hit:
                    raise Undecided('unsupported construct in fn %s: `%s` (%s has no specification here)' % (a['name'], hit.group(0)[:40], what))
        for g in sec.get('guards', []):
            gm = re.match(r'\s*"((?:[^"\\]|\\.)*)"\s*$', g)
            if not gm:
                raise Undecided('template error: bad //@guard %s' % g)
            gpat = bytes(gm.group(1), 'utf-8').decode('unicode_escape')
            hit = re.search(gpat, residual)
            if hit:
                raise Undecided('fn %s: `%s` occurs in a shape the contract\'s proof hints are not written for (guard /%s/)' % (a['name'], hit.group(0)[:60], gpat))
        body = body.replace(_VXL, '').replace(_VXR, '')
        for sub in sec['sigsubs']:
            sig, c = _apply_sub(sub, sig, a['name'])
            sig = sig.replace(_VXL, '').replace(_VXR, '')
            log.append(('R3/R4 sig-sub %s' % sub, c))
        sig = X.strip_attrs(sig)
        if sec.get('sig'):
            # R17: the signature is re-typed onto shim types (e.g. `impl Stream<Item = X>` -> `VStream<X>`); the replacement is given
            # by the template and must declare the same function name and the same parameter names in the same order
            new_sig = '\n'.join(sec['sig']).rstrip()
            if X.sig_params(new_sig) != X.sig_params(sig):
                raise Undecided('fn %s: parameters %s no longer match the re-typed signature %s' % (a['name'], X.sig_params(sig), X.sig_params(new_sig)))
            sig = new_sig
            log.append(('R17 signature re-typed onto shim types (names/arity checked)', 1))
        if 'mutself' in a:
            # R14: Verus rejects a `mut self` receiver: it becomes the named parameter `mut <name>: Self`, and every `self`
            # token of the body is renamed; callers use the path form `Self::f(x, ..)` (logged //@sub in the caller)
            nm = a['mutself']
            if not re.search(r'\(\s*mut\s+self\s*[,)]', sig):
                raise Undecided('fn %s: expected a `mut self` receiver' % a['name'])
            sig = re.sub(r'\(\s*mut\s+self\s*([,)])', lambda m: '(mut %s: Self%s' % (nm, m.group(1)), sig, count=1)
            from .rustlex import lex as _lex
            toks = _lex(body)
            c = sum(1 for t in toks if t.kind == 'ident' and t.text == 'self')
            body = ''.join((nm if (t.kind == 'ident' and t.text == 'self') else t.text) for t in toks)
            log.append(('R14 mut-self receiver -> named parameter', c + 1))
        if 'ret' in a:
            sig = X.name_return(sig, a['ret'])
        if 'rename' in a:
            sig = re.sub(r'\bfn\s+%s\b' % re.escape(a['name']), 'fn ' + a['rename'], sig, count=1)
        if a.get('vis') == 'drop':
            sig = re.sub(r'^\s*pub(\([a-z]+\))?\s+', '', sig)
        body, c = X.r24_guard_comparison(body, bool(re.search(r'&\s*mut\s+self|\(\s*mut\s+(self|%s)\b' % re.escape(a.get('mutself', 'self')), sig))); log.append(('R24 ordering comparison in a match guard -> its method form', c))
        # loops / closures
        body = X.splice_closures(body, {k: '\n'.join(v) for k, v in sec['closures'].items()})
        body = X.splice_loops(body, {k: '\n'.join(v) for k, v in sec['loops'].items()}, {k: '\n'.join(v) for k, v in sec.get('loopends', {}).items()})
        for st in sec.get('stages', []):
            body = X.r18_stage(body, st['name'], st['before'], '\n'.join(st['proof']), a['name'])
            log.append(('R18 let-introduction: the receiver of `%s` in the body\'s tail method chain is bound to `%s` (proof-only hint follows)' % (st['before'], st['name']), 1))
        spec = '\n'.join(sec['spec']).rstrip()
        prologue = '\n'.join(sec['prologue']).rstrip()
        epilogue = '\n'.join(sec.get('epilogue', [])).rstrip()
        # body text begins with '{'
        b = body.lstrip()
        assert b.startswith('{')
        inner = b[1:]
        if epilogue and re.search(r'\breturn\b|\?\s*[;.)\n]', X.strip_comments(inner)):
            # the epilogue's proof hints ride on the body's final value: an early exit (`return`, `?`) leaves the function before them, so that
            # exit would be checked without its hints - undecided, never a failed proof
            raise Undecided('unsupported construct in fn %s: an early exit (`return` / `?`) in a body whose proof hints are spliced after its final value' % a['name'])

        def emit_one(sig_text, spec_text, twin):
            start = self.cur_line()
            self.emit('// ---- extracted from %s:%d-%d (%s) sha256=%s%s' % (
                item['file'], item['line_start'], item['line_end'], item['impl'] or 'free fn', item['sha256'][:16],
                ' [vacuity twin]' if twin else ''))
            self.emit(sig_text)
            if spec_text:
                self.emit(spec_text)
            self.emit('{')
            if prologue:
                self.emit(prologue)
            if epilogue:
                # proof-only epilogue: the body's value is bound, the proof block runs, the value is returned (`inner` ends with the closing brace)
                self.emit('let vx_ret = {')
                self.emit(inner.rstrip()[:-1] + '};')
                self.emit(epilogue)
                self.emit('vx_ret }')
            else:
                self.emit(inner)
            self.fn_ranges.append((label + ('__vac' if twin else ''), start, self.cur_line() - 1, twin))

        emit_one(sig, spec, False)
        if 'novac' not in a and not a.get('proof'):
            new = a.get('rename', a['name'])
            tsig = re.sub(r'\bfn\s+%s\b' % re.escape(new), 'fn %s__vac' % new, sig, count=1)
            tspec = _twin_spec(spec, label)
            emit_one(tsig, tspec, True)
        rec = {k: item[k] for k in ('file', 'impl', 'name', 'line_start', 'line_end', 'sha256')}
        rec['label'] = label
        if 'rename' in a:
            rec['rename'] = a['rename']
        rec['loops'] = nl
        rec['closures'] = nc
        self.functions.append(rec)
        for rule, c in log:
            if c:
                self.rewrites.append((rule, a['name'], c))

    def text(self):
        return '\n'.join(self.lines) + '\n'

    def labels(self):
        """label -> line (labels on twin lines are excluded except VAC.*)"""
        res = {}
        twin_lines = set()
        for (n, a, b, tw) in self.fn_ranges:
            if tw:
                twin_lines.update(range(a, b + 1))
        for no, ln in enumerate(self.lines, 1):
            for m in LABEL_RE.finditer(ln):
                lab = m.group(1)
                if no in twin_lines and not lab.startswith('VAC.'):
                    continue
                if lab in res:
                    raise Undecided('template error: duplicate label %s' % lab)
                res[lab] = no
        return res


LOCK_PATH = os.environ.get('VX_LOCK_PATH') or os.path.join(VERIF, 'contracts', 'structure.lock.json')
_LOCK = None


def _lock_check(a, item, nl, nc, has_ordinal_specs=True, pnames=None):
    """the number of loops and closures of every function under contract is pinned (contracts/structure.lock.json, written by
    tools/lock_structure.py on the tree the contracts were developed against). Splices are keyed by loop / closure ordinal and
    un-annotated new closures carry no specification, so a structural change means the contracts no longer describe this body:
    UNDECIDED (exit 2), never an alarm."""
    global _LOCK
    import json
    # keyed by the TEMPLATE's own locator strings (the source's impl header may be re-flowed or have its bounds reordered)
    key = '%s :: %s :: %s' % (a['file'], a.get('impl') or a.get('trait') or '(free)', a['name'])
    if os.environ.get('VX_LOCK_WRITE'):
        try:
            cur = json.load(open(LOCK_PATH))
        except Exception:
            cur = {}
        cur[key] = [nl, nc, pnames]
        json.dump(cur, open(LOCK_PATH, 'w'), indent=1, sort_keys=True)
        return
    if _LOCK is None:
        try:
            _LOCK = json.load(open(LOCK_PATH))
        except Exception:
            _LOCK = {}
    if key not in _LOCK:
        raise Undecided('structure of %s is not pinned (run tools/lock_structure.py on the tree the contracts were written for)' % key)
    if len(_LOCK[key]) > 2 and _LOCK[key][2] is not None and pnames is not None and list(_LOCK[key][2]) != list(pnames):
        raise Undecided('parameters of %s changed: %s, contracts were written for %s' % (key, pnames, _LOCK[key][2]))
    if list(_LOCK[key][:2]) != [nl, nc]:
        if not has_ordinal_specs and nl <= _LOCK[key][0] and nc <= _LOCK[key][1]:
            # FEWER loops / closures and the template splices nothing by ordinal into this function: no un-annotated new closure or loop can
            # be the reason for a failed obligation, and nothing can be misaligned - the (simpler) body is verified as it stands
            return
        raise Undecided('structure of %s changed: %d loops / %d closures, contracts were written for %d / %d' % (key, nl, nc, _LOCK[key][0], _LOCK[key][1]))


def _generics(text, kind, name):
    """(decl, use) generic parameter lists of a copied type, defaults and bounds removed from `use`"""
    from .rustlex import lex
    toks = [t for t in lex(text) if t.kind not in ('ws', 'lcomment', 'bcomment')]
    for k in range(len(toks) - 1):
        if toks[k].text == kind and toks[k + 1].text == name:
            if k + 2 < len(toks) and toks[k + 2].text == '<':
                depth, j, params, cur = 0, k + 2, [], []
                while True:
                    t = toks[j]
                    if t.text == '<':
                        depth += 1
                        if depth > 1: cur.append(t.text)
                    elif t.text == '>':
                        depth -= 1
                        if depth == 0:
                            params.append(cur); break
                        cur.append(t.text)
                    elif t.text == ',' and depth == 1:
                        params.append(cur); cur = []
                    else:
                        cur.append(t.text)
                    j += 1
                names = []
                for p in params:
                    if not p: continue
                    nm = p[0] if p[0] != 'const' else p[1]
                    names.append(nm)
                return names
            return []
    return []


def _derive_impls(text, kind, name, derives):
    gens = _generics(text, kind, name)
    use = ('<' + ', '.join(gens) + '>') if gens else ''
    out = []
    def decl(bound):
        ps = [g if g.startswith("'") else ('%s: %s' % (g, bound) if bound else g) for g in gens]
        return ('<' + ', '.join(ps) + '>') if ps else ''
    for d in derives:
        d = d.strip()
        if d == 'Clone':
            out.append('impl%s Clone for %s%s { #[verifier::external_body] fn clone(&self) -> (r: Self) ensures r == *self { unimplemented!() } }' % (decl('Clone'), name, use))
        elif d == 'Copy':
            out.append('impl%s Copy for %s%s {}' % (decl('Copy'), name, use))
        elif d == 'PartialEq':
            out.append('impl%s PartialEq for %s%s { #[verifier::external_body] fn eq(&self, o: &Self) -> bool { unimplemented!() } }' % (decl('PartialEq'), name, use))
            out.append('impl%s vstd::std_specs::cmp::PartialEqSpecImpl for %s%s { open spec fn obeys_eq_spec() -> bool { true } open spec fn eq_spec(&self, o: &Self) -> bool { *self == *o } }' % (decl('PartialEq'), name, use))
        elif d == 'Constructor':
            # derive_more::Constructor: `new(field, ..) -> Self` in declaration order (generated code, verified not assumed)
            m = re.search(r'\{(.*)\}\s*$', text, re.S)
            if not m:
                raise Undecided('derive Constructor on non-struct %s' % name)
            fields, cur, depth = [], '', 0
            for ch in m.group(1):
                if ch in '<([': depth += 1
                if ch in '>)]': depth -= 1
                if ch == ',' and depth == 0:
                    fields.append(cur); cur = ''
                else:
                    cur += ch
            if cur.strip(): fields.append(cur)
            fl = []
            for f in fields:
                f = re.sub(r'^\s*pub(\([a-z]+\))?\s+', '', f.strip())
                nm, ty = f.split(':', 1)
                fl.append((nm.strip(), ty.strip()))
            out.append('impl%s %s%s { pub fn new(%s) -> (r: Self) ensures %s { Self { %s } } }' % (
                decl(''), name, use, ', '.join('%s: %s' % x for x in fl),
                ', '.join('r.%s == %s' % (n, n) for n, _ in fl), ', '.join(n for n, _ in fl)))
        elif d == 'Default':
            out.append('impl%s Default for %s%s { #[verifier::external_body] fn default() -> Self { unimplemented!() } }' % (decl('Default'), name, use))
        else:
            raise Undecided('template error: unknown derive %s' % d)
    return '\n'.join(out)


_STD_UNSPECIFIED = [
    (r'\bInto::into\s*\(', 'the path form of Into::into'),
    (r'\bFrom::from\s*\(', 'the bare trait path From::from'),
    (r'\bClone::clone\s*\(', 'the bare trait path Clone::clone'),
    (r'\bDefault::default\s*\(\s*\)', 'the bare trait path Default::default'),
    (r'\bVec::from\s*\(', 'Vec::from'),
    (r'\[\s*\.\.\s*\]', 'full-range slicing'),
    (r'\.to_vec\s*\(\s*\)', 'to_vec'),
    (r'\.to_owned\s*\(\s*\)', 'to_owned'),
]
# text produced by a logged substitution is bracketed by these (comment) markers until the guards have been evaluated
_VXL, _VXR = '/*VX<*/', '/*>VX*/'


def _apply_subre(sub, text, fname):
    """//@subre "regex" => "replacement with \\1.." [xN]: a counted regular-expression substitution (path / constructor resolution
    whose operands vary); the number of matches must be N (default 1)"""
    m = re.match(r'\s*"((?:[^"\\]|\\.)*)"\s*=>\s*"((?:[^"\\]|\\.)*)"\s*(?:x(\d+|\*))?\s*$', sub)
    if not m:
        raise Undecided('template error: bad //@subre %s' % sub)
    pat = bytes(m.group(1), 'utf-8').decode('unicode_escape')
    rep = bytes(m.group(2), 'utf-8').decode('unicode_escape')
    found = re.findall(pat, text, flags=re.S)
    if m.group(3) != '*' and len(found) != int(m.group(3) or 1):
        raise Undecided('lost anchor in fn %s: /%s/ matches %d times, expected %s' % (fname, pat, len(found), m.group(3) or 1))
    # only the LITERAL parts of the replacement are bracketed: source text carried over by a back-reference stays visible to the guards
    parts = re.split(r'(\\\d+|\\g<\w+>)', rep)

    def _expand(_m):
        out = []
        for part in parts:
            if not part:
                continue
            if re.fullmatch(r'\\\d+|\\g<\w+>', part):
                out.append(_m.expand(part))
            else:
                out.append(_VXL + _m.expand(part) + _VXR)
        return ''.join(out)
    return re.sub(pat, _expand, text, flags=re.S), len(found)


def _apply_sub(sub, text, fname):
    if sub.startswith('~'):
        return _apply_subre(sub[1:], text, fname)
    """sub syntax:  "old" => "new" [xN]   (literal text, must occur exactly N times, default 1)"""
    optional = sub.startswith('?')
    if optional:
        sub = sub[1:]
    m = re.match(r'\s*"((?:[^"\\]|\\.)*)"\s*=>\s*"((?:[^"\\]|\\.)*)"\s*(?:x(\d+|\*))?\s*(?:#(\d+))?\s*$', sub)
    if not m:
        raise Undecided('template error: bad //@sub %s' % sub)
    old = bytes(m.group(1), 'utf-8').decode('unicode_escape')
    new = bytes(m.group(2), 'utf-8').decode('unicode_escape')
    # anchors are matched WHITESPACE-INSENSITIVELY (a body re-flowed by rustfmt - a call broken over several lines, a method chain
    # joined onto one line - keeps its anchors): layout between tokens is free, the token text itself is literal
    # (the literal text is tried first - anchors that rely on their indentation to be unique keep working; only when the literal text does
    # not occur the expected number of times the layout-free match is used)
    want0 = None if m.group(3) == '*' else int(m.group(3) or 1)
    exact = text.count(old)
    if (want0 is not None and exact == want0) or (want0 is None and exact > 0):
        rx = re.compile(re.escape(old))
    else:
        rx = _ws_free_regex(old)
    found = list(rx.finditer(text))
    cnt = len(found)
    if m.group(3) == '*':
        # `x*`: a pure path / constructor resolution applied wherever it occurs (any count, also none)
        return rx.sub(lambda _m: _VXL + new + _VXR, text), cnt
    want = int(m.group(3) or 1)
    if optional and cnt == 0:
        return text, 0      # a pure path-resolution substitution: nothing to resolve in this body
    if cnt != want:
        raise Undecided('lost anchor in fn %s: %r occurs %d times, expected %d' % (fname, old, cnt, want))
    if m.group(4):
        # `xN #k`: N occurrences expected, only the k-th (1-based) is replaced
        k = int(m.group(4))
        mm = found[k - 1]
        return text[:mm.start()] + _VXL + new + _VXR + text[mm.end():], 1
    return rx.sub(lambda _m: _VXL + new + _VXR, text), cnt


def _ws_free_regex(old):
    """regex that matches the literal `old` up to layout: where `old` has white space between two word characters at least one white space
    character is required; between any other two consecutive tokens (one of them punctuation) any amount of white space, also none, is
    accepted - whether or not `old` had some there. Leading / trailing white space of `old` is dropped."""
    out = []
    prev = None          # previous non-space character
    gap = False          # white space seen since `prev`
    for ch in old:
        if ch.isspace():
            gap = True
            continue
        if prev is not None:
            word_prev = prev.isalnum() or prev == '_'
            word_ch = ch.isalnum() or ch == '_'
            # (a line comment counts as layout: a comment added inside a multi-line anchor does not lose it)
            # (so do the markers that bracket the text of earlier substitutions)
            mk = r'|/\*VX<\*/|/\*>VX\*/'
            if word_prev and word_ch:
                out.append((r'(?:\s|//[^\n]*\n' + mk + r')+') if gap else (r'(?:' + mk[1:] + r')*'))
            else:
                out.append(r'(?:\s|//[^\n]*\n' + mk + r')*')
        if ch in ')]}' and prev is not None and prev not in '([{,':
            out.append(r'(?:,\s*)?')     # rustfmt adds a trailing comma when it breaks an argument list over several lines
        out.append(re.escape(ch))
        prev, gap = ch, False
    return re.compile(''.join(out))


def _twin_spec(spec, label):
    """append `false` to the ensures clause (or add one)"""
    vac = 'false, // [VAC.%s]' % label
    # strip comments for keyword detection
    code = re.sub(r'//[^\n]*', '', spec)
    if re.search(r'\bensures\b', code):
        if re.search(r'\bensures\b[\s\S]*\b(decreases|opens_invariants|no_unwind)\b', code):
            raise Undecided('template error: put decreases before ensures (%s)' % label)
        s = spec.rstrip()
        # ensure the last clause ends with a comma (look at last code char)
        lines = s.split('\n')
        for k in range(len(lines) - 1, -1, -1):
            codepart = re.sub(r'//[^\n]*', '', lines[k]).rstrip()
            if codepart:
                if not codepart.endswith(','):
                    cm = lines[k][len(codepart):]
                    lines[k] = codepart + ',' + cm
                break
        return '\n'.join(lines) + '\n        ' + vac
    return (spec + '\n' if spec.strip() else '') + '    ensures ' + vac
