"""Sensitivity self-test (thorough tier): run the deductive part on scratch copies of /repo with one known property-breaking edit each."""
import json, os, shutil, subprocess, tempfile, time
VERIF = os.path.dirname(os.path.dirname(os.path.abspath(__file__)))


def run(pid):
    try:
        table = json.load(open(os.path.join(VERIF, 'contracts', 'selftest.json')))
    except Exception:
        return []
    res = []
    for m in table.get(pid, []):
        tmp = tempfile.mkdtemp(prefix='vx-selftest-')
        t0 = time.time()
        try:
            subprocess.run(['rsync', '-a', '--exclude', 'target', '--exclude', '.git', '/repo/', tmp + '/'], check=True)
            if 'seed' in m:
                # a seeded change kept under /verif/seeded (produced by an independent sub-agent, confirmed against the test suite)
                pf = os.path.join(VERIF, 'seeded', m['seed'], 'patch.diff')
                a = subprocess.run(['patch', '-p1', '-s', '-i', pf], cwd=tmp, stdout=subprocess.PIPE, stderr=subprocess.STDOUT, text=True)
                if a.returncode != 0:
                    res.append(dict(what=m['what'], seed=m['seed'], status='seeded patch does not apply to the current tree (not run)'))
                    continue
                m = dict(m, file='seeded/%s/patch.diff' % m['seed'])
            else:
                p = os.path.join(tmp, m['file'])
                s = open(p).read()
                if s.count(m['old']) < 1:
                    res.append(dict(what=m['what'], file=m['file'], status='edit anchor not found in the current tree (not run)'))
                    continue
                open(p, 'w').write(s.replace(m['old'], m['new'], 1))
            env = dict(os.environ, VERIF_REPO=tmp, VERIF_NO_EVIDENCE='1', VERIF_TIER='quick')
            q = subprocess.run([os.path.join(VERIF, 'check'), pid, '--tier', 'quick'], env=env, stdout=subprocess.PIPE, stderr=subprocess.STDOUT, text=True)
            labs = [ln.split('obligation=')[1].split()[0] for ln in q.stdout.split('\n') if ln.startswith('VIOLATION') and 'obligation=' in ln]
            res.append(dict(what=m['what'], file=m['file'], exit_code=q.returncode, detected=(q.returncode == 1), obligations=labs[:4], wall_s=round(time.time() - t0, 1)))
        finally:
            shutil.rmtree(tmp, ignore_errors=True)
    return res
