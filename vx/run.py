"""Run Verus on an assembled file, build the obligation table, decide the verdict, write evidence."""
import json
import os
import re
import subprocess
import sys
import time
from .assemble import Assembly, VERIF, LABEL_RE
from .extract import Undecided

REPO = os.environ.get('VERIF_REPO', '/repo')
VERUS_TIMEOUT = int(os.environ.get('VERIF_VERUS_TIMEOUT', '600'))
TRUST_RE = re.compile(r'external_body|assume_specification|\badmit\s*\(|\bassume\s*\(|external_type_specification|\baxiom\b|external_fn_specification|#\[verifier::external\]')


def verus_run(path, rlimit=None, threads=8, extra=()):
    out = path[:-3] + '.verus.json'
    err = path[:-3] + '.verus.err'
    cmd = ['timeout', str(VERUS_TIMEOUT), 'verus', path, '--output-json', '--time', '--multiple-errors', '30',
           '--num-threads', str(threads)]
    if rlimit:
        cmd += ['--rlimit', str(rlimit)]
    cmd += list(extra)
    cmd += ['--', '--error-format=json']
    t0 = time.time()
    with open(out, 'w') as fo, open(err, 'w') as fe:
        p = subprocess.run(cmd, stdout=fo, stderr=fe, cwd=os.path.dirname(path))
    wall = time.time() - t0
    try:
        js = json.load(open(out))
    except Exception:
        js = None
    diags = []
    raw_err = open(err).read()
    for ln in raw_err.split('\n'):
        ln = ln.strip()
        if ln.startswith('{'):
            try:
                diags.append(json.loads(ln))
            except Exception:
                pass
    return dict(rc=p.returncode, json=js, diags=diags, wall=wall, cmd=' '.join(cmd), raw_err=raw_err)


def classify(asm, res):
    """returns dict(tool_error=str|None, failures=[...], fn_success={name:bool}, smt_us=int)"""
    js = res['json']
    if res['rc'] == 124:
        return dict(tool_error='verus wall-clock timeout (%ds)' % VERUS_TIMEOUT, failures=[], fn={}, smt_us=0)
    if js is None:
        return dict(tool_error='verus produced no JSON (rc=%s): %s' % (res['rc'], res['raw_err'][-2000:]), failures=[], fn={}, smt_us=0)
    vr = js.get('verification-results', {})
    errs = [d for d in res['diags'] if d.get('level') == 'error' and d.get('spans')]
    if vr.get('encountered-vir-error') or ('verified' not in vr):
        msg = '; '.join(d.get('message', '') for d in res['diags'] if d.get('level') == 'error')[:3000]
        return dict(tool_error='verus/rustc rejected the generated file: ' + msg, failures=[], fn={}, smt_us=0)
    # rustc type errors show as errors without verification running
    fn = {}
    smt_us = 0
    try:
        for mod in js['times-ms']['smt']['smt-run-module-times']:
            for f in mod.get('function-breakdown', []):
                fn[f['function']] = dict(success=f['success'], us=f['time-micros'], rlimit=f.get('rlimit'))
                smt_us += f['time-micros']
    except KeyError:
        pass
    failures = []
    label_at = {}
    for no, ln in enumerate(asm.lines, 1):
        m = LABEL_RE.search(ln)
        if m:
            label_at[no] = m.group(1)
    for d in errs:
        msg = d['message']
        if 'rlimit' in msg.lower() or 'resource limit' in msg.lower():
            return dict(tool_error='solver resource limit: ' + msg, failures=[], fn=fn, smt_us=smt_us)
        prim = [s for s in d['spans'] if s.get('is_primary')] or d['spans']
        lines = sorted({s['line_start'] for s in d['spans']})
        pl = prim[0]['line_start']
        # the labelled span: prefer primary, else any span on a labelled line
        lab = None
        for s in prim + d['spans']:
            for l in range(s['line_start'], s['line_end'] + 1):
                if l in label_at:
                    lab = label_at[l]; break
            if lab: break
        # containing extracted function
        owner, twin = None, False
        for (name, a, b, tw) in asm.fn_ranges:
            if any(a <= l <= b for l in lines):
                owner, twin = name, tw
                if a <= pl <= b:
                    break
        failures.append(dict(message=msg, label=lab, owner=owner, twin=twin, line=pl,
                             text=asm.lines[pl - 1].strip() if pl <= len(asm.lines) else '',
                             rendered=d.get('rendered', '')))
    if vr.get('errors', 0) > 0 and not failures:
        return dict(tool_error='verus reported errors without spans: ' + res['raw_err'][-2000:], failures=[], fn=fn, smt_us=smt_us)
    if not vr.get('success') and vr.get('errors', 0) == 0:
        msg = '; '.join(d.get('message', '') for d in res['diags'] if d.get('level') == 'error')[:3000]
        return dict(tool_error='verus failed without verification errors: ' + msg, failures=[], fn=fn, smt_us=smt_us)
    return dict(tool_error=None, failures=failures, fn=fn, smt_us=smt_us, verified=vr.get('verified'), errors=vr.get('errors'))


def trusted_scan(asm):
    tb = []
    for no, ln in enumerate(asm.lines, 1):
        code = ln.split('//')[0]
        if TRUST_RE.search(code):
            # attach the next signature line for context
            ctx = ln.strip()
            for k in range(no, min(no + 4, len(asm.lines))):
                nxt = asm.lines[k].strip()
                if re.search(r'\b(fn|struct|type|enum)\b', nxt):
                    ctx += ' ' + nxt
                    break
            tb.append(ctx[:200])
    return tb


def decide(pid, tier='quick', seed=0, known=None):
    """a property may have several templates (contracts/Cxx.rs.tmpl, contracts/Cxx_*.rs.tmpl; *_thorough_* only in the
    thorough tier): each is assembled and verified on its own, the obligation tables are merged"""
    import glob
    from concurrent.futures import ThreadPoolExecutor
    tmpls = sorted(glob.glob(os.path.join(VERIF, 'contracts', pid + '.rs.tmpl')) + glob.glob(os.path.join(VERIF, 'contracts', pid + '_*.rs.tmpl')))
    if tier != 'thorough':
        tmpls = [t for t in tmpls if '_thorough' not in os.path.basename(t)]
    if not tmpls:
        raise Undecided('no contract template for %s' % pid)
    t0 = time.time()
    with ThreadPoolExecutor(max_workers=len(tmpls)) as ex:
        futs = [ex.submit(decide_one, pid, t, tier, seed) for t in tmpls]
        results = []
        err = None
        for f in futs:
            try:
                results.append(f.result())
            except Undecided as e:
                err = err or e
        if err:
            raise err
    rc, evidence, viol = results[0]
    for (rc2, ev2, v2) in results[1:]:
        rc = max(rc, rc2)
        viol += v2
        c, c2 = evidence['coverage'], ev2['coverage']
        for k in ('obligations', 'discharged', 'solver_us', 'vacuity_twins_failed_as_required'):
            c[k] += c2[k]
        for k in ('trusted_base', 'functions_under_contract', 'copied_types', 'rewrites', 'obligations_table', 'not_verified', 'modelled', 'samples'):
            c[k] = c[k] + [x for x in c2[k] if x not in c[k]]
        if 'proof_stability_runs' in c2:
            c.setdefault('proof_stability_runs', []).extend(c2['proof_stability_runs'])
        c['checker_cmd'] += ' ; ' + c2['checker_cmd']
        c['generated_file'] += ' ' + c2['generated_file']
        c['explanation'] = (c['explanation'] + ' ' + c2['explanation']).strip()
        evidence['assumptions'] = evidence['assumptions'] + [a for a in ev2['assumptions'] if a not in evidence['assumptions']]
        evidence['violations'] += ev2['violations']
    evidence['coverage']['samples'] = evidence['coverage']['samples'][:16]
    evidence['wall_s'] = round(time.time() - t0, 2)
    return rc, evidence, viol


def decide_one(pid, tmpl, tier='quick', seed=0):
    """assemble + verify one template. returns (exit_code, evidence_dict, violation_records)"""
    t0 = time.time()
    gen_dir = os.path.join(VERIF, 'generated')
    if REPO != '/repo':
        # scratch source tree (development aid): its own directory, so that it cannot collide with a check of the unchanged tree running at the same time
        gen_dir = os.path.join(VERIF, 'generated', 'scratch-%d' % os.getpid())
        import atexit, shutil
        atexit.register(shutil.rmtree, gen_dir, True)
    os.makedirs(gen_dir, exist_ok=True)
    asm = Assembly(pid, REPO, tier)
    asm.process(tmpl)
    labels = asm.labels()
    path = os.path.join(gen_dir, os.path.basename(tmpl)[:-len('.rs.tmpl')] + '.rs')
    with open(path, 'w') as f:
        f.write(asm.text())
    threads = int(os.environ.get('VERIF_THREADS', '8'))
    res = verus_run(path, threads=threads)
    cl = classify(asm, res)
    if cl['tool_error'] and ('resource limit' in cl['tool_error']):
        res = verus_run(path, rlimit=40, threads=threads)
        cl = classify(asm, res)
    if cl['tool_error']:
        raise Undecided(cl['tool_error'])
    # --- obligation table
    prop_labels = [l for l in labels if not l.startswith('VAC.')]
    real_fns = [r for r in asm.fn_ranges if not r[3]]
    twins = [r for r in asm.fn_ranges if r[3]]
    failed_labels = {}
    failed_safety = {}
    vac_hit = set()
    twin_failed = set()
    for f in cl['failures']:
        if f['twin']:
            if f['label'] and f['label'].startswith('VAC.'):
                vac_hit.add(f['label'])
            elif f.get('owner'):
                # an earlier failure inside the twin (e.g. a failed proof hint) masks its `ensures false` clause: the twin did not verify,
                # and the same failure is reported for the real function
                twin_failed.add(f['owner'])
            continue
        if f['label'] and not f['label'].startswith('VAC.'):
            failed_labels.setdefault(f['label'], []).append(f)
        else:
            key = (f['owner'] or 'lemma@line%d' % f['line'])
            failed_safety.setdefault(key, []).append(f)
    # vacuity: every twin must fail on its VAC clause
    vac_missing = [n for (n, a, b, tw) in twins if ('VAC.' + n[:-5]) not in vac_hit and n not in twin_failed]
    if vac_missing:
        raise Undecided('vacuity guard: twin(s) with `ensures false` verified: %s (contradictory precondition or unreachable exit)' % vac_missing)
    # proof fns (lemmas) that appear in the SMT breakdown and are not extracted fns
    extracted_names = {f['name'] for f in asm.functions} | {f.get('rename') for f in asm.functions if f.get('rename')}
    lemma_fns = sorted(k for k in cl['fn'] if k.split('::')[-1] not in extracted_names and '__vac' not in k)
    obligations = []
    for l in sorted(prop_labels):
        obligations.append(dict(label=l, kind='clause', discharged=l not in failed_labels, backend='verus+z3',
                                line=labels[l], text=asm.lines[labels[l] - 1].strip()))
    for (n, a, b, tw) in real_fns:
        obligations.append(dict(label='%s.safety.%s' % (pid, n), kind='implicit (callee preconditions, overflow, unreachable, bounds, loop/closure contracts)',
                                discharged=n not in failed_safety, backend='verus+z3'))
    n_lemma_fail = 0
    for k in lemma_fns:
        ok = cl['fn'][k]['success']
        obligations.append(dict(label='%s.lemma.%s' % (pid, k.split('::', 1)[-1]), kind='lemma / spec proof', discharged=ok,
                                backend='verus+z3', us=cl['fn'][k]['us']))
    # failures not attributable to an extracted function or label: lemma failures
    other_fail = [k for k in failed_safety if k.startswith('lemma@')]
    n_obl = len(obligations)
    n_dis = sum(1 for o in obligations if o['discharged'])
    if n_obl == 0:
        raise Undecided('vacuity guard: zero obligations generated')
    failed = [o for o in obligations if not o['discharged']]
    # a failing lemma that is not inside an extracted function is a proof problem unless labelled
    tb = trusted_scan(asm)
    evidence = dict(
        property_id=pid, tier=tier, seed=seed, level='proof',
        coverage=dict(
            obligations=n_obl, discharged=n_dis,
            checker_cmd=res['cmd'],
            trusted_base=tb,
            samples=[dict(label=o['label'], kind=o['kind'], text=o.get('text', '')) for o in obligations[:12]],
            functions_under_contract=asm.functions,
            copied_types=asm.types,
            rewrites=[dict(rule=r, function=f, count=c) for (r, f, c) in asm.rewrites],
            obligations_table=obligations,
            backend='verus 0.2026.09.13 + z3 (bundled)',
            solver_us=cl['smt_us'],
            verus_verified_items=cl.get('verified'),
            vacuity_twins_failed_as_required=len(twins),
            not_verified=asm.unverified,
            modelled=asm.modelled,
            explanation=' '.join(asm.explain),
            generated_file=path,
        ),
        assumptions=asm.assumptions + ['trusted base: %d external_body/assume_specification/axiom items listed in coverage.trusted_base' % len(tb)],
        wall_s=round(time.time() - t0, 2),
        violations=len(failed),
    )
    viol = []
    for o in failed:
        fs = failed_labels.get(o['label']) or failed_safety.get(o['label'].split('.safety.')[-1]) or []
        viol.append(dict(obligation=o['label'], kind=o['kind'],
                         verifier_output='\n'.join(f['rendered'] for f in fs) or 'function reported as failed by Verus',
                         text=o.get('text', '')))
    lemma_failed = [v for v in viol if '.lemma.' in v['obligation']]
    if lemma_failed and other_fail:
        extra = '\n'.join(f['rendered'] for k in other_fail for f in failed_safety[k])
        for v in lemma_failed:
            v['verifier_output'] = extra
        other_fail = []
    for k in other_fail:
        fs = failed_safety[k]
        viol.append(dict(obligation='%s.%s' % (pid, k), kind='unlabelled lemma failure',
                         verifier_output='\n'.join(f['rendered'] for f in fs), text=''))
    if tier == 'thorough' and not viol:
        # proof-stability runs (thorough tier): the same file under two other SMT random seeds. Informational: a proof that depends on the
        # solver's luck is reported in the evidence (and is a candidate for splitting), it is neither an alarm nor a pass of its own.
        stab = []
        for k in (1, 2):
            sd = (seed or 0) * 7 + 11 * k
            r2 = verus_run(path, threads=threads, extra=('--smt-option', 'smt.random_seed=%d' % sd))
            c2 = classify(asm, r2)
            bad = sorted({f['label'] or ('safety.%s' % f.get('owner')) for f in c2['failures'] if not f['twin']}) if not c2['tool_error'] else ['tool: ' + c2['tool_error'][:200]]
            stab.append(dict(smt_random_seed=sd, agrees=not bad, differing=bad[:10], solver_us=c2.get('smt_us')))
        evidence['coverage']['proof_stability_runs'] = stab
    return (1 if viol else 0), evidence, viol
